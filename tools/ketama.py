"""C19: cluster routing is a stable function of the key and the node set.

1. TLC checks the design model spec/Ketama.tla exhaustively over every ring of a small domain
   (nodes added and removed one at a time): totality, boundary behaviour, wrap-around, removal
   locality, order freedom, share, both tie-break policies, and the equivalence of the
   rank-compressed table evaluation (used on real rings) with the set definitions.  A negative
   control shows that without a tie-break the answer is not a function of the set.
2. The harness driver "ketama" asks the REAL ring (cluster.New / Reset / Hash / Bucket, and
   cluster.NewHandler Set / Get over loopback TCP) for label sets of size 1..32 in every listing
   order (all permutations of small sets, seeded shuffles beyond), for every single-node removal,
   on a large key sample plus every ring-boundary location, including label sets whose ring
   points collide, and records the answers.
3. TLC validates the recorded answers against spec/KetamaTrace.tla (Route / Order / Removal /
   Share); every MISMATCH line becomes a candidate violation.
"""
import json
import os
import threading
from concurrent.futures import ThreadPoolExecutor

from vlib import Run, tlc_tagged, Infra, NCPU

DESIGN_CFG = """SPECIFICATION Spec
CONSTANTS
  MaxPoint = %(maxpoint)d
  Labels = {%(labels)s}
  PerNode = %(pernode)d
  TieMax = %(tiemax)s
INVARIANTS %(inv)s
CHECK_DEADLOCK FALSE
"""

INVARIANTS = "TypeOK Total Interval Boundary RemovalLocal OrderFree Share TableEq"

TRACE_CFG = """SPECIFICATION Spec
CONSTANTS
  TraceFile = "%s"
  ShareMin = 10000
POSTCONDITION Accepted
CHECK_DEADLOCK FALSE
"""


def design_cfg(maxpoint, nlabels, pernode, tiemax, inv=INVARIANTS):
    return DESIGN_CFG % dict(maxpoint=maxpoint, labels=", ".join(str(i) for i in range(1, nlabels + 1)),
                             pernode=pernode, tiemax="TRUE" if tiemax else "FALSE", inv=inv)


class Part:
    """One part of the recorded trace: lines are kept as text, parsed on demand."""

    def __init__(self, path, raw):
        self.path = path
        self.raw_path = raw
        with open(path) as f:
            self.lines = f.read().splitlines()
        self._raw = None

    def ev(self, l):
        return json.loads(self.lines[l - 1])

    def back(self, l, kind, stop=()):
        """Line number of the nearest event of `kind` before line l (None when an event of a
        kind in `stop` comes first)."""
        pre = '{"ev":"%s"' % kind
        stops = tuple('{"ev":"%s"' % s for s in stop)
        i = l - 1
        while i >= 1:
            s = self.lines[i - 1]
            if s.startswith(pre):
                return i
            if stops and s.startswith(stops):
                return None
            i -= 1
        return None

    def raw(self, ql):
        if self._raw is None:
            self._raw = {}
            with open(self.raw_path) as f:
                for line in f:
                    # {"l":<n>,...
                    n = int(line[5:line.index(",")])
                    self._raw[n] = line
        return json.loads(self._raw[ql])


def describe(part, m, seed):
    """Turns one MISMATCH record into (kind, what, sig, detail, replay)."""
    l = m["l"]
    route = part.ev(l)
    rl = part.back(l, "ring")
    ql = part.back(l, "queries")
    xl = part.back(l, "remove", stop=("queries",))
    ring = part.ev(rl)
    labels = ring["labels"]
    removed = part.ev(xl) if xl else None
    raw = part.raw(ql)
    name = lambda i: labels[i - 1] if isinstance(i, int) and 1 <= i <= len(labels) else ("(no node)" if i == 0 else str(i))
    names = lambda xs: [name(i) for i in xs]
    kind = m["kind"]
    first = m["first"][0] if m["first"] and isinstance(m["first"][0], dict) else {}
    detail = {"mismatch": m, "trace_part": os.path.basename(part.path), "line": l, "label_set": labels,
              "n": len(labels), "via": route.get("via"), "orders_answering_this_way": route.get("n"),
              "who": route.get("who"), "listing_order": names(route.get("order", [])),
              "shared_points_of_the_set": [[r, names(ls)] for r, ls in ring.get("ties", [])],
              "removed": removed["label"] if removed else None, "queries": raw.get("kind")}
    if kind == "Malformed":
        return kind, "harness produced a malformed %s event at line %d" % (m["first"], l), None, detail, None
    if kind == "Share":
        missing = sorted(set(first["want"]) - set(first["got"]))
        what = "Share: %d of %d nodes received no key of the %d-key sample (%s), label set of %d listed as %s" % (
            len(missing), len(first["want"]), len(part.ev(ql)["hs"]), ", ".join(names(missing)[:4]), len(labels),
            short(names(route.get("order", []))))
        sig = {"mkind": kind, "cause": "share", "n": len(labels)}
        detail["missing"] = names(missing)
        return kind, what, sig, detail, {"driver": "ketama", "seed": seed, "labels": names(route.get("order", []))}
    i = first["i"]
    loc = raw["raw"][i - 1]
    key = None
    if "keys" in raw:
        key = raw["keys"][i - 1]
    elif "key0" in raw:
        pre, _, n0 = raw["key0"].rpartition(":")
        key = "%s:%d" % (pre, int(n0) + i - 1)
    t = first.get("tied")
    if t is None:
        t = first["want"] if isinstance(first.get("want"), list) else []
    tied = sorted(names(t))
    cause = "tie" if len(tied) > 1 else "other"
    asked = ("key %r (ring location %d)" % (key, loc)) if key else ("ring location %d" % loc)
    order = names(first.get("order", []))
    reforder = names(first.get("reforder", []))
    where = " - the least point at or after it is shared by %s" % " and ".join(tied) if cause == "tie" else ""
    if kind == "Order":
        what = "Order: %s%s: nodes listed as %s -> %s, listed as %s -> %s%s (%d queries differ, via %s)" % (
            asked, where, short(reforder), name(first["want"]), short(order), name(first["got"]),
            ", both without %s" % removed["label"] if removed else "", m["n"], route.get("via"))
    elif kind == "Removal":
        what = "Removal: %s%s: with %d nodes %s -> %s; after removing %s (which did not own it) -> %s with the rest listed as %s (%d queries re-routed)" % (
            asked, where, len(labels), short(reforder), name(first["want"]), removed["label"] if removed else "?",
            name(first["got"]), short(order), m["n"])
    else:  # Route
        want = names(first.get("want", []))
        what = "Route: %s: the least ring point at or after it belongs to %s, the code answered %s (nodes listed as %s%s; %d queries)" % (
            asked, " / ".join(want) or "nobody", name(first["got"]), short(order),
            ", %s removed" % removed["label"] if removed else "", m["n"])
        tied = sorted(want)
        cause = "tie" if len(want) > 1 else "other"
    sig = {"mkind": kind, "cause": cause, "tied": "|".join(tied)}
    if cause != "tie":
        sig = {"mkind": kind, "cause": cause, "n": len(labels), "via": route.get("via")}
    detail.update({"key": key, "ring_location": loc, "tied_labels": tied,
                   "reference_listing_order": reforder,
                   "first_differences": [
                       {"query": f["i"], "ring_location": raw["raw"][f["i"] - 1], "want": name(f["want"]) if isinstance(f["want"], int) else names(f["want"]),
                        "got": name(f["got"])} for f in m["first"]]})
    replay = {"driver": "ketama", "seed": seed,
              "how": "build cluster.New(buckets with these labels in this order, weight 1) and ask "
                     + ("Continuum.Hash(key)" if key else "Continuum.Bucket(location)") + " for the label",
              "key": key, "location": loc, "reference_order": reforder, "order": order,
              "reference_answer": name(first["want"]) if isinstance(first.get("want"), int) else None,
              "answer": name(first["got"]), "removed": removed["label"] if removed else None}
    return kind, what, sig, detail, replay


def short(xs, n=5):
    return "[" + ", ".join(xs[:n]) + (", ...%d more" % (len(xs) - n) if len(xs) > n else "") + "]"


def check(prop, tier, seed):
    run = Run(prop, tier, seed)
    quick = tier == "quick"
    # run.tlc is called from several threads: make the directory counter safe
    lock = threading.Lock()
    plain_next = run._next

    def locked_next():
        with lock:
            return plain_next()
    run._next = locked_next

    if quick:
        designs = [("min", design_cfg(4, 3, 2, False), 2)]  # few JVMs: their start-up dominates on a busy machine
    else:
        designs = [("min", design_cfg(7, 3, 2, False), 4), ("max", design_cfg(7, 3, 2, True), 4),
                   ("min-4nodes", design_cfg(4, 4, 2, False), 4), ("min-3pts", design_cfg(7, 2, 3, False), 2)]
    control = design_cfg(4, 3, 2, False, inv="TieFree")

    def do_design(item):
        name, cfg, workers = item
        res = run.tlc("Ketama", cfg, workers=workers, timeout=1500, count=False)
        if res.violated or not res.ok:
            raise Infra("the design model Ketama (%s) violates %s - specification bug" % (name, res.violated))
        run.log("design %-10s %d distinct rings, %d transitions, %.0fs" % (name, res.distinct, res.generated, res.wall))
        return res

    def do_control(cfg):
        res = run.tlc("Ketama", cfg, workers=1, timeout=600, count=False, expect_violation=True)
        if res.violated != "TieFree":
            raise Infra("negative control: TieFree was expected to be violated (got %s)" % res.violated)
        return res

    def do_trace(path):
        return run.tlc("KetamaTrace", TRACE_CFG % os.path.basename(path), workers=1, files=[path], timeout=1800, count=False)

    with ThreadPoolExecutor(max_workers=max(4, min(10, NCPU - 4))) as ex:
        # ---- 1. design model: started first, runs beside everything else ----
        fdesigns = [ex.submit(do_design, d) for d in designs]
        fcontrol = None if quick else ex.submit(do_control, control)
        # ---- 2. the real code ----
        out = run.path("ketama.ndjson")
        p = run.run_vh("ketama", ["-out", out, "-seed", seed, "-mode", tier, "-n", 1700000 if quick else 3000000,
                                  "-workers", max(2, NCPU // 2)])
        summary = json.loads(p.stdout.strip().splitlines()[-1])
        run.log("driver: %d label sets, %d rings with one node removed, %d listing orders, %d continuums built, "
                "%d lookups, %d recorded answers in %d parts; e2e: %s" % (
                    summary["rings"], summary["derived_rings"], summary["listing_orders"], summary["continuums_built"],
                    summary["lookups"], summary["answers"], len(summary["files"]), summary["e2e"]))
        # ---- 3. trace validation, one TLC per part ----
        ftraces = [ex.submit(do_trace, path) for path in summary["files"]]
        tres = [f.result() for f in ftraces]
        dres = [f.result() for f in fdesigns]
        if fcontrol:
            fcontrol.result()
    nparts = len(summary["files"])
    for r in dres + tres:
        run.states += r.distinct
        run.transitions += r.generated

    # ---- verdicts ----
    kinds = {}
    seen = {}
    events = 0
    for i, res in enumerate(tres):
        part = Part(summary["files"][i], summary["raws"][i])
        events += len(part.lines)
        if res.distinct != len(part.lines) + 1:
            raise Infra("trace part %d not consumed: %d events, %d states" % (i + 1, len(part.lines), res.distinct))
        for m in tlc_tagged(res, "MISMATCH"):
            kind, what, sig, detail, replay = describe(part, m, seed)
            if kind == "Malformed":
                raise Infra(what)
            kinds[kind] = kinds.get(kind, 0) + 1
            k = (kind, json.dumps(sig, sort_keys=True))
            if k in seen:
                d = seen[k]["detail"]
                d["occurrences"] += 1
                d["queries_affected"] += m["n"]
                if replay and replay.get("key") and not d.get("key") and "example_with_a_key" not in d:
                    d["example_with_a_key"] = replay
                    seen[k]["what"] += "; e.g. " + what.split(":", 1)[1].split(" - ")[0].strip()
                continue
            detail["occurrences"] = 1
            detail["queries_affected"] = m["n"]
            seen[k] = {"kind": kind, "what": what, "sig": sig, "detail": detail, "replay": replay}
        if i == 0 and len(part.lines) > 3:
            ring = part.ev(1)
            q = part.ev(2)
            rt = part.ev(3)
            run.samples.append({"recorded_ring": {"labels": ring["labels"], "points": ring["points"][:4] + ["..."],
                                                  "distinct_points": len(ring["points"])}})
            run.samples.append({"recorded_route": {"queries": q["kind"], "hs": q["hs"][:6] + ["..."], "via": rt["via"],
                                                   "orders_and_instances_with_this_answer": rt["n"],
                                                   "labels": rt["labels"][:6] + ["..."]}})
    for c in seen.values():
        run.candidate(c["kind"], c["what"], sig=c["sig"], detail=c["detail"], replay=c["replay"])
    run.samples.append({"colliding_label_pairs_used": summary["colliding_pairs"][:3]})
    run.traces = summary["rings"] + summary["derived_rings"]
    run.log("validated %d events (%d answers) in %d parts: %d MISMATCH lines %s, %d distinct" % (
        events, summary["answers"], nparts, sum(kinds.values()), kinds, len(seen)))
    run.extra.update({
        "label_sets": summary["rings"], "rings_with_one_node_removed": summary["derived_rings"],
        "listing_orders": summary["listing_orders"], "all_permutations_up_to_n": summary["all_permutations_up_to"],
        "continuums_built": summary["continuums_built"], "real_lookups": summary["lookups"],
        "recorded_answers": summary["answers"], "trace_events": events,
        "answer_vectors_that_differ_by_listing_order": summary["answer_vectors_that_differ_by_order"],
        "colliding_label_pairs": summary["colliding_pairs"], "end_to_end": summary["e2e"],
        "set_sizes": " ".join(summary["set_sizes"]),
        "mismatch_lines_by_kind": kinds,
        "design_models": [{"name": n, "rings": r.distinct, "transitions": r.generated} for (n, _, _), r in zip(designs, dres)],
        "negative_control": "thorough tier only" if quick else "TieFree (no tie-break) is violated in the design model, as expected",
    })
    run.assumptions += [
        "ring points are recomputed by the harness as MD5(label-k), k < 40, four little-endian words (libketama); "
        "for 1..32 equally weighted nodes the code computes 40 rounds per node as well (it computes 39 for 61 nodes)",
        "where several labels share a ring point any of them is an admissible answer; only its dependence on the "
        "listing order, the instance or an unrelated removal is reported",
        "32-bit points and hash values are rank-compressed (order and equality preserved; Ketama!TableEq)",
        "the end-to-end part uses fake memcached nodes on loopback addresses 127.x.y.z:11211"
        + ("" if not summary["e2e"].startswith("skipped") else " - SKIPPED in this run: " + summary["e2e"]),
    ]
    return run.finish(exhaustive=False,
                      rule="design: every ring over the small domain (TLC, exhaustive); binding: every answer of the real ring "
                           "for label sets of size 1..32 (all permutations up to n=%d, seeded shuffles beyond, every "
                           "single-node removal, %d-key sample and all ring boundaries) must be admissible for the SET ring, "
                           "identical across listing orders and instances, and unchanged by removing a node that did not own it"
                           % (summary["all_permutations_up_to"], 10000 if quick else 100000))
