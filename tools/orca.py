"""C01 C02 C09 (and the reply-discipline part of C08): the orchestrators against the reference map.

1. TLC checks the sequential design model spec/OrcaSeq.tla exhaustively (every reachable
   (state, command) pair, evictions, clock ticks) and exports its transitions.
2. The harness replays (a seeded sample of / all of) those transitions on real rend stacks in
   several deployment shapes and compares reply and successor state with TLC's.
3. The harness records random histories; TLC validates them against spec/OrcaTrace.tla.
"""
import json
import os
import random

from vlib import Run, tlc_edges, tlc_tagged, Infra

CFG_SEQ = """SPECIFICATION Spec
CONSTANTS
  Keys = {%(keys)s}
  Blocks = {%(blocks)s}
  Flags = {%(flags)s}
  TTLs = {%(ttls)s}
  MaxLen = %(maxlen)d
  Ports = {%(ports)s}
  MaxNow = %(maxnow)d
  Evictions = %(evict)s
  MGetLen = %(mget)d
  Export = %(export)s
INVARIANTS ReplyOK Subset RefEq TTLOK
CHECK_DEADLOCK FALSE
"""


def seq_cfg(ports, export, keys=2, blocks=1, flags=2, ttls=(0, 1, 10002), maxlen=2, maxnow=1, evict=True, mget=2):
    return CFG_SEQ % dict(
        keys=", ".join('"k%d"' % i for i in range(1, keys + 1)),
        blocks=", ".join(str(i) for i in range(1, blocks + 1)),
        flags=", ".join(str(i) for i in range(flags)),
        ttls=", ".join(str(t) for t in ttls), maxlen=maxlen,
        ports=", ".join('"%s"' % p for p in ports), maxnow=maxnow,
        evict="TRUE" if evict else "FALSE", mget=mget, export="TRUE" if export else "FALSE")


TRACE_CFG = """SPECIFICATION Spec
CONSTANTS
  Keys = {"k1", "k2", "k3", "k4"}
  TraceFile = "%s"
POSTCONDITION Accepted
CHECK_DEADLOCK FALSE
"""

# deployment shapes; memproxy forces the single-reader wrapper when chunking is on
SHAPES2 = [
    dict(orca="l1l2", batch=True, lock="none", l1="std", l2="std"),
    dict(orca="l1l2", batch=True, lock="single", l1="chunked", l2="std"),
    dict(orca="l1l2", batch=True, lock="multi", l1="batched", l2="std"),
    dict(orca="l1l2", batch=True, lock="multi", l1="std", l2="std"),
    dict(orca="l1l2", batch=True, lock="none", l1="chunked", l2="std"),
    dict(orca="l1l2", batch=True, lock="single", l1="std", l2="batched"),
    dict(orca="l1l2", batch=False, lock="none", l1="std", l2="std"),
]
SHAPES1 = [
    dict(orca="l1only", lock="none", l1="std"),
    dict(orca="l1only", lock="single", l1="chunked"),
    dict(orca="l1only", lock="none", l1="batched"),
    dict(orca="l1only", lock="multi", l1="std"),
    dict(orca="l1only", lock="none", l1="chunked"),
]


def shape_name(c):
    s = c["orca"] + ("+batch" if c.get("batch") else "")
    s += "/" + c["lock"] + "/" + c["l1"]
    if c["orca"] != "l1only":
        s += "/" + c.get("l2", "std")
    return s


def sig_of(m):
    c = m.get("cmd") or {}
    return {"mkind": m["kind"], "cfg": m.get("cfg"), "proto": m.get("proto"), "port": m.get("port"),
            "op": c.get("op"), "l1": ((m.get("cfg") or "") + "///").split("/")[2] or (m.get("cfg") or "").split("/")[-1],
            "ttlclass": ttl_class(c.get("t", 0))}


def ttl_class(t):
    if t == 0:
        return "never"
    if t <= 2592:
        return "rel"
    if t == 2593 or t < 10000:
        return "abs_past"
    return "abs"


class OrcaPipeline:
    """kinds: which mismatch kinds count for the property being checked."""

    def __init__(self, run, kinds):
        self.run = run
        self.kinds = set(kinds)
        self.drift = 0
        self.executed = 0
        self.by_cfg = {}
        self.pending = []

    # -- 1. design model ---------------------------------------------------------------
    def design(self, ports, **kw):
        r = self.run
        res = r.tlc("OrcaSeq", seq_cfg(ports, False, **kw), timeout=1500)
        if res.violated:
            raise Infra("the design model itself violates %s - specification bug" % res.violated)
        r.log("design %s: %d distinct, %d generated, %.0fs" % (ports, res.distinct, res.generated, res.wall))
        return res

    def export(self, ports, sample, **kw):
        """Runs the exporting configuration; returns the path of an ndjson file with a seeded
        sample of `sample` edges (all if sample is None)."""
        r = self.run
        res = r.tlc("OrcaSeq", seq_cfg(ports, True, **kw), timeout=1500)
        if res.violated:
            raise Infra("the design model itself violates %s - specification bug" % res.violated)
        rng = random.Random(r.seed * 7919 + len(ports))
        total = res.generated - 1
        p = sample / float(total) if sample and total > sample else 1.0
        path = r.path("edges-%s-%d.ndjson" % ("-".join(ports), r._next()))
        n = 0
        with open(path, "w") as f:
            for s in tlc_edges(res):
                if p >= 1.0 or rng.random() < p or ('"mget"' in s and rng.random() < 4 * p):
                    f.write(s + "\n")
                    n += 1
        r.log("export %s: %d distinct states, %d edges, kept %d" % (ports, res.distinct, total, n))
        return path, n

    # -- 2. TLC behaviours into the code -----------------------------------------------
    def walk(self, edges, shape, proto, sizes="small", keylen=0, workers=8):
        r = self.run
        out = r.path("walk%d.json" % r._next())
        cap = os.environ.get("VERIF_CAPTURE")
        if cap:
            cd = os.path.join(cap, "%s-walk-%d" % (r.prop, r._next()))
            os.makedirs(cd, exist_ok=True)
            with open(edges) as f, open(os.path.join(cd, "edges.ndjson"), "w") as o:
                for i, ln in enumerate(f):
                    if i < 1500:
                        o.write(ln)
            with open(os.path.join(cd, "case.json"), "w") as f:
                json.dump({"kind": "walk", "property": r.prop, "shape": shape, "proto": proto, "sizes": sizes, "keylen": keylen}, f)
        r.run_vh("orca-walk", ["-in", edges, "-out", out, "-cfg", json.dumps(shape), "-proto", proto,
                               "-sizes", sizes, "-seed", r.seed, "-workers", workers, "-keylen", keylen])
        with open(out) as f:
            res = json.load(f)
        name = "%s %s %s" % (shape_name(shape), proto, sizes)
        self.executed += res["executed"]
        r.traces += res["executed"]
        self.by_cfg[name] = {"edges_executed": res["executed"], "skipped": res["skipped"],
                             "pre_states": res["distinct_pre_states"], "mismatches": len(res["mismatches"] or [])}
        if res.get("sample") and len(r.samples) < 2:
            r.samples.append({"replayed_transition": res["sample"][0], "config": name})
        for m in res["mismatches"] or []:
            self.classify(m, "walk")
        r.log("walk %-44s executed=%d mismatches=%d" % (name, res["executed"], len(res["mismatches"] or [])))
        return res

    def classify(self, m, src):
        k = m["kind"]
        if k == "Drift":
            self.drift += 1
            return
        if k in ("RefEq", "Subset") and src == "walk" and not m.get("probe"):
            # the state differs but no read through the client interface could tell: not a verdict
            self.run.notes.append("unconfirmed %s on %s" % (k, json.dumps(m.get("cmd"))))
            self.drift += 1
            return
        if k == "RefEq" and "RefEq" not in self.kinds and "ReplyOK" in self.kinds and src == "walk" and \
                any(not x.get("after_evicting_l1") for x in (m.get("probe") or [])):
            # the command was acknowledged as the model says, but a read through the client interface right
            # afterwards (L1 untouched) does not return what the reference map holds: a reply-level difference
            k = "ReadBack"
        elif k not in self.kinds:
            return
        c = m.get("cmd") or {}
        what = "%s: %s %s on port %s of %s (%s): want %s got %s %s" % (
            k, c.get("op"), json.dumps({x: c[x] for x in c if x in ("k", "keys", "v", "f", "t", "quiet", "noopend")}),
            m.get("port"), m.get("cfg"), m.get("proto"), json.dumps(m.get("want")), json.dumps(m.get("got")),
            m.get("detail", ""))
        sg = sig_of(m)
        sg["mkind"] = k
        self.run.candidate(k, what, sig=sg, detail=m, replay={"driver": "orca-walk", "mismatch": m})

    # -- 3. traces of the code into TLC ------------------------------------------------
    def rand(self, shape, proto, n, length, sizes="small", keylen=0):
        """Records n random histories on one deployment shape; validated later, all at once."""
        r = self.run
        tr = r.path("trace%d.ndjson" % r._next())
        r.run_vh("orca-rand", ["-out", tr, "-cfg", json.dumps(shape), "-proto", proto, "-sizes", sizes,
                               "-seed", r.seed, "-n", n, "-len", length, "-keylen", keylen])
        self.pending.append(tr)

    def validate(self):
        """One TLC run validates every recorded trace (each starts with a reset event)."""
        r = self.run
        if not self.pending:
            return
        tr = r.path("traces-all-%d.ndjson" % r._next())
        with open(tr, "w") as out:
            for p in self.pending:
                with open(p) as f:
                    out.write(f.read())
        self.pending = []
        res = r.tlc("OrcaTrace", TRACE_CFG % os.path.basename(tr), workers=1, files=[tr], timeout=1800)
        events = [json.loads(x) for x in open(tr)]
        if res.distinct != len(events) + 1:
            raise Infra("trace not consumed: %d events, %d states" % (len(events), res.distinct))
        seen = set()
        resets = [i for i, e in enumerate(events) if e["ev"] == "reset"]
        r.traces += len(resets)
        import bisect

        def start_of(idx):
            return resets[bisect.bisect_right(resets, idx) - 1]

        def count(name, field, n=1):
            d = self.by_cfg.setdefault(name + " traces", {"events": 0, "mismatches": 0, "traces": 0})
            d[field] += n

        for i, e in enumerate(events):
            rs = events[start_of(i)]
            name = "%s %s" % (rs["cfg"], rs["proto"])
            count(name, "events")
            if e["ev"] == "reset":
                count(name, "traces")
        for m in tlc_tagged(res, "MISMATCH"):
            idx = m["l"] - 1
            ev = events[idx]
            i = start_of(idx)
            rs = events[i]
            tid = "%s/%s/%s" % (rs["cfg"], rs["proto"], rs.get("trace"))
            key = (tid, m["kind"], m["key"], json.dumps(m["got"], sort_keys=True))
            if key in seen:
                continue  # a tier mismatch persists until the key is written again
            seen.add(key)
            count("%s %s" % (rs["cfg"], rs["proto"]), "mismatches")
            x = ev.get("x") or {}
            kind = {"TTL1": "TTL"}.get(m["kind"], m["kind"])
            mm = {"kind": kind, "cfg": rs["cfg"], "proto": rs["proto"], "port": ev.get("port"),
                  "cmd": {"op": "get" if x.get("op") == "mget" else x.get("op"), "k": x.get("k"), "keys": x.get("ks"),
                          "v": x.get("v"), "f": x.get("f"), "t": x.get("t", 0)},
                  "key": m["key"], "want": m["want"], "got": m["got"],
                  "detail": "event %d of trace %s (%s): %s" % (idx - i, tid, ev["ev"], json.dumps(ev)[:600]),
                  "trace_prefix": events[i:idx + 1] if idx - i < 80 else events[i:i + 1] + events[idx - 60:idx + 1]}
            self.classify(mm, "trace")
        if len(r.samples) < 4 and len(events) > 3:
            r.samples.append({"recorded_trace_prefix": events[:4]})
        # reply discipline anomalies recorded by the strict client
        if "Discipline" in self.kinds:
            for i, ev in enumerate(events):
                if ev.get("anomalies"):
                    rs = events[start_of(i)]
                    x = ev.get("x") or {}
                    mm = {"kind": "Discipline", "cfg": rs["cfg"], "proto": rs["proto"], "port": ev.get("port"),
                          "cmd": {"op": "get" if x.get("op") == "mget" else x.get("op"), "k": x.get("k"), "keys": x.get("ks"), "t": x.get("t", 0)},
                          "got": ev["anomalies"], "want": None, "detail": json.dumps(ev)[:600]}
                    self.classify(mm, "trace")
        r.log("validated %d traces, %d events, %d distinct mismatches (%.0fs)" % (len(resets), len(events), len(seen), res.wall))
        return res

    def finish_extra(self):
        r = self.run
        r.extra["real_steps_executed"] = self.executed
        r.extra["model_drift_steps"] = self.drift
        r.extra["configurations"] = self.by_cfg
        if r.notes:
            r.extra["notes"] = r.notes[:20]


KINDS = {
    "C01": ["ReplyOK"],
    "C02": ["Subset", "RefEq", "ReplyOK"],
    "C09": ["TTL", "ReplyOK", "RefEq"],   # RefEq: a key lost before (or kept after) the expiry last asked for
}


def check(prop, tier, seed):
    run = Run(prop, tier, seed)
    pl = OrcaPipeline(run, KINDS[prop])
    quick = tier == "quick"
    two = ["main", "batch"]
    if prop == "C09":
        ttls = (0, 1, 2, 2592, 2593, 10002, 13000, 9999)
    else:
        ttls = (0, 1, 10002)
    # 1. exhaustive design check
    if quick:
        pl.design(two, keys=2, blocks=2, flags=2, ttls=(0, 1, 10002, 9999), maxlen=2, maxnow=2 if prop == "C09" else 1)
    else:
        pl.design(two, keys=2, blocks=2, flags=2, ttls=(0, 1, 2, 2593, 10002, 9999), maxlen=2, maxnow=2, mget=3)
    pl.design(["l1only"], keys=2, blocks=2, flags=2, ttls=(0, 1, 10002, 9999), maxlen=2, maxnow=2, evict=False)
    # 2. transitions into the code
    if quick and prop == "C09":
        xkw = dict(keys=2, blocks=1, flags=1, ttls=(0, 1, 2593, 10002, 13000, 9999), maxlen=2, maxnow=1)
    elif quick:
        xkw = dict(keys=2, blocks=1, flags=2, ttls=(0, 1, 10002), maxlen=2, maxnow=1)
    else:
        xkw = dict(keys=2, blocks=1, flags=2, ttls=ttls, maxlen=2, maxnow=1)
    e2, _ = pl.export(two, 24000 if quick else 400000, **xkw)
    e1, _ = pl.export(["l1only"], 6000 if quick else 100000, evict=False, **xkw)
    shapes2 = (SHAPES2[:3] + ([SHAPES2[5]] if prop == "C09" else [])) if quick else SHAPES2
    shapes1 = SHAPES1[:2] if quick else SHAPES1
    for sh in shapes2:
        sizes = "chunk" if sh["l1"] == "chunked" else "small"
        pl.walk(e2, sh, "bin", sizes)
        if prop == "C01" or not quick:
            pl.walk(e2, sh, "text", sizes)
    for sh in shapes1:
        sizes = "chunk" if sh["l1"] == "chunked" else "small"
        pl.walk(e1, sh, "bin", sizes)
        if prop == "C01" or not quick:
            pl.walk(e1, sh, "text", sizes)
    # 3. recorded histories
    n, ln = (12, 60) if quick else (150, 120)
    for sh in shapes2 + shapes1:
        sizes = "chunk" if sh["l1"] == "chunked" else "small"
        for proto in ("bin", "text"):
            pl.rand(sh, proto, n, ln, sizes, keylen=-1 if not quick else 0)
    pl.validate()
    pl.finish_extra()
    run.assumptions += [
        "fake memcached (harness/fakemc) behaves like memcached; it is trace-validated against spec/Memcache.tla by the C17/fake driver",
        "replies are compared by class (ok / fail / error), data and flags exactly",
        "one model time unit is 1000 s; commands complete within 500 s",
    ]
    return run.finish(exhaustive=not quick,
                      rule="every transition of OrcaSeq exported by TLC is executed on the real stack from the same tier contents; random histories are validated event by event")
