"""Builds the harness once so that the Go build cache is warm; checks that TLC starts."""
import subprocess
import sys

import vlib


def main():
    r = vlib.Run("setup", "quick", 0)
    try:
        r.build_harness()
        p = subprocess.run(["tlc", "-h"], stdout=subprocess.PIPE, stderr=subprocess.STDOUT, text=True)
        if "SYNOPSIS" not in p.stdout and "TLC" not in p.stdout:
            print("tlc does not start:\n" + p.stdout[-2000:])
            return 2
    finally:
        r.cleanup()
    print("setup ok")
    return 0
