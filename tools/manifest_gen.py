#!/usr/bin/env python3
"""Regenerates /verif/MANIFEST.json from the table below (run after adding a check)."""
import json
import os
import subprocess

HERE = os.path.dirname(os.path.dirname(os.path.abspath(__file__)))

TECH = "explicit TLA+ specification checked exhaustively by TLC; TLC behaviours replayed into the real code and traces of the real code validated by a TLA+ trace specification"

NOTE = ("Trusted: TLC, the Go harness under /verif/harness (strict protocol codec, fake memcached, projections, gate scheduler). "
        "Exhaustive on the model within the stated constants; the binding executes model transitions on the real code and validates recorded executions (sampled in the quick tier).")

CLAIMED = {
    "C01": ("model_checking", "5 C01", "TLC exhaustive check of spec/OrcaSeq.tla (every reachable (state, command) pair of both orchestrator ports and of the L1-only orchestrator; invariant ReplyOK against the reference map of spec/Memcache.tla); every exported transition (quick: a seeded sample) is executed on real rend stacks (7+5 deployment shapes, text and binary) from the same tier contents and the decoded reply compared with TLC's; random histories with multi-key and quiet gets are recorded and validated event by event by TLC against spec/OrcaTrace.tla."),
    "C02": ("model_checking", "5 C02", "Same design model with Evict(k) enabled for every key in every state (invariants Subset, RefEq, ReplyOK); transitions including evictions replayed on the real stack, tier contents projected from the fake backends and compared; a Subset/RefEq difference is confirmed by reads through the client interface before and after emptying L1; recorded histories with random eviction sets validated by TLC."),
    "C03": ("model_checking", "5 C03", "spec/OrcaConc.tla: all interleavings at lock-acquisition and handler-call granularity of 2-3 clients on main and batch ports sharing one lock table (single- and multi-reader, 1-2 stripes), invariants ReplyOK/Subset/RefEq, negative control without the wrapper. Binding: depth-first enumeration of the schedules of the REAL LockedOrca + L1L2/L1L2Batch code (instrumented lockers through the verif hook, gated handlers over fake memcached); every execution validated by TLC against spec/OrcaLin.tla (linearizability by silent Lin steps, final L1/L2 agreement)."),
    "C04": ("model_checking", "5 C04", "spec/ChunkNames.tla: TLC checks over an adversarial key alphabet (keys ending in -1, -meta, -, ...) that the derived backend names <key>-meta / <key>-<i> are injective and that the owner of an entry is recoverable. Binding: random sequential histories through the real chunked handler (all handler methods; value lengths 1, payload-1, payload, payload+1 ... 4*payload, 10*payload, thorough 999*payload; key lengths 1..250; key slices with and without spare capacity; adversarial key shapes) with the backend table decoded after every call; TLC validates replies and table against the reference map of spec/Memcache.tla (OrcaTrace, one tier: ReplyOK, RefEq, Stray entries); the direct handler runs as control."),
    "C05": ("model_checking", "5 C05", "spec/Chunked.tla: writers (set/add/replace, metadata then chunks), readers (get / get-and-touch incl. its metadata refresh) and evictions at backend-request granularity; TLC checks AllOrNothing over all interleavings (2 writers x 1-2 readers x up to 7 losses), negative control without the chunk-count rule. Binding: real chunked handlers on separate connections against a gated fake backend; the scheduler enumerates depth-first (then randomly, within a cap) which connection's next backend request is processed or which entry is lost, incl. all loss subsets/positions for a stored value of 0..6 chunks; every execution is replayed by TLC through the actions of Chunked.tla (ChunkedTrace: the handler's request sequence must be the specification's, a reader's result the specification's result; AllOrNothing decided on the returned bytes)."),
    "C06": ("model_checking", "5 C06", "spec/Batched.tla: callers, batcher (receive / form / hand-off / write), backend, reader (routing by opaque) and recovery goroutine of one pooled connection as separate actions; TLC checks OneOutcome, NoCrash and (fairness) AllDone for 3-4 callers and batch sizes 1-3. Binding: (1) sequential histories through the real batched handler, incl. gete, validated against the reference map exactly like the direct handler (control); (2) 1..64 concurrent callers with caller-private keys and caller-distinct values over the batch size x delay grid, each caller's calls (all methods, multi-key gets with repeated keys and mixed quiet flags) forming a trace that TLC validates against the caller's private reference map (spec/OrcaTrace.tla): a foreign, missing or duplicated response has no explanation."),
    "C08": ("model_checking", "5 C08", "spec/Replies.tla states, for every request kind, outcome and protocol, the reply units that must be sent; spec/Conn.tla checks by TLC over all pipelines of <= 3 requests that positional (text) attribution and one-terminator-per-get follow; spec/ConnTrace.tla validates the reply units the harness's strict decoder observed on real connections for random pipelines (failing requests included) in every deployment shape x protocol."),
    "C09": ("model_checking", "5 C09", "Design model with the TTL classes {never, relative, 30 days, 30 days + 1 s, absolute future, absolute past} and clock ticks (invariant TTLOK: every tier entry carries the reference deadline); transitions replayed on the real stack over direct, chunked and batched handlers and the expiry of every serving backend entry compared with TLC's successor state; recorded histories with ticks validated by TLC."),
    "C10": ("model_checking", "5 C10", "spec/OrcaFault.tla: every program of <= 3-4 commands on both ports, every handler-call position, fault kinds {error status, connection lost before / after the request is applied}, a lost backend connection staying lost for the rest of the client connection; invariant Admissible (admissible-set oracle: no read returns a value from before an acknowledged write or delete; a miss is tolerated after a fault), liveness Terminates under weak fairness, negative control. Binding: for every scenario (pre-state, port, command incl. multi-key quiet gets) the harness places every fault kind at every backend request index on L1 and on L2 of the real stack (direct, chunked, batched handlers), records the affected request (deadline 4 s), the same connection afterwards and fresh connections before and after emptying L1; TLC validates the traces against spec/OrcaTrace.tla."),
    "C12": ("model_checking", "5 C12", "spec/OrcaConc.tla with a fault budget (error status, connection failure, panic at any handler call): invariants OneLock, LockFree, OnlyHolderRuns and deadlock freedom checked by TLC. Binding: every command kind x call position x fault kind x port x initial state and opposite-order multi-key gets are run on the real LockedOrca under the gate scheduler with competing connections; lock/unlock events from instrumented lockers validated by TLC (OrcaLin: exclusion, one lock per connection, nothing held after return, no stuck execution, no swallowed panic)."),
    "C13": ("model_checking", "5 C13", "spec/Batched.tla with a cut budget: Cut(g) may sever a connection generation at any point (idle, after the hand-off, between replies); OneOutcome checked by TLC for 2-3 callers and 1-2 cuts; NoCrash is refuted by TLC (design finding: the batch is handed to the reader before it is written, so it can be written onto the re-established connection), recorded in the evidence. Binding: concurrent callers on the real pool under a seeded storm of connection cuts (close all pooled connections with and without a refusal period, cut inside a reply, cut before/after a request); run in a child process (a pool panic ends it); every caller's calls validated by TLC with at-least-once retry semantics against its private reference map, partial multi-key answers, process exit status, hangs and service after the storm checked."),
    "C18": ("model_checking", "5 C18", "spec/Metrics.tla: every interleaving of 2 observers (one step per atomic operation of ObserveHist, including the min/max CAS loops) with the reader's buffer swap over a ring of 2 and of 4 slots, and N-goroutine counters; invariants CountExact, MinLePctLeMax, PctIsObservation, CounterExact; two deliberately wrong variants refuted as negative controls. spec/Bucket.tla: bucket function and tables (regenerated from /repo at run time) proved monotone, in range and upper-bounding for all 0 <= n <= m < 2^63 by Apalache. Binding: real histograms and counters driven through the public API and the /metrics handler (sequential periods, concurrent observers with a polling reader), reports validated by TLC against spec/MetricsTrace.tla; the real getBucket evaluated at every table value and power of two +-1 and validated against Bucket.tla (TLC below 2^30, Apalache above); linked lzcnt against the portable source and the definition."),
    "C19": ("model_checking", "5 C19", "spec/Ketama.tla: a ring is a set of (point, label) pairs; TLC enumerates all small rings and checks totality, boundary and wrap-around behaviour, removal locality and order freedom. Binding: the real cluster.New / Continuum.Hash / Bucket (and end to end cluster.NewHandler over loopback TCP to fake nodes) for label sets of size 1..32 incl. sets whose ring points collide, all permutations for n <= 5 (7 thorough), every single-node removal, 10^4-10^5 keys and every ring boundary; answers rank-compressed and validated by TLC against spec/KetamaTrace.tla (Route, Order, Removal, Share)."),
}

PENDING_REASON = "check under construction in this session (DESIGN.md section 12 gives the build order); not claimed until its machinery is committed"


def main():
    props = [json.loads(l) for l in open(os.path.join(HERE, "properties.jsonl"))]
    hooks = subprocess.run(["git", "-C", "/repo", "log", "--format=%h %s"], stdout=subprocess.PIPE, text=True).stdout.splitlines()
    hook_commits = [h.split()[0] for h in hooks if h.split(" ", 1)[1].startswith("verif hook")]
    man = {
        "version": 1,
        "setup_cmd": "./check --setup",
        "hooks": {"guard": "verif",
                  "enable": "go build -tags verif (the harness module /verif/harness replaces github.com/netflix/rend by /repo)",
                  "baseline_off_cmd": "cd /repo && GOFLAGS=-mod=mod GOPROXY=off go test -vet=off -count=1 -timeout 25m ./...",
                  "source_commits": hook_commits, "add_only": True},
        "engines": [
            {"name": "tlc", "path": "/usr/local/bin/tlc", "serves_properties": sorted(CLAIMED),
             "kind_free_text": "TLC 1.8.0: exhaustive design configurations, transition export, trace validation"},
            {"name": "vh", "path": "/verif/harness", "serves_properties": sorted(CLAIMED),
             "kind_free_text": "Go conformance harness: real rend stacks over fake memcached backends; replays TLC transitions, records ndjson traces, deterministic goroutine scheduler"}],
        "checks": [],
        "notes": "All checks: ./check <id> quick|thorough (VERIF_SEED honoured). Exit 2 means trouble of the tooling, never a violation. Known findings: /verif/known_findings.json.",
        "not_applicable": [],
    }
    for p in props:
        pid = p["id"]
        if pid in CLAIMED:
            cat, ref, text = CLAIMED[pid]
            man["checks"].append({
                "property_id": pid, "quick_cmd": "./check %s quick" % pid, "thorough_cmd": "./check %s thorough" % pid,
                "evidence_file": "/verif/evidence/%s.json" % pid, "replay_cmd_template": "./check %s --replay {path}" % pid,
                "engine": "tlc+vh", "level_claimed": {"category": cat, "text": text, "design_ref": ref},
                "level_note": NOTE, "technique": TECH})
        else:
            man["not_applicable"].append({"property_id": pid, "reason": PENDING_REASON})
    with open(os.path.join(HERE, "MANIFEST.json"), "w") as f:
        json.dump(man, f, indent=1)
    print("claimed:", sorted(CLAIMED), "pending:", [x["property_id"] for x in man["not_applicable"]])


if __name__ == "__main__":
    main()
