#!/usr/bin/env python3
"""Self-test of the bindings between the specifications and the code.

A specification that nothing binds to the code decides nothing about the code. Every check of this
directory binds in one of two ways:
  (a) events recorded from the real code are validated by TLC against a trace specification
      (spec/*Trace.tla, OrcaLin.tla), which prints a MISMATCH line for what it cannot explain;
  (b) transitions computed by TLC (OrcaSeq.tla, Export = TRUE) are executed on the real stack and
      the observed reply and tier contents are compared with the successor TLC computed.
This tool demonstrates that both bindings bite. It takes what the quick tier of the checks really
consumed (captured with VERIF_CAPTURE), confirms that the unmodified material is accepted, then
corrupts ONE recorded field (another value observed at the same place of another event, so that
the corruption is plausible), drops ONE event or swaps two neighbours, and expects a rejection.
Per specification and per field it reports how many corruptions were rejected; fields whose
corruption is never noticed are listed (they are informational: ids, timings - or a gap).

usage: selftest.py [--capture C01,C08,...] [--dir DIR] [--mutations N] [--jobs J]
exit status: 0 = every binding rejected corruptions of its essential fields, 2 = a binding is slack
"""
import argparse
import concurrent.futures as cf
import copy
import json
import os
import random
import re
import shutil
import subprocess
import sys
import tempfile

VERIF = os.path.dirname(os.path.dirname(os.path.abspath(__file__)))
SPEC = os.path.join(VERIF, "spec")
LIMIT = 2500

# fields a corruption of which MUST be rejected (per module): the observable outcome and the projected state
# fields are named "<event kind>:<path>", list indices written as #
ESSENTIAL = {
    "OrcaTrace": [r"^op:res\."],                       # the reply the client saw
    "OrcaLin": [r"^ret:res\."],                        # level A: replies (hcall events are level B, drift only)
    "ConnTrace": [r"^x:units", r"^x:stray$"],
    "LifecycleTrace": [r"^prefix:(open_l1|open_l2|gor|fresh_ok|accepting)$"],
    "WireTrace": [r"^decode:variants\.#\.got\.(op|quiet\.#)$", r"^mal:alive$"],   # klens/flags are redundant or unused for some requests
    "ChunkGeomTrace": [r"^set:reqs\.#\.(vl|kl|t)$", r"^set:meta\.n$"],
    "KetamaTrace": [r"^route:"],
    "walk2": [r"^\w*:out", r"^\w*:l2n\.k\d\.(v\.#|f)$"],     # two tiers: reply and the authoritative tier (L1 vs the model is drift)
    "walk1": [r"^\w*:out", r"^\w*:l1n\.k\d\.(v\.#|f)$"],
}
ESSENTIAL_BY_PROP = {("C02", "OrcaTrace"): [r"^op:l2\.#\.(v\.#|f)$"], ("C09", "OrcaTrace"): [r"^op:l2\.#\.e$"]}


def leaves(obj, path=""):
    if isinstance(obj, dict):
        for k, v in obj.items():
            yield from leaves(v, path + "." + k if path else k)
    elif isinstance(obj, list):
        if not obj:
            yield path + ".[]", obj
        for i, v in enumerate(obj):
            yield from leaves(v, "%s.%d" % (path, i))
    else:
        yield path, obj


def generic(path, ev=None):
    g = re.sub(r"\.\d+", ".#", path)
    return "%s:%s" % (ev, g) if ev is not None else g


def kind_of(e):
    return e.get("ev") or e.get("event") or e.get("port") or ""


def set_path(obj, path, val):
    parts = path.split(".")
    cur = obj
    for p in parts[:-1]:
        cur = cur[int(p)] if isinstance(cur, list) else cur[p]
    last = parts[-1]
    if last == "[]":
        cur.append(val)
    elif isinstance(cur, list):
        cur[int(last)] = val
    else:
        cur[last] = val


def run_tlc(module, casedir, tracefile, lines, timeout=600):
    d = tempfile.mkdtemp(prefix="selftest-")
    try:
        for f in os.listdir(SPEC):
            if f.endswith(".tla"):
                shutil.copy(os.path.join(SPEC, f), d)
        for f in os.listdir(casedir):
            if f not in ("case.json", tracefile):
                shutil.copy(os.path.join(casedir, f), d)
        with open(os.path.join(d, tracefile), "w") as f:
            f.write("\n".join(lines) + "\n")
        env = dict(os.environ)
        env["JAVA_TOOL_OPTIONS"] = "-Xss64m -Xmx2g -Djava.io.tmpdir=" + d
        p = subprocess.run(["timeout", str(timeout), "tlc", "-workers", "1", "-metadir", os.path.join(d, "md"), "-config", "run.cfg", module + ".tla"],
                           cwd=d, stdout=subprocess.PIPE, stderr=subprocess.STDOUT, text=True, env=env)
        out = p.stdout
        mism = sum(1 for l in out.splitlines() if l.startswith('"MISMATCH '))
        acc = sum(1 for l in out.splitlines() if l.startswith('"ACCEPT '))
        m = re.search(r"(\d+) states generated, (\d+) distinct states found", out)
        distinct = int(m.group(2)) if m else -1
        err = p.returncode != 0 or "Error:" in out
        return {"mismatch": mism, "accept": acc, "distinct": distinct, "error": err, "consumed": distinct == len(lines) + 1}
    finally:
        shutil.rmtree(d, ignore_errors=True)


def rejected(base, r):
    return r["error"] or r["mismatch"] > base["mismatch"] or r["accept"] < base["accept"] or (base["consumed"] and not r["consumed"])


def mutate_field(events, rng, pool):
    """Returns (description, generic path, new list of json lines) or None."""
    for _ in range(50):
        i = rng.randrange(len(events))
        lv = [(p, v) for p, v in leaves(events[i]) if not p.endswith(".[]")]
        if not lv:
            continue
        p, v = rng.choice(lv)
        g = generic(p, kind_of(events[i]))
        others = [x for x in pool.get(g, []) if x != v and type(x) == type(v)]
        if others:
            nv = rng.choice(others)
        elif isinstance(v, bool):
            nv = not v
        elif isinstance(v, int):
            nv = v + 1
        elif isinstance(v, str):
            nv = v + "x"
        else:
            continue
        ev = copy.deepcopy(events[i])
        set_path(ev, p, nv)
        out = [json.dumps(e) for e in events]
        out[i] = json.dumps(ev)
        return "event %d (%s): %s: %r -> %r" % (i + 1, events[i].get("ev") or events[i].get("event"), p, v, nv), g, out
    return None


def trace_case(casedir, case, nmut, seed):
    module = case["module"]
    tf = case["files"][0]
    raw = [l for l in open(os.path.join(casedir, tf)).read().splitlines() if l.strip()]
    raw = raw[:LIMIT]
    events = [json.loads(l) for l in raw]
    base = run_tlc(module, casedir, tf, raw)
    res = {"case": os.path.basename(casedir), "module": module, "events": len(events), "baseline": base, "mutations": []}
    if base["error"]:
        res["skipped"] = "TLC fails on the unmodified (truncated) material: nothing to compare with"
        return res
    # (a baseline with MISMATCH lines is fine where they are expected - the unlocked interleavings of C08 are
    # not linearizable; a corruption then has to ADD a mismatch or lose an ACCEPT)
    pool = {}
    for e in events:
        for p, v in leaves(e):
            if not p.endswith(".[]"):
                vs = pool.setdefault(generic(p, kind_of(e)), [])
                if v not in vs and len(vs) < 40:
                    vs.append(v)
    rng = random.Random(seed)
    for k in range(nmut):
        kind = "field" if k % 5 != 4 else ("drop" if k % 10 == 4 else "swap")
        if kind == "field":
            m = mutate_field(events, rng, pool)
            if not m:
                continue
            desc, g, lines = m
        elif kind == "drop":
            i = rng.randrange(1, len(events))
            desc, g, lines = "event %d (%s) dropped" % (i + 1, events[i].get("ev")), "<drop %s>" % events[i].get("ev"), raw[:i] + raw[i + 1:]
        else:
            i = rng.randrange(1, len(events) - 1)
            if raw[i] == raw[i + 1]:
                continue
            desc, g = "events %d and %d swapped" % (i + 1, i + 2), "<swap %s/%s>" % (events[i].get("ev"), events[i + 1].get("ev"))
            lines = raw[:i] + [raw[i + 1], raw[i]] + raw[i + 2:]
        r = run_tlc(module, casedir, tf, lines)
        res["mutations"].append({"what": desc, "field": g, "rejected": bool(rejected(base, r)), "how": "error" if r["error"] else "mismatch" if r["mismatch"] > base["mismatch"] else "not accepted" if r["accept"] < base["accept"] else "not consumed" if not r["consumed"] else ""})
    return res


def walk_case(casedir, case, nmut, seed, exe):
    edges = [l for l in open(os.path.join(casedir, "edges.ndjson")).read().splitlines() if l.strip()][:400]
    rng = random.Random(seed)

    def run(lines):
        d = tempfile.mkdtemp(prefix="selftest-walk-")
        try:
            inp, out = os.path.join(d, "e.ndjson"), os.path.join(d, "o.json")
            with open(inp, "w") as f:
                f.write("\n".join(lines) + "\n")
            os.makedirs(os.path.join(d, "s"))
            p = subprocess.run([exe, "orca-walk", "-dir", os.path.join(d, "s"), "-in", inp, "-out", out, "-cfg", json.dumps(case["shape"]), "-proto", case["proto"],
                                "-sizes", case["sizes"], "-seed", "1", "-workers", "2", "-keylen", str(case.get("keylen", 0))],
                               stdout=subprocess.PIPE, stderr=subprocess.PIPE, text=True, timeout=600)
            if p.returncode != 0:
                return {"error": True, "mismatches": 0}
            o = json.load(open(out))
            mm = [m for m in (o["mismatches"] or []) if m.get("kind") != "Drift"]
            return {"error": False, "mismatches": len(mm), "executed": o["executed"]}
        finally:
            shutil.rmtree(d, ignore_errors=True)
    base = run(edges)
    res = {"case": os.path.basename(casedir), "module": "walk", "events": len(edges), "baseline": base, "mutations": []}
    if base["error"] or base["mismatches"]:
        res["skipped"] = "the unmodified edges are not reproduced cleanly"
        return res
    parsed = [json.loads(json.loads(l)) if l.startswith('"') else json.loads(l) for l in edges]
    pool = {}
    for e in parsed:
        for p, v in leaves(e):
            if not p.endswith(".[]"):
                vs = pool.setdefault(generic(p, kind_of(e)), [])
                if v not in vs and len(vs) < 40:
                    vs.append(v)
    res["module"] = "walk2" if case["shape"].get("orca") != "l1only" else "walk1"
    for k in range(nmut):
        for _ in range(50):
            i = rng.randrange(len(parsed))
            lv = [(p, v) for p, v in leaves(parsed[i]) if re.match(r"^(out|l1n|l2n)", p) and not p.endswith(".[]")]
            xo = (parsed[i].get("x") or {}).get("op")
            if case["proto"] == "text" and xo == "gat":
                continue  # the text protocol has no get-and-touch: the walker skips these transitions
            if lv:
                break
        else:
            continue
        p, v = rng.choice(lv)
        others = [x for x in pool.get(generic(p, kind_of(parsed[i])), []) if x != v and type(x) == type(v)]
        nv = rng.choice(others) if others else (v + 1 if isinstance(v, int) and not isinstance(v, bool) else (not v if isinstance(v, bool) else str(v) + "x"))
        e = copy.deepcopy(parsed[i])
        set_path(e, p, nv)
        lines = list(edges)
        lines[i] = json.dumps(e)
        r = run([json.dumps(x) for x in parsed[:i]] + [json.dumps(e)] + [json.dumps(x) for x in parsed[i + 1:]])
        res["mutations"].append({"what": "edge %d (%s %s): %s: %r -> %r" % (i + 1, parsed[i].get("port"), (parsed[i].get("x") or {}).get("op"), p, v, nv),
                                 "field": generic(p, kind_of(parsed[i])), "rejected": bool(r["error"] or r["mismatches"] > 0), "how": "walk mismatch" if r["mismatches"] else ("error" if r["error"] else "")})
    return res


def main():
    ap = argparse.ArgumentParser()
    ap.add_argument("--capture", default="")
    ap.add_argument("--dir", default="/tmp/selftest-cap")
    ap.add_argument("--mutations", type=int, default=30)
    ap.add_argument("--jobs", type=int, default=8)
    ap.add_argument("--seed", type=int, default=1)
    ap.add_argument("--out", default=os.path.join(VERIF, "selftest", "RESULT.json"))
    ap.add_argument("--only", default="", help="comma-separated substrings of case names; other cases are taken from the existing result file")
    a = ap.parse_args()
    if a.capture:
        for c in a.capture.split(","):
            e = dict(os.environ, VERIF_CAPTURE=a.dir, VERIF_EVIDENCE_DIR=os.path.join(a.dir, "evidence"))
            p = subprocess.run([os.path.join(VERIF, "check"), c, "quick"], cwd=VERIF, env=e, stdout=subprocess.PIPE, stderr=subprocess.STDOUT, text=True)
            print("captured %s: exit %d" % (c, p.returncode), flush=True)
    cases = []
    for n in sorted(os.listdir(a.dir)):
        cj = os.path.join(a.dir, n, "case.json")
        if os.path.exists(cj):
            c = json.load(open(cj))
            if c.get("kind") in ("trace", "walk"):   # "design" cases belong to tools/vacuity.py
                cases.append((os.path.join(a.dir, n), c))
    # one case per (property, module[, shape/proto])
    pick = {}
    for d, c in cases:
        key = (c["property"], c.get("module") or "walk", json.dumps(c.get("shape")), c.get("proto"))
        pick.setdefault(key, (d, c))
    kept = []
    if a.only and os.path.exists(a.out):
        subs = a.only.split(",")
        pick = {k: v for k, v in pick.items() if any(x in os.path.basename(v[0]) for x in subs)}
        kept = [c for c in json.load(open(a.out))["cases"] if not any(x in c["case"] for x in subs)]
    exe = None
    if any(c["kind"] == "walk" for _, c in pick.values()):
        exe = os.path.join(a.dir, "vh")
        env = dict(os.environ, GOFLAGS="-mod=mod", GOPROXY="off", GOSUMDB="off", GOTOOLCHAIN="local")
        shutil.copy("/repo/go.sum", os.path.join(VERIF, "harness", "go.sum"))
        subprocess.run(["go", "build", "-tags", "verif", "-o", exe, "./cmd/vh"], cwd=os.path.join(VERIF, "harness"), env=env, check=True)
    results = []
    with cf.ThreadPoolExecutor(a.jobs) as ex:
        futs = []
        for d, c in pick.values():
            if c["kind"] == "trace":
                futs.append(ex.submit(trace_case, d, c, a.mutations, a.seed))
            else:
                futs.append(ex.submit(walk_case, d, c, max(6, a.mutations // 3), a.seed, exe))
        for f in futs:
            results.append(f.result())
    results += kept
    slack = []
    summary = []
    for r in sorted(results, key=lambda r: r["case"]):
        muts = r["mutations"]
        by = {}
        for m in muts:
            b = by.setdefault(m["field"], [0, 0])
            b[0] += 1
            b[1] += 1 if m["rejected"] else 0
        r["by_field"] = {k: {"tried": v[0], "rejected": v[1]} for k, v in sorted(by.items())}
        r["never_noticed"] = sorted(k for k, v in by.items() if v[1] == 0)
        ess = ESSENTIAL.get(r["module"], []) + ESSENTIAL_BY_PROP.get((r["case"].split("-")[0], r["module"]), [])
        # under faults (C10) and pooled retries (C13) an error / closed / timed-out reply is always admissible
        lenient = r["case"].split("-")[0] in ("C10", "C13")
        refusals = r"'(exists|notfound|notstored|fail)'"
        missed = [m["what"] for m in muts if not m["rejected"] and any(re.search(x, m["field"]) for x in ess)
                  and not (lenient and re.search(r"-> '(error|closed|timeout)'$", m["what"]))
                  # failure replies are compared by class (exists / not found / not stored are one class)
                  and not re.search(refusals + " -> " + refusals + "$", m["what"])
                  # the tag of a multi-key reply is not what is compared, its items are
                  and not re.search(r"res\.0: 'multi' -> ", m["what"])]
        r["essential_missed"] = missed
        tot, rej = len(muts), sum(1 for m in muts if m["rejected"])
        summary.append("%-34s %-16s events=%-5d corruptions=%-3d rejected=%-3d never noticed: %s%s" % (
            r["case"], r["module"], r["events"], tot, rej, ", ".join(r["never_noticed"])[:150] or "-", "  SKIPPED: " + r["skipped"] if r.get("skipped") else ""))
        if missed or (tot and rej * 4 < tot and not ess) or r.get("skipped"):
            slack.append(r["case"])
    os.makedirs(os.path.dirname(a.out), exist_ok=True)
    with open(a.out, "w") as f:
        json.dump({"seed": a.seed, "mutations_per_case": a.mutations, "cases": results, "slack": slack}, f, indent=1)
    print("\n".join(summary))
    if slack:
        print("SLACK BINDINGS: " + ", ".join(slack))
        return 2
    print("every binding rejected the corruptions of its essential fields")
    return 0


if __name__ == "__main__":
    sys.exit(main())
