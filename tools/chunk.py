"""C04 chunked storage is transparent; C05 chunked reads are all-or-nothing."""
import json
import os
import subprocess

from vlib import Run, tlc_tagged, Infra
from orca import OrcaPipeline

NAMES_CFG = """SPECIFICATION Spec
CONSTANTS
  MaxTokens = %d
  MaxChunk = %d
INVARIANTS Injective Recoverable NotSelf
CHECK_DEADLOCK FALSE
"""


def check_c04(prop, tier, seed):
    run = Run(prop, tier, seed)
    quick = tier == "quick"
    res = run.tlc("ChunkNames", NAMES_CFG % ((3, 12) if quick else (4, 30)), timeout=2400)
    if res.violated:
        raise Infra("ChunkNames violates %s" % res.violated)
    run.log("design ChunkNames: %d (key, slot) pairs checked against all others, %.0fs" % (res.distinct, res.wall))
    pl = OrcaPipeline(run, ["ReplyOK", "RefEq", "Stray"])
    exe = run.build_harness()
    jobs = []
    n, ln = (60, 60) if quick else (700, 120)
    plans = [("chunked", "small", 0, n), ("chunked", "small", -1, n // 2), ("std", "small", 0, n // 4)]
    if not quick:
        plans += [("chunked", "huge", 0, 12), ("chunked", "huge", 200, 6), ("chunked", "small", 250, 60), ("chunked", "small", 1, 60)]
    stats = {}
    for i, (mode, sizes, keylen, cnt) in enumerate(plans):
        out = run.path("hs%d.ndjson" % run._next())
        sock = run.path("hsock%d" % run._next())
        os.makedirs(sock)
        p = subprocess.Popen([exe, "handler-seq", "-dir", sock, "-out", out, "-mode", mode, "-sizes", sizes, "-keylen", str(keylen),
                              "-n", str(cnt), "-len", str(30 if sizes == "huge" else ln), "-seed", str(seed * 10 + i)], stdout=subprocess.PIPE, stderr=subprocess.PIPE, text=True)
        jobs.append((p, out, "%s/%s/keylen=%s" % (mode, sizes, keylen)))
    for p, out, name in jobs:
        try:
            so, se = p.communicate(timeout=3000)
        except subprocess.TimeoutExpired:
            p.kill()
            raise Infra("handler-seq %s did not finish within 3000 s" % name)
        if run.handler_seq_done(p, so, se, out, name):
            stats[name] = {"hang": True}
        else:
            stats[name] = json.loads(so.strip().splitlines()[-1])
        pl.pending.append(out)
    pl.validate()
    pl.finish_extra()
    run.extra["handler_runs"] = stats
    run.assumptions += ["value lengths: 1, payload-1, payload, payload+1, 2*payload-1 .. 4*payload, 10*payload(+1), thorough: 999*payload; key lengths 1..250; key slices with and without spare capacity",
                        "backend entries are attributed to client keys by forward derivation (<key>-meta, <key>-<i>); chunks left behind by an older, longer value are unreachable and not reported"]
    return run.finish(exhaustive=False, rule="random sequential histories through the real chunked handler (all ten handler methods) over 1-3 colliding keys incl. adversarial key shapes (k, k-1, k-meta); after each call the reply and the decoded backend table are validated by TLC against the reference map (OrcaTrace, one tier)")


CH_CFG = """SPECIFICATION %(spec)s
CONSTANTS
  Writers = {"w1", "w2"}
  Readers = {%(readers)s}
  N <- %(n)s
  Kind <- %(kind)s
  RKind <- %(rkind)s
  MaxChunks = %(maxchunks)d
  LossBudget = %(loss)d
  CountRule = %(rule)s
  AppendToken = "%(apptok)s"
%(extra)s
CHECK_DEADLOCK %(deadlock)s
"""

NDEF = {"N11": {"w1": 1, "w2": 1}, "N12": {"w1": 1, "w2": 2}, "N32": {"w1": 3, "w2": 2}, "N23": {"w1": 2, "w2": 3}, "N22": {"w1": 2, "w2": 2}, "N10": {"w1": 1, "w2": 0}, "N64": {"w1": 6, "w2": 4}}
KDEF = {"KSetSet": {"w1": "set", "w2": "set"}, "KSetAdd": {"w1": "set", "w2": "add"}, "KSetRep": {"w1": "set", "w2": "replace"},
        "KSetApp": {"w1": "set", "w2": "append"}, "KSetPre": {"w1": "set", "w2": "prepend"}}


def ch_cfg(n, kind, readers=("r1",), loss=3, rule=True, trace=None, maxchunks=None, rkind="RGet", apptok="fresh"):
    mc = maxchunks or max(NDEF[n].values()) or 1
    extra = "INVARIANTS AllOrNothing" if trace is None else '  TraceFile = "%s"' % trace
    return CH_CFG % dict(spec="Spec" if trace is None else "TSpec", readers=", ".join('"%s"' % r for r in readers), n=n, kind=kind, rkind=rkind,
                         maxchunks=mc if trace is None else 8, loss=loss if trace is None else 99, rule="TRUE" if rule else "FALSE", apptok=apptok,
                         extra=extra, deadlock="TRUE" if trace is None else "FALSE")


def check_c05(prop, tier, seed):
    run = Run(prop, tier, seed)
    quick = tier == "quick"
    # design
    designs = [("N32", "KSetSet", ("r1",), 3), ("N23", "KSetAdd", ("r1",), 2), ("N22", "KSetRep", ("r1", "r2"), 1), ("N11", "KSetSet", ("r1", "r2"), 2),
               ("N22", "KSetApp", ("r1", "r2"), 1), ("N23", "KSetPre", ("r1",), 2)]
    if not quick:
        designs += [("N64", "KSetSet", ("r1",), 7), ("N32", "KSetSet", ("r1", "r2"), 4), ("N10", "KSetSet", ("r1",), 2)]
    for n, k, rd, loss in designs:
        res = run.tlc("Chunked", ch_cfg(n, k, rd, loss, rkind="RGetGat" if len(rd) > 1 else ("RGat" if k == "KSetAdd" else "RGet")), timeout=2400)
        if res.violated:
            raise Infra("Chunked.tla (%s %s) violates %s" % (n, k, res.violated))
        run.log("design %s %s readers=%d losses<=%d: %d distinct states %.0fs" % (n, k, len(rd), loss, res.distinct, res.wall))
    res = run.tlc("Chunked", ch_cfg("N32", "KSetSet", ("r1",), 3, rule=False), timeout=600, expect_violation=True, count=False)
    if not res.violated:
        raise Infra("negative control failed: without the count rule the model should violate AllOrNothing")
    res = run.tlc("Chunked", ch_cfg("N22", "KSetApp", ("r1",), 0, apptok="old"), timeout=600, expect_violation=True, count=False)
    if not res.violated:
        raise Infra("negative control failed: an append that re-stores under the old token should violate AllOrNothing")
    run.extra["negative_control"] = ("a reader that does not compare chunk counts violates AllOrNothing in the model; so does an append that re-stores "
                                     "the grown value under the token of the value it read")
    # real code: one driver run + one validation per (N, Kind)
    exe = run.build_harness()
    plans = []
    # (a) every subset / position of losses on a stored value, get and gat
    for n in ("N10", "N22", "N32") + (() if quick else ("N64",)):
        nn = NDEF[n]["w1"]
        plans.append((n, "KSetSet", [{"n": NDEF[n], "kind": KDEF["KSetSet"], "readers": {"r1": "get", "r2": "gat"}, "losses": min(nn + 1, 3 if quick else 7), "pre": "w1"}],
                      1200 if quick else 30000, ("r1", "r2"), "RGetGat"))
    # (b) two writers and a reader
    for n, k in (("N32", "KSetSet"), ("N23", "KSetAdd"), ("N22", "KSetRep"), ("N11", "KSetSet"), ("N12", "KSetSet")) + (() if quick else (("N23", "KSetSet"), ("N64", "KSetSet"), ("N32", "KSetRep"), ("N11", "KSetRep"))):
        plans.append((n, k, [{"n": NDEF[n], "kind": KDEF[k], "readers": {"r1": "get"}, "losses": 0, "pre": ""},
                             {"n": NDEF[n], "kind": KDEF[k], "readers": {"r1": "get"}, "losses": 1, "pre": ""}], 1000 if quick else 40000, ("r1",), "RGet"))
        plans.append((n, k, [{"n": NDEF[n], "kind": KDEF[k], "readers": {"r1": "gat"}, "losses": 0, "pre": ""},
                             {"n": NDEF[n], "kind": KDEF[k], "readers": {"r1": "gat"}, "losses": 1, "pre": ""}], 600 if quick else 40000, ("r1",), "RGat"))
    # (c) an append / prepend on a stored value and readers (the re-store is a second write of the same key)
    for n, k in (("N22", "KSetApp"), ("N23", "KSetApp"), ("N22", "KSetPre"), ("N11", "KSetApp")) + (() if quick else (("N12", "KSetPre"), ("N32", "KSetApp"), ("N64", "KSetApp"))):
        if NDEF[n]["w2"] < NDEF[n]["w1"]:
            continue  # an append never shrinks the value
        plans.append((n, k, [{"n": NDEF[n], "kind": KDEF[k], "readers": {"r1": "get", "r2": "gat"}, "losses": 0, "pre": "w1"},
                             {"n": NDEF[n], "kind": KDEF[k], "readers": {"r1": "get"}, "losses": 1, "pre": "w1"}], 800 if quick else 30000, ("r1", "r2"), "RGetGat"))
    # (d) the stored value and the racing write come from the same connection
    for n, k in (("N22", "KSetSet"), ("N11", "KSetSet")) + (() if quick else (("N32", "KSetSet"), ("N22", "KSetRep"))):
        plans.append((n, k, [{"n": NDEF[n], "kind": KDEF[k], "readers": {"r1": "get", "r2": "gat"}, "losses": 0, "pre": "w1", "presame": True},
                             {"n": NDEF[n], "kind": KDEF[k], "readers": {"r1": "get"}, "losses": 1, "pre": "w1", "presame": True}], 800 if quick else 30000, ("r1", "r2"), "RGetGat"))
    procs = []
    for i, (n, k, progs, maxs, readers, rkind) in enumerate(plans):
        for j, p in enumerate(progs):
            p["id"] = j
        pin = run.path("cprog%d.json" % i)
        with open(pin, "w") as f:
            json.dump(progs, f)
        out = run.path("cc%d.ndjson" % i)
        sock = run.path("ccs%d" % i)
        os.makedirs(sock)
        p = subprocess.Popen([exe, "chunk-conc", "-dir", sock, "-in", pin, "-out", out, "-n", str(maxs), "-seed", str(seed + i)],
                             stdout=subprocess.PIPE, stderr=subprocess.PIPE, text=True)
        procs.append((p, n, k, out, readers, rkind))
    from concurrent.futures import ThreadPoolExecutor
    stats = {}

    def one(item):
        p, n, k, out, readers, rkind = item
        so, se = p.communicate(timeout=3000)
        if p.returncode != 0:
            run.driver_failed("chunk-conc %s %s failed" % (n, k), se)
        st = json.loads(so.strip().splitlines()[-1])
        events = [json.loads(x) for x in open(out)]
        res = run.tlc("ChunkedTrace", ch_cfg(n, k, readers, trace=os.path.basename(out), rkind=rkind), workers=1, files=[out], timeout=3000)
        if res.distinct != len(events) + 1:
            raise Infra("chunk trace not consumed: %d events, %d states" % (len(events), res.distinct))
        return n, k, st, events, list(tlc_tagged(res, "MISMATCH"))

    with ThreadPoolExecutor(max_workers=6) as ex:
        results = list(ex.map(one, procs))
    drift = 0
    for n, k, st, events, mism in results:
        name = "%s %s %s" % (n, k, "+".join(sorted(set(e["readers"].get("r1", "") + ("/gat" if "r2" in e["readers"] else "") for e in events if e["ev"] == "reset"))))
        nex = sum(1 for e in events if e["ev"] == "reset")
        run.traces += nex
        stats[name] = {"executions": nex, "events": len(events), "mismatches": len(mism), "stopped": st.get("stopped", "")}
        if st.get("stopped"):
            run.candidate("Stuck", "chunked execution hung: %s (%s %s)" % (st["stopped"], n, k), sig={"mkind": "Stuck", "n": n, "kind": k})
        seen = set()
        for m in mism:
            i = m["l"] - 1
            j = i
            while events[j]["ev"] != "reset":
                j -= 1
            rs = events[j]
            if m["kind"] in ("Step", "Model"):
                # the handler's request sequence or result differs from the specification's while the
                # bytes returned are still a miss or one writer's complete value: drift, not a verdict
                drift += 1
                continue
            key = (j, m["kind"])
            if key in seen:
                continue
            seen.add(key)
            end = j
            while events[end]["ev"] != "end":
                end += 1
            what = "%s: writers %s (%s), readers %s, pre-stored %r, schedule %s: expected %s, observed %s" % (
                m["kind"], json.dumps(rs["n"]), json.dumps(rs["kind"]), json.dumps(rs["readers"]), rs["pre"], rs["choices"],
                json.dumps(m["want"])[:200], json.dumps(m["got"])[:200])
            sig = {"mkind": m["kind"], "n": n, "kind": k, "pre": rs["pre"], "losses": rs["losses"] > 0}
            run.candidate(m["kind"], what, sig=sig, detail={"events": events[j:end + 1]},
                          replay={"driver": "chunk-conc", "program": {x: rs[x] for x in ("n", "kind", "readers", "pre", "losses")}, "choices": rs["choices"]})
        if len(run.samples) < 3:
            e0 = [i for i, e in enumerate(events) if e["ev"] == "reset"]
            if len(e0) > 1:
                run.samples.append({"execution": events[e0[len(e0) // 2]:e0[len(e0) // 2] + 14]})
        run.log("real %-28s executions=%d events=%d mismatches=%d" % (name, nex, len(events), len(mism)))
    run.extra["configurations"] = stats
    run.extra["model_drift_steps"] = drift
    run.assumptions += ["one backend request is one atomic step of the backend; the gated fake processes exactly the request the scheduler picks",
                        "the harness decides on the bytes whether a returned value is the complete value of one writer"]
    return run.finish(exhaustive=False, rule="schedules of the real chunked handlers at backend-request granularity, depth-first then random within a cap; every execution is replayed through the actions of Chunked.tla by TLC")
