"""Property id -> check function."""
import json

import chunk
import chunkgeom
import conn
import fault
import inmem
import ketama
import metrics
import multiconn
import lifecycle
import lin
import orca
import pool
import wirecheck

CHECKS = {
    "C01": orca.check,
    "C02": orca.check,
    "C03": lin.check_c03,
    "C04": chunk.check_c04,
    "C05": chunk.check_c05,
    "C06": pool.check_c06,
    "C07": wirecheck.check_c07,
    "C08": conn.check,
    "C09": orca.check,
    "C10": fault.check,
    "C11": wirecheck.check_c11,
    "C12": lin.check_c12,
    "C13": pool.check_c13,
    "C14": multiconn.check,
    "C15": lifecycle.check,
    "C16": chunkgeom.check,
    "C17": inmem.check,
    "C18": metrics.check,
    "C19": ketama.check,
}


def replay(prop, path):
    with open(path) as f:
        r = json.load(f)
    print(json.dumps(r, indent=1)[:6000])
    print("to re-execute: ./check %s quick (the seed and the sampled transition are part of the file)" % prop)
    return 0
