"""Property id -> check function."""
import json

import orca

CHECKS = {
    "C01": orca.check,
    "C02": orca.check,
    "C09": orca.check,
}


def replay(prop, path):
    with open(path) as f:
        r = json.load(f)
    print(json.dumps(r, indent=1)[:6000])
    print("to re-execute: ./check %s quick (the seed and the sampled transition are part of the file)" % prop)
    return 0
