#!/usr/bin/env python3
"""Vacuity audit of the design models.

Re-runs every design configuration the quick tier of the checks hands to TLC (captured with
VERIF_CAPTURE, see vlib.Run.tlc) with `-coverage 1` and lists the actions TLC never took: an
invariant over an action that never fires says nothing. Negative controls (configurations that
are expected to be violated) are skipped - TLC stops at the violation.

usage: vacuity.py [--dir DIR] [--jobs J]     (DIR as filled by selftest.py --capture)
"""
import argparse
import concurrent.futures as cf
import json
import os
import re
import shutil
import subprocess
import sys
import tempfile

VERIF = os.path.dirname(os.path.dirname(os.path.abspath(__file__)))
SPEC = os.path.join(VERIF, "spec")


def run(casedir, case):
    d = tempfile.mkdtemp(prefix="vacuity-")
    try:
        for f in os.listdir(SPEC):
            if f.endswith(".tla"):
                shutil.copy(os.path.join(SPEC, f), d)
        shutil.copy(os.path.join(casedir, "run.cfg"), d)
        env = dict(os.environ, JAVA_TOOL_OPTIONS="-Xss64m -Djava.io.tmpdir=" + d)
        p = subprocess.run(["timeout", "3000", "tlc", "-workers", "4", "-coverage", "1", "-metadir", os.path.join(d, "md"), "-config", "run.cfg", case["module"] + ".tla"],
                           cwd=d, stdout=subprocess.PIPE, stderr=subprocess.STDOUT, text=True, env=env)
        out = p.stdout
        # the last coverage report counts
        acts = {}
        for line in out.splitlines():
            m = re.match(r"<(\w+) line (\d+), col \d+ to line \d+, col \d+ of module (\w+)>: (\d+):(\d+)", line)
            if m:
                acts["%s (%s.tla:%s)" % (m.group(1), m.group(3), m.group(2))] = (int(m.group(4)), int(m.group(5)))
        m = re.search(r"(\d+) states generated, (\d+) distinct states found", out)
        return {"case": os.path.basename(casedir), "property": case["property"], "module": case["module"], "ok": p.returncode == 0,
                "distinct": int(m.group(2)) if m else -1, "actions": len(acts),
                "never_taken": sorted(a for a, (dst, gen) in acts.items() if gen == 0),
                "tail": "" if p.returncode == 0 else out[-600:]}
    finally:
        shutil.rmtree(d, ignore_errors=True)


def main():
    ap = argparse.ArgumentParser()
    ap.add_argument("--dir", default="/tmp/selftest-cap")
    ap.add_argument("--jobs", type=int, default=4)
    ap.add_argument("--out", default=os.path.join(VERIF, "selftest", "VACUITY.json"))
    a = ap.parse_args()
    cases = []
    for n in sorted(os.listdir(a.dir)):
        cj = os.path.join(a.dir, n, "case.json")
        if n.startswith("design-") and os.path.exists(cj):
            c = json.load(open(cj))
            if not c.get("expect_violation"):
                cases.append((os.path.join(a.dir, n), c))
    with cf.ThreadPoolExecutor(a.jobs) as ex:
        res = list(ex.map(lambda dc: run(*dc), cases))
    bad = 0
    for r in res:
        print("%-12s %-10s %-36s distinct=%-8d actions=%-3d never taken: %s%s" % (r["property"], r["module"], r["case"], r["distinct"], r["actions"],
              ", ".join(r["never_taken"]) or "-", "" if r["ok"] else "   TLC FAILED: " + r["tail"][-200:].replace("\n", " ")))
        bad += len(r["never_taken"])
    os.makedirs(os.path.dirname(a.out), exist_ok=True)
    with open(a.out, "w") as f:
        json.dump(res, f, indent=1)
    return 0


if __name__ == "__main__":
    sys.exit(main())
