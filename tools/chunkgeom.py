"""C16 fixed-size chunk discipline: spec/ChunkGeom.tla (the geometry of a chunked set, checked by TLC
for every key length 1..250 with every value length 0..1200 (quick) or 0..5000 (thorough) and every
length within 2 of a chunk boundary up to 999 chunks), spec/ChunkGeomTrace.tla (validation of the store requests the real
chunked handler sent to a fake backend, driver chunk-geom)."""
import json
import os
import re
import threading

from vlib import Run, tlc_tagged, Infra, NCPU

MAX_KEY, MAX_CHUNKS, DENSE, DELTA = 250, 999, 5000, 2
DENSE_QUICK = 1200  # beyond the longest payload (1096): every length of the first chunk and its boundary

GEOM_CFG = """SPECIFICATION Spec
CONSTANTS
  MaxKey = %d
  MaxChunks = %d
  Dense = %d
  Delta = %d
INVARIANTS TypeOK SlabFit SameSize MetaConst Ceil
CHECK_DEADLOCK FALSE
"""

TRACE_CFG = """SPECIFICATION TSpec
CONSTANTS
  TraceFile = "%s"
  MaxKey = %d
  MaxChunks = %d
  Dense = 0
  Delta = 0
CHECK_DEADLOCK FALSE
"""


def payload(k):
    return 1184 - 71 - k - 16


def cases(max_key, max_chunks, dense, delta):
    """The number of (key length, value length) cases ChunkGeom enumerates."""
    tot = 0
    for k in range(1, max_key + 1):
        p = payload(k)
        top = max_chunks * p
        s = set(range(0, min(dense, top) + 1))
        for n in range(0, max_chunks + 1):
            for d in range(-delta, delta + 1):
                if 0 <= n * p + d <= top:
                    s.add(n * p + d)
        tot += len(s)
    return tot


def violating_state(res):
    """The last state TLC printed for a violated invariant, as a dict of integers."""
    st = {}
    for line in res.lines():
        m = re.match(r"/\\ (\w+) = (-?\d+)$", line)
        if m:
            st[m.group(1)] = int(m.group(2))
    return st


def rel(vlen, klen):
    p = payload(klen)
    if vlen == 0:
        return "empty"
    r = vlen % p
    return {0: "multiple", 1: "multiple+1", p - 1: "multiple-1"}.get(r, "inside")


def check(prop, tier, seed):
    run = Run(prop, tier, seed)
    quick = tier == "quick"

    dense = DENSE_QUICK if quick else DENSE
    bg = {}
    # TLC's default of one garbage collector thread per core and a quarter of the memory as heap triples
    # the processor time of these runs (millions of tiny states); run.tlc passes JAVA_TOOL_OPTIONS on.
    saved = os.environ.get("JAVA_TOOL_OPTIONS")
    os.environ["JAVA_TOOL_OPTIONS"] = ((saved or "") + " -Xmx4g -XX:ParallelGCThreads=2").strip()

    def background(name, fn):
        def body():
            try:
                bg[name] = fn()
            except BaseException as e:  # re-raised in the main thread
                bg[name] = e
        t = threading.Thread(target=body)
        t.start()
        return t

    # ---- the design, exhaustively (in the background while the harness records the trace).
    # depth_first selects TLC's in-memory state queue; the graph has depth 2 either way.
    threads = [background("design", lambda: run.tlc("ChunkGeom", GEOM_CFG % (MAX_KEY, MAX_CHUNKS, dense, DELTA), workers=min(NCPU, 4),
                                                     timeout=900, depth_first=True, count=False))]
    # where the design stops fitting the slab: informational, beyond the stated range of 999 chunks
    threads.append(background("margin", lambda: run.tlc("ChunkGeom", GEOM_CFG % (MAX_KEY, MAX_CHUNKS + 2, 0, 0), workers=1, timeout=600,
                                                         count=False, expect_violation=True)))
    # ---- the implementation
    try:
        out = run.path("geom.ndjson")
        p = run.run_vh("chunk-geom", ["-out", out, "-seed", seed, "-mode", tier, "-workers", min(NCPU, 8)],
                       timeout=300 if quick else 1500)
        try:
            summary = json.loads(p.stdout.strip().splitlines()[-1])
        except Exception:
            raise Infra("chunk-geom printed no summary:\n" + p.stdout[-2000:] + p.stderr[-2000:])
        events = [json.loads(x) for x in open(out)]
        if len(events) != summary["events"] or not events:
            raise Infra("chunk-geom recorded %d events, summary says %d" % (len(events), summary["events"]))
        run.log("driver: %s" % json.dumps(summary))
        res = run.tlc("ChunkGeomTrace", TRACE_CFG % (os.path.basename(out), MAX_KEY, MAX_CHUNKS), workers=1, files=[out], timeout=1800)
        if res.distinct != len(events) + 1:
            raise Infra("trace not consumed: %d events, %d states" % (len(events), res.distinct))
    finally:
        for t in threads:
            t.join()
        if saved is None:
            del os.environ["JAVA_TOOL_OPTIONS"]
        else:
            os.environ["JAVA_TOOL_OPTIONS"] = saved
    for v in bg.values():
        if isinstance(v, BaseException):
            raise v

    dres = bg["design"]
    run.states += dres.distinct
    run.transitions += dres.generated
    want = cases(MAX_KEY, MAX_CHUNKS, dense, DELTA)
    if dres.violated:
        st = violating_state(dres)
        run.candidate("Design", "the design of the chunk geometry violates %s for a %s-byte value under a %s-byte key (payload %s, %s chunks)" % (
            dres.violated, st.get("len"), st.get("k"), st.get("p"), st.get("n")),
            sig={"mkind": "Design", "invariant": dres.violated}, detail={"state": st},
            replay={"module": "ChunkGeom", "constants": [MAX_KEY, MAX_CHUNKS, dense, DELTA], "state": st})
    elif dres.distinct != want:
        raise Infra("ChunkGeom enumerated %d cases, expected %d" % (dres.distinct, want))
    run.log("design: %d cases (key length, value length), %s, %.0fs" % (
        dres.distinct, "violates " + dres.violated if dres.violated else "TypeOK SlabFit SameSize MetaConst Ceil hold", dres.wall))
    m = bg["margin"]
    st = violating_state(m) if m.violated else {}
    for r in run.tlc_runs:
        if r["module"] == "ChunkGeom" and r["distinct"] == m.distinct and r["violated"] == m.violated and r is not None and r["distinct"] != dres.distinct:
            r["note"] = "informational run with MaxChunks = %d, beyond the property's range: where the slab budget is first exceeded" % (MAX_CHUNKS + 2)
    run.extra["design_margin"] = ({"note": "with MaxChunks = %d TLC reports %s violated: a value of %s chunks (chunk index %s has 4 digits) "
                                           "under a %s-byte key costs 1185 bytes; the property's range ends at %d chunks" % (
                                               MAX_CHUNKS + 2, m.violated, st.get("n"), (st.get("n") or 0) - 1, st.get("k"), MAX_CHUNKS),
                                   "state": st} if m.violated else
                                  {"note": "no violation up to %d chunks" % (MAX_CHUNKS + 2)})
    run.log("margin: " + run.extra["design_margin"]["note"])

    sets = [e for e in events if e["ev"] == "set"]
    run.traces = len(sets)
    nm = 0
    kinds = {}
    for m in tlc_tagged(res, "MISMATCH"):
        e = events[m["l"] - 1]
        kinds[m["kind"]] = kinds.get(m["kind"], 0) + 1
        if m["kind"] in ("SizeModel", "MetaModel"):
            # sizes are consistent but not the design's: the property does not fix the numbers (model drift)
            run.extra["model_drift_lines"] = run.extra.get("model_drift_lines", 0) + 1
            continue
        nm += 1
        k, v = e["klen"], e["vlen"]
        n = -(-v // payload(k))
        # the failing input class: the call, where the value ends relative to a chunk boundary, the digits of the last chunk index
        sig = {"mkind": m["kind"], "op": e["op"], "rel": rel(v, k), "index_digits": len(str(n - 1)) if n > 0 else 0}
        what = "%s: %s of a %d-byte value under a %d-byte key (payload %d, %d chunks of %d bytes expected)%s: want %s, got %s; store requests seen (runs t/i/c/kl/vl): %s" % (
            m["kind"], e["op"], v, k, payload(k), n, payload(k) + 16, " failed with '%s'" % e["err"] if e["err"] else "",
            json.dumps(m["want"]), json.dumps(m["got"])[:300], json.dumps([[r["t"], r["i"], r["c"], r["kl"], r["vl"]] for r in e["reqs"]])[:300])
        run.candidate(m["kind"], what, sig=sig, detail={"event": e, "mismatch": m},
                      replay={"driver": "chunk-geom", "seed": seed, "mode": tier, "id": e["id"], "step": e["step"],
                              "op": e["op"], "klen": k, "vlen": v})
    big = [e for e in sets if len(e["reqs"]) > 3]
    run.samples = [sets[0], sets[len(sets) // 2]] + big[-1:]
    klens = sorted(set(e["klen"] for e in sets))
    run.extra["design_cases"] = want
    run.extra["commands_validated"] = len(sets)
    run.extra["store_requests_validated"] = sum(r["c"] for e in sets for r in e["reqs"])
    run.extra["key_lengths"] = "%d distinct (%d..%d)" % (len(klens), klens[0], klens[-1])
    run.extra["longest_value"] = max(e["vlen"] for e in sets)
    run.extra["most_chunks"] = max([r["i"] + r["c"] for e in sets for r in e["reqs"] if r["t"] == "chunk"] or [0])
    run.extra["driver"] = summary
    run.extra["mismatch_lines"] = nm
    run.extra["mismatch_kinds"] = kinds
    run.assumptions += [
        "the backend is the harness's fake memcached, which accepts every key and value length and records key and value length of every SET/ADD/REPLACE request",
        "an item costs backend key length + value length + 67 bytes and the slab class holds 1184 bytes (the property's figures; memcached itself is not run)",
        "append and prepend are exercised on stored values of at most 100 chunks (the handler pipelines the reads of all chunks before reading a reply, which stalls on unix sockets for long keys with many chunks; not part of C16)",
    ]
    run.log("validated %d commands (%d store requests), %d mismatch lines %s" % (len(sets), run.extra["store_requests_validated"], nm, kinds or ""))
    run.extra["design_exhaustive"] = not dres.violated
    run.extra["implementation_sample_complete"] = summary.get("skipped", 0) == 0
    # the design is enumerated exhaustively; the implementation is exercised on a sample of it
    return run.finish(exhaustive=False, rule=(
        "design: TLC enumerates every key length 1..%d x every value length 0..%d and every length within %d of a multiple of the payload up to %d chunks "
        "(SlabFit SameSize MetaConst Ceil); implementation: set/add/replace/append/prepend/touch/gat through the real chunked handler for all %d key lengths "
        "at the boundaries of 0,1,2,3,10 and %d chunks%s; every store request the backend received must have the size, name and count ChunkGeom prescribes" % (
            MAX_KEY, dense, DELTA, MAX_CHUNKS, MAX_KEY, MAX_CHUNKS,
            "" if quick else ", every boundary 1..999 for 10 key lengths and 1..120 for 15 more, 2000 random cases and every length 0..3p+2 for 3 key lengths")))
