"""C06 the batching pool returns each caller its own, correct result; C13 it survives the loss of
its backend connections.

Design: spec/Batched.tla (callers, batcher, reader, recovery goroutine, backend, cuts).
Binding: the real batched handler against the fake memcached: (1) sequential histories through a
batched handler, validated against the reference map exactly like the direct handler; (2) many
concurrent callers with caller-private keys and caller-distinct values, every option of the
batch size / delay grid; every caller's calls form a trace validated by TLC (OrcaTrace, one tier):
a foreign or missing or duplicated response cannot be explained by the caller's private reference
map; (3) the same under connection cut storms (C13): an outcome is the caller's own correct
result or an error, and afterwards the pool serves again."""
import json
import os
import subprocess

from vlib import Run, tlc_tagged, Infra
from orca import OrcaPipeline

B_CFG = """SPECIFICATION FairSpec
CONSTANTS
  Callers = {%(callers)s}
  BatchSize = %(bs)d
  MaxTries = %(tries)d
  CutBudget = %(cuts)d
  CaptureRW = %(capture)s
  OutOfSync = "%(oos)s"
INVARIANTS %(invs)s
PROPERTIES AllDone
CHECK_DEADLOCK FALSE
"""


def bcfg(callers=3, bs=2, tries=2, cuts=0, capture=False, invs="NoCrash OneOutcome", oos="recover"):
    return B_CFG % dict(callers=", ".join('"%s"' % c for c in "abcd"[:callers]), bs=bs, tries=tries, cuts=cuts,
                        capture="TRUE" if capture else "FALSE", invs=invs, oos=oos)


def run_pool(run, exe, mode, grid, callers, length, seed, sizes="small", tag=""):
    """Every second grid point has the fake backend deliver its reply stream in pieces (-dribble)."""
    procs = []
    for i, (bs, delay) in enumerate(grid):
        dribble = (seed * 100 + i + 1) if i % 2 == 1 or sizes == "big" else 0
        out = run.path("pool-%s-%d.ndjson" % (mode, run._next()))
        sock = run.path("ps%d" % run._next())
        os.makedirs(sock)
        p = subprocess.Popen([exe, "pool", "-dir", sock, "-out", out, "-mode", mode, "-n", str(bs * 100000 + delay), "-workers", str(callers[i % len(callers)]),
                              "-len", str(length), "-seed", str(seed * 100 + i), "-sizes", sizes, "-dribble", str(dribble),
                              "-keylen", str(360 if length <= 400 else 1800)], stdout=subprocess.PIPE, stderr=subprocess.PIPE, text=True)
        procs.append((p, out, "%sbs%d/d%dus/callers%d%s" % (tag, bs, delay, callers[i % len(callers)], "/dribble" if dribble else "")))
    outs = []
    for p, out, name in procs:
        so, se = p.communicate(timeout=3000)
        if p.returncode != 0:
            run.driver_failed("pool driver failed (%s)" % (name), se)
        outs.append((out, name))
    return outs


def digest(run, pl, outs, prop):
    """Strips the summary / proc events (kept aside) and queues the traces for validation."""
    info = {}
    for out, name in outs:
        keep = []
        tid = None
        for line in open(out):
            e = json.loads(line)
            if e["ev"] in ("summary", "proc"):
                info.setdefault(name, {})[e["ev"]] = e
            else:
                keep.append(line)
                if e["ev"] == "reset":
                    tid = e.get("trace")
                # a multi-key get must deliver exactly one response per requested key, or an error
                if e["ev"] == "op" and e["res"][0] == "malformed":
                    run.candidate("PartialMultiGet", "multi-key get %s of caller %s (%s) ended without error but with %s" % (
                        json.dumps(e["x"].get("ks")), tid, name, e["res"][1]),
                        sig={"mkind": "PartialMultiGet", "mode": name.split("/")[0]}, detail=e)
                if e["ev"] == "op" and e.get("ms", 0) > 30000:
                    run.candidate("SlowCall", "a call took %d ms (%s)" % (e["ms"], name), sig={"mkind": "SlowCall"}, detail=e)
        with open(out, "w") as f:
            f.writelines(keep)
        pr = info.get(name, {}).get("proc", {})
        if pr.get("exit", 0) == 0:
            pl.pending.append(out)
        # (the histories of a process that hung or died are incomplete and full of failed calls: they are
        # reported as such below, not handed to TLC, whose admissible sets grow with every uncertain outcome)
        sm = info.get(name, {}).get("summary")
        if pr.get("exit", 0) != 0:
            crashed = "Batch out of sync" in pr.get("output", "")
            kind = "PoolCrash" if crashed else ("PoolHang" if pr.get("exit") == 3 else "PoolDied")
            run.candidate(kind, "%s: the process running the pool ended with status %s (%s): %s" % (
                kind, pr.get("exit"), name, pr.get("output", "")[-400:].replace("\n", " | ")),
                sig={"mkind": kind, "mode": name.split("/")[0]}, detail=pr)
        elif sm and sm.get("after") != "ok":
            run.candidate("PoolNotServing", "after the cut storm the pool did not serve a new call: %s (%s)" % (sm.get("after"), name),
                          sig={"mkind": "PoolNotServing"}, detail=sm)
    return info


def check_c06(prop, tier, seed):
    run = Run(prop, tier, seed)
    quick = tier == "quick"
    for name, kw in [("3 callers, batch size 2", dict()), ("3 callers, batch size 1", dict(bs=1)), ("3 callers, batch size 3", dict(bs=3))] + \
            ([] if quick else [("4 callers, batch size 2", dict(callers=4)), ("4 callers, batch size 3", dict(callers=4, bs=3))]):
        res = run.tlc("Batched", bcfg(**kw), timeout=1800)
        if res.violated:
            raise Infra("Batched.tla (%s) violates %s" % (name, res.violated))
        run.log("design %-28s %d distinct states %.0fs" % (name, res.distinct, res.wall))
    pl = OrcaPipeline(run, ["ReplyOK", "RefEq", "TTL"])
    exe = run.build_harness()
    # (1) sequential equivalence with a direct connection
    n, ln = (40, 60) if quick else (1500, 150)
    jobs = []
    for i, mode in enumerate(("batched", "std")):
        out = run.path("hs-%s.ndjson" % mode)
        sock = run.path("hsock%d" % run._next())
        os.makedirs(sock)
        p = subprocess.Popen([exe, "handler-seq", "-dir", sock, "-out", out, "-mode", mode, "-n", str(n), "-len", str(ln), "-seed", str(seed * 10 + i),
                              "-sizes", "big", "-dribble", str(seed * 10 + i + 1)], stdout=subprocess.PIPE, stderr=subprocess.PIPE, text=True)
        jobs.append((p, out, mode))
    # (2) concurrent callers over the option grid
    grid = [(1, 50), (2, 250), (10, 250), (10, 5000)] if quick else [(b, d) for b in (1, 2, 3, 10) for d in (50, 250, 5000)]
    callers = [3, 8, 16, 33] if quick else [1, 2, 5, 8, 16, 33, 64]
    outs = run_pool(run, exe, "calm", grid, callers, 40 if quick else 500, seed)
    # large values (beyond / straddling one read of the pool's reader), reply stream in pieces
    outs += run_pool(run, exe, "calm", [(2, 250), (10, 250)] if quick else [(1, 50), (2, 250), (10, 250), (10, 5000)], [10, 4] if quick else [10, 4, 16, 2],
                     25 if quick else 250, seed + 7, sizes="big", tag="big/")
    for p, out, mode in jobs:
        so, se = p.communicate(timeout=3000)
        run.handler_seq_done(p, so, se, out, mode)
        pl.pending.append(out)
    info = digest(run, pl, outs, prop)
    pl.validate()
    pl.finish_extra()
    run.extra["pool_runs"] = {k: {"summary": v.get("summary"), "exit": v.get("proc", {}).get("exit")} for k, v in info.items()}
    run.assumptions += ["callers use pairwise distinct keys and values, so a response that belongs to another caller cannot be explained by the caller's own reference map",
                        "the pool only grows by its own monitor (evaluation interval 1 s)"]
    return run.finish(exhaustive=False, rule="every caller's sequence of calls (all handler methods, multi-key gets with repeated keys and mixed quiet flags) is one trace validated against the reference map; grid of batch sizes and delays, 1..64 concurrent callers")


def check_c13(prop, tier, seed):
    run = Run(prop, tier, seed)
    quick = tier == "quick"
    for name, kw in [("2 callers, 1 cut", dict(callers=2, cuts=1)), ("2 callers, 2 cuts, 3 tries", dict(callers=2, cuts=2, tries=3))] + \
            ([] if quick else [("3 callers, 1 cut", dict(callers=3, cuts=1)), ("3 callers, 2 cuts, batch size 3", dict(callers=3, cuts=2, bs=3)), ("2 callers, 3 cuts", dict(callers=2, cuts=3, tries=3))]):
        res = run.tlc("Batched", bcfg(**kw), timeout=2400)
        if res.violated:
            raise Infra("Batched.tla (%s) violates %s" % (name, res.violated))
        run.log("design %-32s %d distinct states %.0fs (NoCrash, OneOutcome, AllDone)" % (name, res.distinct, res.wall))
    # negative control = the defect that was repaired: a reader that panics on an unknown opaque
    res = run.tlc("Batched", bcfg(callers=2, cuts=1, oos="panic"), timeout=600, expect_violation=True, count=False)
    if not res.violated:
        raise Infra("negative control failed: with OutOfSync = panic and one cut TLC should reach the crash")
    run.extra["negative_control"] = "OutOfSync = \"panic\": TLC reaches the reader's panic after one cut (%s)" % res.violated
    # the TLC counterexample replayed on the real pool through the verif hooks
    for attempt in range(3):
        run.run_vh("pool-replay", ["-out", run.path("replay.json")])
        rr = json.load(open(run.path("replay.json")))
        if rr["exit"] not in (4, 5):
            break  # 4/5: the scenario could not be set up (scheduling); try again before judging
    run.extra["counterexample_replay"] = {"exit": rr["exit"], "panic_out_of_sync": rr["panic_out_of_sync"], "steps": rr["steps"]}
    run.traces += 1
    if rr["panic_out_of_sync"] or rr["exit"] != 0:
        run.candidate("PoolCrash", "replaying TLC's counterexample (batch handed off, connection cut, reconnect, abandoned batch written onto the new connection) ended the process with status %s: %s" % (
            rr["exit"], " | ".join(rr["steps"][-4:]) + " | " + rr["tail"][-300:].replace("\n", " ")), sig={"mkind": "PoolCrash", "how": "tlc-counterexample"}, detail=rr,
            replay={"driver": "pool-replay"})
    pl = OrcaPipeline(run, ["ReplyOK", "RefEq"])
    exe = run.build_harness()
    grid = [(1, 50), (2, 250), (10, 250)] if quick else [(b, d) for b in (1, 2, 3, 10) for d in (50, 250, 5000)]
    callers = [4, 8, 16] if quick else [2, 5, 8, 16, 32]
    outs = run_pool(run, exe, "cuts", grid, callers, 100 if quick else 600, seed)
    # a pool that has grown to seven connections and more in front of a flapping backend (windows in which every
    # connection is cut at its next request): the handler's retry bounds depend on the size of the pool
    outs += run_pool(run, exe, "flap", [(2, 250)] if quick else [(1, 50), (2, 250), (10, 250)], [6] if quick else [6, 3, 12], 400 if quick else 800, seed + 3, tag="flap/")
    info = digest(run, pl, outs, prop)
    pl.validate()
    pl.finish_extra()
    run.extra["pool_runs"] = {k: {"summary": v.get("summary"), "exit": v.get("proc", {}).get("exit")} for k, v in info.items()}
    run.assumptions += ["a call that ended in an error may or may not have taken effect (admissible-set oracle of OrcaTrace)",
                        "flapping backend: from 6.5 s on (the pool's monitor adds a connection per second) windows of 1.5 s in which every connection is cut before the reply to its next request, 0.5 s apart",
                        "cut storm: every 2-27 ms one of: close all pooled connections (optionally refusing new ones for up to 40 ms), cut inside one of the next replies, cut before/after one of the next requests"]
    return run.finish(exhaustive=False, rule="concurrent callers under a seeded storm of connection cuts; each caller's calls form a trace validated by TLC against its private reference map; process exit status and service after the storm are checked")
