"""C15 a client disconnect at any byte releases everything held for that connection.

Design: spec/Lifecycle.tla (phases of the connection's server goroutine, resources, Disconnect at
any point; C15 == client closed ~> Released under weak fairness of the server).
Binding: for representative request streams in both protocols the harness sends every prefix
(quick: a third of the offsets plus all request boundaries) and closes; after the server settled
it records the backend connections still open, goroutines above the baseline, whether a fresh
client can operate on the same keys and whether new connections are served; TLC validates the
events against spec/LifecycleTrace.tla."""
import json
import os
import subprocess

from vlib import Run, tlc_tagged, Infra
from orca import SHAPES1, SHAPES2, shape_name

LC_CFG = """SPECIFICATION Spec
CONSTANTS
  MaxRequests = %d
  Locked = %s
INVARIANTS LockOnlyInExec NoLeak
PROPERTIES C15
CHECK_DEADLOCK TRUE
"""
TR_CFG = """SPECIFICATION TSpec
CONSTANTS
  TraceFile = "%s"
CHECK_DEADLOCK FALSE
"""


def check(prop, tier, seed):
    run = Run(prop, tier, seed)
    quick = tier == "quick"
    for locked in ("TRUE", "FALSE"):
        res = run.tlc("Lifecycle", LC_CFG % (2 if quick else 4, locked), timeout=600)
        if res.violated:
            raise Infra("Lifecycle.tla violates %s" % res.violated)
        run.log("design Locked=%s: %d distinct states" % (locked, res.distinct))
    shapes = [SHAPES2[0], SHAPES2[1], SHAPES2[3], SHAPES1[0], SHAPES1[1]] if quick else (SHAPES2 + SHAPES1)
    exe = run.build_harness()
    procs = []
    for sh in shapes:
        for proto in ("bin", "text"):
            out = run.path("lc%d.ndjson" % run._next())
            sock = run.path("lcs%d" % run._next())
            os.makedirs(sock)
            p = subprocess.Popen([exe, "lifecycle", "-dir", sock, "-out", out, "-cfg", json.dumps(sh), "-proto", proto, "-seed", str(seed),
                                  "-n", "3" if quick else "0"], stdout=subprocess.PIPE, stderr=subprocess.PIPE, text=True)
            procs.append((p, out, shape_name(sh), proto))
            if len(procs) % 4 == 0:
                for q in procs[-4:]:
                    q[0].wait()  # goroutine baselines are per process, but keep the machine load moderate
    files = []
    for p, out, name, proto in procs:
        so, se = p.communicate(timeout=3000)
        if p.returncode != 0:
            run.driver_failed("lifecycle driver failed on %s %s" % (name, proto), se)
        files.append(out)
    tr = run.path("lc-all.ndjson")
    with open(tr, "w") as o:
        for f in files:
            o.write(open(f).read())
    events = [json.loads(x) for x in open(tr)]
    res = run.tlc("LifecycleTrace", TR_CFG % os.path.basename(tr), workers=1, files=[tr], timeout=1800)
    if res.distinct != len(events) + 1:
        raise Infra("trace not consumed: %d events, %d states" % (len(events), res.distinct))
    by = {}
    for e in events:
        d = by.setdefault("%s %s" % (e["cfg"], e["proto"]), {"experiments": 0, "mismatches": 0})
        d["experiments"] += 1
    for m in tlc_tagged(res, "MISMATCH"):
        e = events[m["l"] - 1]
        by["%s %s" % (e["cfg"], e["proto"])]["mismatches"] += 1
        what = "%s: client sent %d of %d bytes of stream '%s' (%s) and closed, %s (%s): %s" % (
            m["kind"], e["n"], e["len"], e["stream"], e["at"], e["cfg"], e["proto"], json.dumps(m["got"]))
        run.candidate(m["kind"], what, sig={"mkind": m["kind"], "cfg": e["cfg"], "proto": e["proto"], "stream": e["stream"], "at": e["at"]},
                      detail=e, replay={"driver": "lifecycle", "cfg": e["cfg"], "proto": e["proto"], "stream": e["stream"], "n": e["n"]})
    run.traces = len(events)
    run.samples = [events[0], events[len(events) // 2], events[-1]]
    run.extra["configurations"] = by
    run.assumptions += ["the system counts as settled when both fake backends report no open connection and the goroutine count is back at the baseline, or after 3 s",
                        "pooled (batched) backend connections are shared by design and not counted"]
    run.log("%d disconnect experiments, %d mismatch lines" % (len(events), sum(d["mismatches"] for d in by.values())))
    return run.finish(exhaustive=not quick, rule="every prefix length of each representative stream (each command, a pipeline, quiet batches, quit) is one experiment")
