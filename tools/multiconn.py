"""C14 concurrent connections do not interfere with each other.

Sentence 1 (each connection observes exactly the replies it would observe alone): many real
connections on private key sets in every orchestrator x handler shape; every connection's
commands form a trace validated by TLC against its private reference map (spec/OrcaTrace.tla);
design: spec/OrcaConc.tla instantiated with clients on disjoint keys.
Sentence 2 (no unsynchronised shared state): the same model-driven workload is run in a harness
built with Go's race detector, with the /metrics handler polled concurrently; a race report whose
stacks contain a frame of the repository is a violation. The race detector, not TLC, decides
this clause (stated in level_note)."""
import json
import os
import re
import subprocess

from vlib import Run, Infra, REPO
from orca import OrcaPipeline, SHAPES1, SHAPES2, shape_name
import lin

REPO_FRAME = re.compile(r"^\s+(/repo|%s)/(\S+\.go):(\d+)" % re.escape(os.path.realpath(REPO)))


def parse_races(text):
    """Returns a list of (signature, report) for race reports with a repository frame."""
    out = []
    for block in text.split("WARNING: DATA RACE")[1:]:
        block = block.split("==================")[0]
        frames = []
        fn = None
        for line in block.splitlines():
            m = re.match(r"^\s+(\S+\(\)|\S+\.func\d+\(\))$", line)
            if m:
                fn = m.group(1)
            m = REPO_FRAME.match(line)
            if m:
                frames.append((m.group(2), fn))
        if not frames:
            continue
        # signature: the innermost repository frame of each of the two accesses
        sections = re.split(r"\n(?=(?:Previous )?(?:[Rr]ead|[Ww]rite|Atomic) )", block)
        tops = []
        for sec in sections:
            if not re.match(r"\s*(Previous )?(read|write|atomic)", sec.strip(), re.I):
                continue
            fn = None
            for l in sec.splitlines():
                m = re.match(r"^\s+(\S+)\(\)$", l)
                if m:
                    fn = m.group(1).split("/")[-1]
                if REPO_FRAME.match(l):
                    tops.append(fn or REPO_FRAME.match(l).group(2))
                    break
        sig = " <-> ".join(sorted(set(tops))[:2]) if tops else frames[0][0]
        out.append((sig, block.strip()[:3000]))
    return out


def check(prop, tier, seed):
    run = Run(prop, tier, seed)
    quick = tier == "quick"
    # design: clients on disjoint keys do not influence each other's replies
    res = run.tlc("OrcaConc", lin.conc_cfg(keys=2, clients=2, lockof="LockTwo", locked=False, maxcmds=2, invs="ReplyOK Subset RefEq", deadlock=True, disjoint=True), timeout=1200)
    if res.violated:
        raise Infra("OrcaConc with disjoint keys violates %s" % res.violated)
    run.log("design: 2 unlocked clients on disjoint keys, %d distinct states: every reply equals the single-map reply" % res.distinct)
    pl = OrcaPipeline(run, ["ReplyOK", "RefEq", "Subset"])
    # SHAPES1[2]: the pooled handler WITHOUT the locking wrapper (which would split multi-key gets and hide
    # what two connections' requests do to each other inside one backend batch)
    shapes = [SHAPES2[0], SHAPES2[1], SHAPES2[2], SHAPES1[0], SHAPES1[2]] if quick else SHAPES2 + SHAPES1
    exe = run.build_harness()
    rexe = run.build_harness(race=True)
    jobs = []
    conns = [8, 16, 33, 64]
    for i, sh in enumerate(shapes):
        for proto in ("bin", "text"):
            out = run.path("mc%d.ndjson" % run._next())
            sock = run.path("mcs%d" % run._next())
            os.makedirs(sock)
            p = subprocess.Popen([exe, "multi-conn", "-dir", sock, "-out", out, "-cfg", json.dumps(sh), "-proto", proto, "-seed", str(seed + i),
                                  "-workers", str(conns[i % len(conns)] if not quick else [8, 16, 24][i % 3]), "-len", "60" if quick else "300"],
                                 stdout=subprocess.PIPE, stderr=subprocess.PIPE, text=True)
            jobs.append((p, out, sh, proto, False))
    races = {}
    rstats = {}
    rshapes = shapes[:3] if quick else shapes
    plans = [(sh, "bin" if i % 2 == 0 else "text", "", "250" if quick else "1500") for i, sh in enumerate(rshapes)]
    # sustained error-path traffic (commands the backend refuses with a status and a message body)
    plans += [(sh, "bin", "errpath", "2500" if quick else "8000") for sh in ([SHAPES2[0]] if quick else [SHAPES2[0], SHAPES2[1], SHAPES1[0]])]
    for i, (sh, proto, mode, ln) in enumerate(plans):
        out = run.path("mcr%d.ndjson" % run._next())
        sock = run.path("mcrs%d" % run._next())
        os.makedirs(sock)
        p = subprocess.Popen([rexe, "multi-conn", "-dir", sock, "-out", out, "-cfg", json.dumps(sh), "-proto", proto, "-seed", str(seed + 50 + i),
                              "-workers", "40" if mode == "errpath" else "8", "-len", ln, "-mode", mode], stdout=subprocess.PIPE, stderr=subprocess.PIPE, text=True,
                             env=dict(os.environ, GORACE="halt_on_error=0"))
        jobs.append((p, out, sh, proto + ("/" + mode if mode else ""), True))
    # the connection pool is process-wide state too: concurrent callers of the pooled handler, calm and
    # with the backend connections cut again and again (recovery goroutine vs batcher vs reader)
    pooljobs = []
    for i, (mode, n, workers, ln) in enumerate([("calm", 200250, 8, 100), ("cuts", 100050, 16, 150)] if quick else
                                               [("calm", 200250, 8, 400), ("cuts", 100050, 16, 400), ("cuts", 300250, 8, 400), ("cuts", 100000, 32, 300)]):
        out = run.path("mcp%d.ndjson" % run._next())
        sock = run.path("mcps%d" % run._next())
        os.makedirs(sock)
        p = subprocess.Popen([rexe, "pool-child", "-dir", sock, "-out", out, "-mode", mode, "-n", str(n), "-workers", str(workers), "-len", str(ln),
                              "-seed", str(seed * 10 + i)], stdout=subprocess.PIPE, stderr=subprocess.PIPE, text=True, env=dict(os.environ, GORACE="halt_on_error=0"))
        pooljobs.append((p, "pool/%s/n%d/callers%d (race build)" % (mode, n, workers)))
    stats = {}
    for p, name in pooljobs:
        try:
            so, se = p.communicate(timeout=3000)
        except subprocess.TimeoutExpired:
            p.kill()
            raise Infra("pool workload (race build) timed out: %s" % name)
        found = parse_races(se + so)
        rstats[name] = {"race_reports_with_repo_frames": len(found)}
        for sig, rep in found:
            races.setdefault(sig, (name, rep))
        if p.returncode not in (0, 66) and not found:
            # (with race reports in hand the way the process ended does not matter: they are the finding)
            run.driver_failed("pool workload (race build) failed: %s" % name, se)
    for p, out, sh, proto, israce in jobs:
        try:
            so, se = p.communicate(timeout=3000)
        except subprocess.TimeoutExpired:
            p.kill()
            raise Infra("multi-conn timed out on %s" % shape_name(sh))
        name = "%s %s%s" % (shape_name(sh), proto, " (race build)" if israce else "")
        if israce:
            found = parse_races(se)
            rstats[name] = {"race_reports_with_repo_frames": len(found)}
            for sig, rep in found:
                races.setdefault(sig, (name, rep))
            if p.returncode not in (0, 66) and not found:
                run.driver_failed("multi-conn (race build) failed on %s" % (name), se)
        elif p.returncode != 0:
            run.driver_failed("multi-conn failed on %s" % (name), se)
        try:
            stats[name] = json.loads(so.strip().splitlines()[-1])
        except Exception:
            stats[name] = {"output": so[-200:]}
        if "errpath" not in proto:
            pl.pending.append(out)
    pl.validate()
    pl.finish_extra()
    for sig, (name, rep) in sorted(races.items()):
        run.candidate("DataRace", "data race between connections (%s) in %s: %s" % (sig, name, " ".join(rep.split())[:500]),
                      sig={"mkind": "DataRace", "where": sig}, detail={"report": rep})
    run.extra["runs"] = stats
    run.extra["race_runs"] = rstats
    run.extra["distinct_races"] = sorted(races)
    run.assumptions += ["connections use pairwise disjoint keys; tier contents are projected per connection",
                        "freedom from data races is decided by Go's race detector on these executions, not by the specification"]
    return run.finish(exhaustive=False, rule="one trace per connection (2..64 connections at once, 60-300 commands each, failing commands included), validated against the connection's private reference map; race-detector build of the same workload")
