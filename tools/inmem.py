"""C17 the in-memory backend behaves like the reference map and is safe to share.

Design: spec/Inmem.tla - one map under one read/write lock, every handler operation split into
its lock / map-read-access / map-write-access / unlock steps, 2-3 goroutines, all interleavings
(writes only under the exclusive lock, no overlapping map accesses, refinement of Memcache.tla);
negative controls: the same model with the behaviour of today's code switched on must be refuted.
Binding: driver `inmem` calls the real handlers/inmem singleton
  seq / seq-ticks  random sequential call/return traces through every method of handlers.Handler,
                   validated line by line by spec/HandlerTrace.tla (reply and entry left behind);
  conc             2..32 goroutines on the shared instance in a child process (a Go "concurrent map
                   writes" kills the process): exit status + every goroutine's private-key trace;
  conc under -race the same under the race detector: a race with a handlers/inmem frame."""
import json
import os
import re
import threading
from concurrent.futures import ThreadPoolExecutor

from vlib import Run, tlc_tagged, Infra, NCPU

ALL_MS = '{"set", "add", "replace", "append", "prepend", "delete", "touch", "get", "gete", "gat"}'
FEWER_MS = '{"set", "add", "replace", "append", "delete", "touch", "get", "gat"}'
ALL_INVS = "LockDiscipline WritesOnlyUnderWriteLock AccessUnderLock NoConcurrentMapAccess ResultsRefine StateRefines ReadersDoNotMutate"

DESIGN_CFG = """SPECIFICATION Spec
CONSTANTS
  NProcs = %(procs)d
  Keys = {%(keys)s}
  MaxOps = %(maxops)d
  MaxNow = 1
  Ms = %(ms)s
  MultiGet = %(multi)s
  ReadersDelete = %(rd)s
  AsCoded = %(coded)s
INVARIANTS %(invs)s
"""

TRACE_CFG = """SPECIFICATION Spec
CONSTANTS
  Keys = {"k1", "k2", "k3"}
  TraceFile = "%s"
CHECK_DEADLOCK FALSE
"""

# reader methods of the design model (Inmem!ReadMs) and the Go methods they stand for
READER_FUNCS = {"Get": "get", "GetE": "gete"}


def design_cfg(procs=3, keys=1, maxops=1, multi=True, rd=False, coded=False, invs=ALL_INVS, ms=ALL_MS):
    b = lambda x: "TRUE" if x else "FALSE"
    return DESIGN_CFG % {"procs": procs, "keys": ", ".join('"k%d"' % (i + 1) for i in range(keys)), "maxops": maxops,
                         "ms": ms, "multi": b(multi), "rd": b(rd), "coded": b(coded), "invs": invs}


def design(run, quick, acc):
    """Exhaustive runs of the design model; negative controls. Appends (distinct, generated) to acc."""
    small = [("Inmem_quick.cfg", "3 goroutines x 1 op, 1 key, two-key gets"),
             (design_cfg(procs=2, keys=2, maxops=1), "2 goroutines x 1 op, 2 keys, two-key gets")]
    big = [] if quick else [
        (design_cfg(procs=3, keys=2, maxops=1), "3 goroutines x 1 op, 2 keys, two-key gets"),
        (design_cfg(procs=2, keys=2, maxops=2), "2 goroutines x 2 ops, 2 keys, two-key gets"),
        (design_cfg(procs=3, keys=1, maxops=2, ms=FEWER_MS), "3 goroutines x 2 ops, 1 key, no prepend/gete (twins of append/get)")]
    runs = []

    def one(item, workers=None):
        cfg, name = item
        res = run.tlc("Inmem", cfg, timeout=1500, count=False, workers=workers)
        if res.violated or not res.ok:
            raise Infra("Inmem.tla (%s) violates %s: specification bug" % (name, res.violated))
        acc.append((res.distinct, res.generated))
        runs.append({"model": name, "distinct": res.distinct, "wall_s": round(res.wall, 1)})
        run.log("design %-45s %8d distinct states, %.0fs" % (name, res.distinct, res.wall))

    for item in small:
        one(item)
    if big:
        # three medium-sized runs side by side use the processors better than one after the other
        with ThreadPoolExecutor(max_workers=len(big)) as ex:
            list(ex.map(lambda it: one(it, max(2, NCPU // len(big))), big))
    run.extra["design_runs"] = runs
    # negative controls: today's code, expressed in the model, must violate each of these
    negs = [("ReadersDelete", dict(rd=True), "WritesOnlyUnderWriteLock"),
            ("ReadersDelete", dict(rd=True), "NoConcurrentMapAccess"),
            ("AsCoded", dict(coded=True), "ResultsRefine"),
            ("AsCoded", dict(coded=True), "StateRefines")]

    def neg(item):
        name, kw, inv = item
        res = run.tlc("Inmem", design_cfg(invs=inv, **kw), timeout=600, workers=4, expect_violation=True, count=False)
        if not res.violated:
            raise Infra("negative control failed: Inmem.tla with %s = TRUE satisfies %s (vacuous invariant?)" % (name, inv))
        return "%s=TRUE refuted by %s" % (name, res.violated)

    with ThreadPoolExecutor(max_workers=4) as ex:
        run.extra["negative_controls"] = list(ex.map(neg, negs))
    run.log("negative controls: " + "; ".join(run.extra["negative_controls"]))


def cls(x):
    return x[0] if isinstance(x, list) and x and isinstance(x[0], str) else json.dumps(x)


def diff_of(want, got):
    if cls(want) != cls(got):
        return "class"
    if isinstance(want, list) and isinstance(got, list) and len(want) >= 3 and len(got) >= 3:
        if want[1] != got[1]:
            return "value"
        if want[2] != got[2]:
            return "flags"
    return "other"


def compact(e):
    if e["ev"] != "call":
        return e["ev"]
    if e["m"] in ("mget", "mgete"):
        return "%s %s -> %s" % (e["m"], ",".join(e["ks"]), json.dumps(e["res"]))
    s = "%s %s" % (e["m"], e["k"])
    if e["m"] in ("set", "add", "replace", "append", "prepend"):
        s += " v=%s" % json.dumps(e["v"])
    if e["m"] in ("set", "add", "replace"):
        s += " f=%d" % e["f"]
    if e["m"] in ("set", "add", "replace", "touch", "gat"):
        s += " ttl=%d" % e["t"]
    s += " -> %s" % json.dumps(e["res"])
    if e.get("post"):
        s += " left=%s" % json.dumps(e["post"])
    return s


STATE_WORDS = {"State": "the reply is the reference's, the entry left behind is not",
               "Reply": "the reply is not the reference's"}


def trace_mismatches(run, events, res, source_of, seed):
    """One candidate per distinct class of MISMATCH line."""
    classes = {}
    n = 0
    for m in tlc_tagged(res, "MISMATCH"):
        n += 1
        i = m["l"] - 1
        e = events[i]
        sig = {"mkind": m["kind"], "m": m["m"], "case": m["case"], "want": cls(m["want"]), "got": cls(m["got"]),
               "diff": diff_of(m["want"], m["got"])}
        key = json.dumps(sig, sort_keys=True)
        c = classes.get(key)
        if c is not None:
            c["count"] += 1
            continue
        j = i
        while j > 0 and events[j]["ev"] != "reset":
            j -= 1
        reset = events[j]
        calls = [compact(x) for x in events[j + 1:i + 1]]
        src = source_of(i)
        what = "%s: %s on %s %s: the reference map gives %s, the backend %s (%s) [%s trace %s, call %d: %s]" % (
            m["kind"], m["m"], "an" if m["case"][:1] in "ae" else "a", m["case"] or "key", json.dumps(m["want"]),
            json.dumps(m["got"]), STATE_WORDS.get(m["kind"], m["kind"]), src, reset.get("trace"), i - j, compact(e))
        classes[key] = {"sig": sig, "what": what, "count": 1, "kind": m["kind"],
                        "detail": {"mismatch": m, "event": e, "source": src, "reset": reset},
                        "replay": {"driver": "inmem", "source": src, "seed": seed, "trace": reset.get("trace"),
                                   "prefix": reset.get("prefix"), "calls": calls[-60:]}}
    for c in classes.values():
        c["detail"]["occurrences"] = c["count"]
        run.candidate(c["kind"], c["what"], sig=c["sig"], detail=c["detail"], replay=c["replay"])
    return n, {json.dumps(c["sig"], sort_keys=True): c["count"] for c in classes.values()}


# --------------------------------------------------------------------------------------------
# race detector output

ACCESS_RE = re.compile(r"^(Read|Write|Previous read|Previous write|Atomic read|Atomic write|Previous atomic read|Previous atomic write)"
                       r" at 0x[0-9a-f]+ by (main goroutine|goroutine \d+)")


def parse_races(text):
    """Yields races: list of accesses {kind, write, frames:[(func, location)]} (normally two)."""
    for block in text.split("=================="):
        if "WARNING: DATA RACE" not in block:
            continue
        accesses = []
        cur = None
        lines = block.split("\n")
        k = 0
        while k < len(lines):
            line = lines[k]
            m = ACCESS_RE.match(line)
            if m:
                cur = {"kind": m.group(1), "write": "rite" in m.group(1), "frames": []}
                accesses.append(cur)
            elif line.startswith("Goroutine ") or line.strip() == "":
                if line.startswith("Goroutine "):
                    cur = None
                    # creation stacks are not accesses
                    while k + 1 < len(lines) and lines[k + 1].strip() != "":
                        k += 1
                elif cur is not None and cur["frames"]:
                    cur = None
            elif cur is not None and line.startswith("  ") and not line.startswith("      "):
                loc = lines[k + 1].strip() if k + 1 < len(lines) and lines[k + 1].startswith("      ") else ""
                cur["frames"].append((line.strip(), re.sub(r" \+0x[0-9a-f]+$", "", loc)))
                if loc:
                    k += 1
            k += 1
        if accesses:
            yield accesses


def inmem_func(access):
    """Short name of the innermost handlers/inmem function of an access stack, or None."""
    for fn, loc in access["frames"]:
        if "/handlers/inmem/" in loc:
            return re.sub(r"\(\)$", "", fn).split(".")[-1]
    return None


def trim(access):
    out = ["%s:" % access["kind"]]
    for fn, loc in access["frames"][:4]:
        out.append("  %s  %s" % (fn, loc))
    return out


def describe(access):
    """'write by Get (handlers/inmem/inmem.go:172, runtime.mapdelete_faststr)'"""
    f = inmem_func(access) or "?"
    loc = next((l for _, l in access["frames"] if "/handlers/inmem/" in l), "")
    loc = loc[loc.index("handlers/inmem/"):] if "handlers/inmem/" in loc else loc
    top = re.sub(r"\(\)$", "", access["frames"][0][0]) if access["frames"] else "?"
    return "%s by %s (%s, %s)" % (access["kind"].lower().replace("previous ", ""), f, loc, top)


def race_candidates(run, procs, seed):
    seen = {}
    total = other = 0
    pairs = {}
    for p in procs:
        try:
            text = open(p["stderr"], errors="replace").read()
        except OSError:
            continue
        for accesses in parse_races(text):
            total += 1
            funcs = [inmem_func(a) for a in accesses]
            if not any(funcs):
                other += 1
                continue
            label = "+".join(sorted("%s(%s)" % (f or "-", "w" if a["write"] else "r") for f, a in zip(funcs, accesses)))
            pairs[label] = pairs.get(label, 0) + 1
            # a map WRITE access made from inside a reader method (holder of the shared lock only):
            # the implementation-level face of Inmem!WritesOnlyUnderWriteLock / ReadersDoNotMutate
            writers = sorted({f for f, a in zip(funcs, accesses) if a["write"] and f in READER_FUNCS})
            sigs = [{"mkind": "Race", "writer": w} for w in writers] or [{"mkind": "Race", "funcs": label}]
            for sig in sigs:
                key = json.dumps(sig, sort_keys=True)
                if key in seen:
                    continue
                stacks = [trim(a) for a in accesses[:2]]
                both = " while in another goroutine: ".join(describe(x) for x in accesses[:2])
                if "writer" in sig:
                    what = ("data race on the shared map: %s, a reader method holding only the READ lock, performs a map write; %s; "
                            "%d goroutines on the instance, round seed %d" % (sig["writer"], both, p["g"], p["seed"]))
                else:
                    what = "data race inside handlers/inmem: %s; %d goroutines on the instance" % (both, p["g"])
                seen[key] = True
                run.candidate("Race", what, sig=sig, detail={"stacks": stacks, "round": p["round"], "goroutines": p["g"]},
                              replay={"driver": "inmem", "mode": "conc-child", "race": True, "seed": p["seed"], "workers": p["g"],
                                      "len": p["len"]})
    return {"race_reports": total, "without_inmem_frame": other, "by_access_pair": pairs}


def proc_candidates(run, procs, race):
    died = {}
    for p in procs:
        if p["exit"] == 0 or (race and p["exit"] == 66 and p["races"] > 0 and p["complete"]):
            continue
        fatal = p["fatal"] or ("exit status %d" % p["exit"])
        if fatal.startswith("harness error"):
            raise Infra("inmem conc child failed: %s\n%s" % (fatal, "\n".join(p["head"])))
        if "concurrent map" in fatal:
            norm = "concurrent map access"
        else:
            norm = re.sub(r"0x[0-9a-f]+", "0x", fatal)[:80]
        d = died.setdefault(norm, {"n": 0, "first": p, "messages": set()})
        d["n"] += 1
        d["messages"].add(fatal)
    for norm, d in died.items():
        p = d["first"]
        frames = [x.strip() for x in p["head"] if "handlers/inmem" in x][:3]
        what = "the process terminated (%s; exit status %d) with %d goroutines sharing the in-memory backend%s; %s; %d of %d rounds died" % (
            " / ".join(sorted(d["messages"])), p["exit"], p["g"], " under the race detector" if race else "",
            "first frames: " + " ".join(frames) if frames else "no handlers/inmem frame among the first lines",
            d["n"], len(procs))
        run.candidate("Fatal", what, sig={"mkind": "Fatal", "fatal": norm},
                      detail={"head": p["head"], "round": p["round"], "goroutines": p["g"], "rounds_died": d["n"]},
                      replay={"driver": "inmem", "mode": "conc-child", "race": race, "seed": p["seed"], "workers": p["g"], "len": p["len"]})
    return {k: v["n"] for k, v in died.items()}


def check(prop, tier, seed):
    run = Run(prop, tier, seed)
    quick = tier == "quick"
    acc = []
    err = []

    def design_thread():
        try:
            design(run, quick, acc)
        except BaseException as e:  # re-raised in the main thread
            err.append(e)

    th = threading.Thread(target=design_thread)
    th.start()
    try:
        run.build_harness()
        run.build_harness(race=True)
    finally:
        if quick:
            th.join()
    if err:
        raise err[0]
    run.log("harness built (plain and -race)")

    n, ln = (400, 40) if quick else (5000, 60)
    tn, tl, ticks = (60, 30, 1) if quick else (400, 45, 3)
    crounds, clen = (6, 2000) if quick else (24, 6000)
    rrounds, rlen = (3, 200) if quick else (12, 500)
    jobs = [
        ("seq", ["-mode", "seq", "-out", run.path("seq.ndjson"), "-seed", seed, "-n", n, "-len", ln], False),
        ("seq-ticks", ["-mode", "seq-ticks=%d" % ticks, "-out", run.path("ticks.ndjson"), "-seed", seed, "-n", tn, "-len", tl], False),
        ("conc", ["-mode", "conc", "-out", run.path("conc.ndjson"), "-seed", seed, "-n", crounds, "-len", clen, "-workers", 32], False),
        ("conc-race", ["-mode", "conc", "-out", run.path("race.ndjson"), "-seed", seed, "-n", rrounds, "-len", rlen, "-workers", 32], True),
        # expired keys are missing keys too: owners re-write keys that have just expired while sweepers read them in wide gets
        ("conc-expire", ["-mode", "conc", "-out", run.path("expire.ndjson"), "-sizes", "expire", "-seed", seed, "-n", 2 if quick else 8, "-len", 300, "-workers", 8], False),
    ]

    def job(j):
        name, args, race = j
        p = run.run_vh("inmem", args, race=race, timeout=1500)
        return name, json.loads(p.stdout.strip().split("\n")[-1])

    with ThreadPoolExecutor(max_workers=len(jobs)) as ex:
        summaries = dict(ex.map(job, jobs))
    run.log("driver: " + json.dumps(summaries))

    # one validation run over everything that was recorded
    events, bounds = [], []
    tr = run.path("handler-all.ndjson")
    with open(tr, "w") as o:
        for name, args, _ in jobs:
            path = args[3]
            start = len(events)
            for line in open(path):
                if line.strip():
                    events.append(json.loads(line))
                    o.write(line if line.endswith("\n") else line + "\n")
            bounds.append((start, len(events), name))

    def source_of(i):
        for a, b, name in bounds:
            if a <= i < b:
                return name
        return "?"

    res = run.tlc("HandlerTrace", TRACE_CFG % os.path.basename(tr), workers=1, files=[tr], timeout=1800, count=False)
    if res.violated or not res.ok:
        raise Infra("HandlerTrace.tla failed: %s" % (res.violated or res.error))
    if res.distinct != len(events) + 1:
        raise Infra("trace not consumed: %d events, %d states" % (len(events), res.distinct))
    acc.append((res.distinct, res.generated))
    nm, classes = trace_mismatches(run, events, res, source_of, seed)

    resets = [e for e in events if e["ev"] == "reset"]
    calls = sum(1 for e in events if e["ev"] == "call")
    discarded = sum(1 for e in events if e["ev"] == "discarded")
    run.traces = len(resets)
    for e in events:
        if e["ev"] == "corrupt":
            run.candidate("Corrupt", "concurrent use returned corrupt data: %s (%s keys, %s, goroutine %d of %d): %s" % (
                e["what"], e["keys"], e["m"], e["g"], e["G"], json.dumps(e["res"])[:200]),
                sig={"mkind": "Corrupt", "what": e["what"]}, detail=e,
                replay={"driver": "inmem", "mode": "conc", "seed": seed})
    a, b, _ = bounds[2]
    procs = [e for e in events[a:b] if e["ev"] == "proc"]
    a, b, _ = bounds[3]
    rprocs = [e for e in events[a:b] if e["ev"] == "proc"]
    died = proc_candidates(run, procs, False)
    rdied = proc_candidates(run, rprocs, True)
    races = race_candidates(run, rprocs, seed)

    if not quick:
        th.join()
        if err:
            raise err[0]
    for d, g in acc:
        run.states += d
        run.transitions += g

    first_calls = [e for e in events if e["ev"] == "call"]
    run.samples = [compact(x) for x in first_calls[:3]] + ([compact(first_calls[len(first_calls) // 2])] if first_calls else [])
    run.extra.update({
        "calls_validated": calls, "mismatch_lines": nm, "mismatch_classes": classes,
        "tick_traces_discarded_slow_machine": discarded,
        "driver": summaries,
        "conc_rounds": [{"g": p["g"], "exit": p["exit"], "fatal": p["fatal"], "ms": p["ms"]} for p in procs],
        "conc_died": died,
        "race_rounds": [{"g": p["g"], "exit": p["exit"], "races": p["races"], "fatal": p["fatal"], "ms": p["ms"]} for p in rprocs],
        "race_died": rdied, "races": races,
    })
    run.assumptions += [
        "TTL arguments are restricted to 0 and small relative values (at most 5000 s), on which the backend (every non-zero exptime is "
        "relative seconds, no 30-day rule) and the reference agree about what was asked; absolute expiry times are not sent",
        "expiry is exercised with real time: TTL code 1 = 1 s, a tick = a sleep of 2.1 s, every other TTL in those traces is 0 or >= 1000 s; "
        "the boundary instant (the backend expires at exptime < now, memcached at exptime <= now) is not observable this way and is not judged; "
        "a trace whose phase took more than 0.9 s is discarded, not judged",
        "deadlines are not compared numerically (GetE's expiry is logged only); whether an entry expired is checked by behaviour",
        "the entry left behind by a call is read from the singleton's map by reflection (no handler call); if the handler's fields "
        "are not found only replies are compared",
        "design model: the clock advances only while no goroutine is inside an operation",
        "a fatal concurrent map access or a data race is a matter of scheduling: rounds with 2..32 goroutines make it likely, not certain",
    ]
    run.log("validated %d calls in %d traces: %d mismatch lines in %d classes; conc died %s; race-mode %s" % (
        calls, len(resets), nm, len(classes), died or "never", races))
    return run.finish(exhaustive=False, rule=(
        "sequential: every call of random traces over k1..k3 through all ten handler methods (and multi-key Get/GetE) must return the "
        "class (ok/fail, hit/miss), value and flags of Memcache!EApply and leave the entry the reference holds; concurrent: no child "
        "process running 2..32 goroutines on the shared instance may terminate abnormally, return undecomposable data, or (under -race) "
        "report a race with a handlers/inmem frame; every goroutine's private-key calls are validated as a sequential trace"))
