"""C08 reply discipline: spec/Replies.tla (what must be sent for each request and outcome),
spec/Conn.tla (design check over pipelines: positional attribution, one terminator per get),
spec/ConnTrace.tla (validation of the reply units observed on real connections)."""
import json
import os

from vlib import Run, tlc_tagged, Infra
from orca import SHAPES1, SHAPES2, shape_name

CONN_CFG = """SPECIFICATION Spec
CONSTANTS
  MaxPipe = %d
  MaxKeys = %d
INVARIANTS PositionalOK OneTermPerGet OneReplyPerNonQuiet
CHECK_DEADLOCK FALSE
"""

TRACE_CFG = """SPECIFICATION TSpec
CONSTANTS
  TraceFile = "%s"
  MaxPipe = 1
  MaxKeys = 1
CHECK_DEADLOCK FALSE
"""


def check(prop, tier, seed):
    run = Run(prop, tier, seed)
    quick = tier == "quick"
    res = run.tlc("Conn", CONN_CFG % ((3, 2) if quick else (3, 3)), timeout=1200)
    if res.violated:
        raise Infra("Conn.tla violates %s: specification bug" % res.violated)
    run.log("design: %d states" % res.distinct)
    # the in-memory L1 has no backend connection: nothing else in the process touches the responders' pooled objects
    shapes = ((SHAPES2[:4] + SHAPES1[:2]) if quick else (SHAPES2 + SHAPES1)) + [dict(orca="l1only", lock="none", l1="inmem")]
    n = 250 if quick else 3000
    files = []
    for sh in shapes:
        for proto in ("bin", "text"):
            out = run.path("pipe%d.ndjson" % run._next())
            run.run_vh("conn-pipe", ["-out", out, "-cfg", json.dumps(sh), "-proto", proto, "-seed", seed, "-n", n])
            files.append(out)
    tr = run.path("conn-all.ndjson")
    with open(tr, "w") as o:
        for f in files:
            o.write(open(f).read())
    events = [json.loads(x) for x in open(tr)]
    res = run.tlc("ConnTrace", TRACE_CFG % os.path.basename(tr), workers=1, files=[tr], timeout=1800)
    if res.distinct != len(events) + 1:
        raise Infra("trace not consumed: %d events, %d states" % (len(events), res.distinct))
    pipes = set()
    by_cfg = {}
    for e in events:
        pipes.add((e["cfg"], e["proto"], e["pipe"]))
        d = by_cfg.setdefault("%s %s" % (e["cfg"], e["proto"]), {"requests": 0, "mismatches": 0})
        d["requests"] += 1
    run.traces = len(pipes)
    nm = 0
    for m in tlc_tagged(res, "MISMATCH"):
        e = events[m["l"] - 1]
        nm += 1
        by_cfg["%s %s" % (e["cfg"], e["proto"])]["mismatches"] += 1
        lock = e["cfg"].split("/")[1]
        sig = {"mkind": m["kind"], "proto": e["proto"], "reqkind": e["req"]["kind"], "lock": lock,
               "has_mget": "mget" in e.get("ops", []), "has_stats": "stats" in e.get("ops", []),
               "strayinfo": sorted(set(e.get("strayinfo") or []))[:3]}
        what = "%s: request %d/%d (%s) of a pipeline %s on %s (%s, port %s): expected units %s, observed %s stray=%s" % (
            m["kind"], e["idx"] + 1, e["n"], e["op"], e.get("ops"), e["cfg"], e["proto"], e["port"],
            json.dumps(m["want"]), json.dumps(m["got"]), e.get("strayinfo"))
        run.candidate(m["kind"], what, sig=sig, detail={"event": e, "mismatch": m},
                      replay={"driver": "conn-pipe", "cfg": e["cfg"], "proto": e["proto"], "seed": seed, "pipe": e["pipe"]})
    run.samples = [events[0], events[len(events) // 2]]
    run.extra["requests_validated"] = len(events)
    run.extra["mismatch_lines"] = nm
    run.extra["configurations"] = by_cfg
    run.assumptions += ["replies are attributed to requests by opaque (binary) or by position (text) by the harness's strict decoder",
                        "a binary request with an unknown opcode may be answered by closing the connection"]
    run.log("validated %d requests in %d pipelines, %d mismatch lines" % (len(events), len(pipes), nm))
    # reply discipline while connections interleave WITHOUT the locking wrapper: the two-client programs around
    # one key, every interleaving at handler-call granularity (gate scheduler); the executions need not be
    # linearizable then, but every command must still get its one reply (OrcaLin's NoReply / Stuck)
    import lin
    progs = [p for p in lin.programs("quick", seed) if len(p["clients"]) == 2][:(160 if quick else 1200)]
    for i, p in enumerate(progs):
        p["id"] = i
    outs = lin.explore(run, progs, "none", 0, 40 if quick else 400, "unlocked")
    execs = lin.validate(run, outs, "C08", "unlocked interleavings")
    run.extra["unlocked_interleavings"] = len(execs)
    return run.finish(exhaustive=False, rule="random pipelines of 1-4 requests (every kind, failing ones included) written back to back; every request's reply units must equal Replies!Emit for the outcome inferred from them")
