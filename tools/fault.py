"""C10 backend faults are contained.

Design: spec/OrcaFault.tla - every program of <= 3 commands, every handler-call position, fault
kinds {error status, connection lost before / after the request is applied}; invariant Admissible
(admissible-set oracle), liveness Terminates.  Binding: the harness enumerates, for every
scenario (pre-state, port, command), every backend request index on L1 and on L2 and every fault
kind on the real stack; the affected request, the same connection afterwards and fresh
connections (before and after emptying L1) are recorded and validated by spec/OrcaTrace.tla."""
import json
import os

from vlib import Run, tlc_tagged, Infra, go_crash
from orca import SHAPES1, SHAPES2, shape_name, TRACE_CFG

FAULT_CFG = """SPECIFICATION FairSpec
CONSTANTS
  Keys = {%(keys)s}
  Ports = {%(ports)s}
  MaxCmds = %(maxcmds)d
  FaultBudget = %(budget)d
  KnownSetAck = %(known)s
INVARIANTS Admissible
PROPERTIES Terminates
CHECK_DEADLOCK TRUE
"""


def fcfg(keys=1, ports=("main", "batch"), maxcmds=3, budget=1, known=True):
    return FAULT_CFG % dict(keys=", ".join('"k%d"' % i for i in range(1, keys + 1)), ports=", ".join('"%s"' % p for p in ports),
                            maxcmds=maxcmds, budget=budget, known="TRUE" if known else "FALSE")


def scenarios(ports, quick):
    cmds = [
        {"op": "set", "k": "k1", "v": [1], "f": 3, "t": 0},
        {"op": "add", "k": "k1", "v": [2], "f": 0, "t": 0},
        {"op": "replace", "k": "k1", "v": [3], "f": 1, "t": 2},
        {"op": "append", "k": "k1", "v": [4], "f": 0, "t": 0},
        {"op": "prepend", "k": "k1", "v": [5], "f": 0, "t": 0},
        {"op": "delete", "k": "k1", "v": [], "f": 0, "t": 0},
        {"op": "touch", "k": "k1", "v": [], "f": 0, "t": 3},
        {"op": "get", "k": "k1", "v": [], "f": 0, "t": 0},
        {"op": "gat", "k": "k1", "v": [], "f": 0, "t": 4},
        {"op": "get", "keys": ["k1", "k2"], "quiet": [True, False], "v": [], "f": 0, "t": 0},
        {"op": "get", "keys": ["k2", "k1", "k1"], "quiet": [True, True, True], "noopend": True, "v": [], "f": 0, "t": 0},
    ]
    out = []
    for pre in ("both", "l2only", "empty"):
        for p in ports:
            for c in cmds:
                if quick and pre == "empty" and c["op"] not in ("set", "add", "get"):
                    continue
                out.append({"pre": pre, "port": p, "cmd": c})
    for i, s in enumerate(out):
        s["id"] = i
    return out


def ports_of(sh):
    if sh["orca"] == "l1only":
        return ["l1only"]
    return ["main", "batch"] if sh.get("batch") else ["main"]


def check(prop, tier, seed):
    run = Run(prop, tier, seed)
    quick = tier == "quick"
    # design
    for name, kw in [("1 key, 3 commands, 1 fault", dict()), ("2 keys, 2 commands, 1 fault", dict(keys=2, maxcmds=2)), ("1 key, 4 commands, 1 fault", dict(maxcmds=4))] + \
            ([] if quick else [("2 keys, 3 commands, 1 fault", dict(keys=2, maxcmds=3)), ("1 key, 5 commands, 1 fault", dict(maxcmds=5))]):
        res = run.tlc("OrcaFault", fcfg(**kw), timeout=2400)
        if res.violated:
            raise Infra("OrcaFault (%s) violates %s: specification bug" % (name, res.violated))
        run.log("design %-32s %d distinct states %.0fs" % (name, res.distinct, res.wall))
    if not quick:
        # beyond the property's quantifier (ONE faulty request): with two independent refusals - the L1 write of a
        # set and the compensating L1 delete - the design acknowledges the set and L1 keeps the old value.
        # Recorded as a fact about the design, not checked as a requirement.
        res2 = run.tlc("OrcaFault", fcfg(budget=2), timeout=2400, expect_violation=True, count=False)
        run.extra["two_faults_beyond_scope"] = ("Admissible is violated with two independent faults (refused L1 set + refused compensating delete): "
                                                "outside C10's single-fault quantifier" if res2.violated else "Admissible holds with two faults as well")
        run.log("design with 2 faults (informational): " + run.extra["two_faults_beyond_scope"])
    res = run.tlc("OrcaFault", fcfg(known=False), timeout=600, expect_violation=True, count=False)
    if not res.violated:
        raise Infra("negative control failed: without the known-finding exclusion the model should violate Admissible")
    run.extra["negative_control"] = "with KnownSetAck = FALSE TLC finds the acknowledged-set-with-stale-L1 scenario (%s)" % res.violated
    # real code
    if quick:
        shapes = [SHAPES2[0], SHAPES2[1], SHAPES2[2], SHAPES1[0]]
    else:
        shapes = [SHAPES2[0], SHAPES2[1], SHAPES2[2], SHAPES2[3], SHAPES2[5], SHAPES1[0], SHAPES1[1], SHAPES1[2]]
    files = []
    import subprocess
    exe = run.build_harness()
    procs = []
    for sh in shapes:
        for proto in (("bin",) if quick else ("bin", "text")):
            scs = scenarios(ports_of(sh), quick)
            if quick and sh["l1"] == "chunked":
                scs = scs[::2]
            pin = run.path("sc%d.json" % run._next())
            with open(pin, "w") as f:
                json.dump(scs, f)
            out = run.path("fault%d.ndjson" % run._next())
            sock = run.path("fs%d" % run._next())
            os.makedirs(sock)
            sizes = "chunk" if sh["l1"] == "chunked" else "small"
            p = subprocess.Popen([exe, "orca-fault", "-dir", sock, "-in", pin, "-out", out, "-cfg", json.dumps(sh), "-proto", proto,
                                  "-sizes", sizes, "-seed", str(seed), "-mode", tier], stdout=subprocess.PIPE, stderr=subprocess.PIPE, text=True)
            procs.append((p, sh, proto, out))
    stats = {}
    for p, sh, proto, out in procs:
        try:
            so, se = p.communicate(timeout=3000)
        except subprocess.TimeoutExpired:
            p.kill()
            raise Infra("orca-fault timed out on %s" % shape_name(sh))
        if p.returncode != 0:
            crash = go_crash(se)
            if not crash:
                run.driver_failed("orca-fault failed on %s" % (shape_name(sh)), se)
            # the server process died: the last fault that was armed is the culprit
            last = None
            lines = open(out).read().splitlines()
            if lines and not lines[-1].endswith("}"):
                lines = lines[:-1]
            for ln in lines:
                e = json.loads(ln)
                if e["ev"] == "fault":
                    last = e["fault"]
            with open(out, "w") as f:
                f.write("\n".join(lines) + ("\n" if lines else ""))
            # drop the unfinished last trace
            evs = [json.loads(x) for x in lines]
            cut = max([i for i, e in enumerate(evs) if e["ev"] == "reset"] or [0])
            with open(out, "w") as f:
                for e in evs[:cut]:
                    f.write(json.dumps(e) + "\n")
            run.candidate("ProcessCrash", "the server process died (%s) with fault %s on %s (%s)" % (crash, json.dumps(last), shape_name(sh), proto),
                          sig={"mkind": "ProcessCrash", "cfg": shape_name(sh), "op": (last or {}).get("op"), "tier": (last or {}).get("tier"), "class": (last or {}).get("class")},
                          detail={"stderr": se[-3000:], "fault": last}, replay={"driver": "orca-fault", "cfg": shape_name(sh), "proto": proto, "fault": last})
            stats["%s %s" % (shape_name(sh), proto)] = {"crashed": crash}
            if os.path.getsize(out) > 0:
                files.append(out)
            continue
        stats["%s %s" % (shape_name(sh), proto)] = json.loads(so.strip().splitlines()[-1])
        files.append(out)
    tr = run.path("fault-all.ndjson")
    with open(tr, "w") as o:
        for f in files:
            o.write(open(f).read())
    events = [json.loads(x) for x in open(tr)]
    res = run.tlc("OrcaTrace", TRACE_CFG % os.path.basename(tr), workers=1, files=[tr], timeout=3000)
    if res.distinct != len(events) + 1:
        raise Infra("trace not consumed: %d events, %d states" % (len(events), res.distinct))
    resets = [i for i, e in enumerate(events) if e["ev"] == "reset"]
    run.traces = len(resets)
    import bisect
    seen = set()
    nm = 0

    def trace_of(idx):
        i = resets[bisect.bisect_right(resets, idx) - 1]
        j = i
        while j + 1 < len(events) and events[j + 1]["ev"] != "reset":
            j += 1
        return i, j

    def cand(kind, idx, want, got):
        i, j = trace_of(idx)
        rs = events[i]
        fault = events[i + 2]["fault"]
        ev = events[idx]
        sig = {"mkind": kind, "cfg": rs["cfg"], "l1": rs["cfg"].split("/")[2], "proto": rs["proto"], "op": fault["op"], "port": fault["port"], "tier": fault["tier"],
               "class": fault["class"], "pre": fault["pre"], "role": ev.get("role")}
        what = "%s after fault %s at request %d/%d of tier %s during %s on port %s (%s, %s, pre-state %s): %s on %s: admissible %s, observed %s" % (
            kind, fault["kind"], fault["n"], fault["of"], fault["tier"], fault["op"], fault["port"], rs["cfg"], rs["proto"], fault["pre"],
            ev.get("role"), json.dumps(ev.get("x")), json.dumps(want)[:300], json.dumps(got)[:300])
        run.candidate(kind, what, sig=sig, detail={"trace": events[i:j + 1]},
                      replay={"driver": "orca-fault", "cfg": rs["cfg"], "proto": rs["proto"], "seed": seed, "fault": fault})

    for m in tlc_tagged(res, "MISMATCH"):
        idx = m["l"] - 1
        if m["kind"] in ("RefEq", "Subset", "TTL", "TTL1", "Stray"):
            continue  # tier contents after a fault are not the client's business (C10 talks about replies)
        key = (trace_of(idx)[0], m["kind"], m["key"], json.dumps(m["got"], sort_keys=True))
        if key in seen:
            continue
        seen.add(key)
        nm += 1
        cand("Stale" if m["kind"] == "ReplyOK" else m["kind"], idx, m["want"], m["got"])
    # promptness, well-formedness, liveness of other connections
    for idx, ev in enumerate(events):
        if ev["ev"] != "op":
            continue
        r0 = ev["res"][0]
        if r0 == "timeout":
            cand("Hang", idx, "a reply, an error reply or a closed connection", "no reply within the deadline")
        elif r0 == "malformed":
            cand("Malformed", idx, "well-formed replies", ev.get("anomalies"))
        elif ev.get("role", "").startswith("other-conn") and r0 in ("closed", "error"):
            cand("OtherConnAffected", idx, "a normal reply on a fresh connection", ev["res"])
        elif ev.get("role") == "affected" and ev.get("anomalies") and r0 not in ("closed", "error"):
            cand("Discipline", idx, "a complete reply", ev["anomalies"])
    run.samples = [events[resets[0]:resets[0] + 5]]
    if len(resets) > 1:
        run.samples.append(events[resets[len(resets) // 2]:resets[len(resets) // 2] + 4])
    run.extra["fault_placements"] = stats
    run.extra["events_validated"] = len(events)
    run.extra["mismatch_lines"] = nm
    run.assumptions += ["a fault is injected by the fake backend at the n-th request it receives on the tier (error status with a message body; close before applying, after applying, or after writing part of the reply)",
                        "a request counts as hung after 4 s (normal latency is well below 10 ms)"]
    run.log("fault placements: %d traces, %d events, %d reply mismatches" % (len(resets), len(events), nm))
    return run.finish(level="model_checking", exhaustive=False,
                      rule="scenario = (pre-state, port, command); every backend request index of the command on L1 and on L2 x every fault kind is one trace; non-trivial = the fault fired (always, indices are taken from a dry run)")
