"""Shared machinery of the /verif checks: scratch directory, harness build, TLC runner,
candidate violations, known findings, replay files, evidence."""
import hashlib
import threading
import json
import os
import re
import shutil
import subprocess
import sys
import tempfile
import time

VERIF = os.path.dirname(os.path.dirname(os.path.abspath(__file__)))
REPO = os.environ.get("VERIF_REPO", "/repo")
SPEC = os.path.join(VERIF, "spec")
HARNESS = os.path.join(VERIF, "harness")
NCPU = os.cpu_count() or 4

GOENV = dict(os.environ, GOFLAGS="-mod=mod", GOPROXY="off", GOSUMDB="off", GOTOOLCHAIN="local")


class Infra(Exception):
    """Trouble of the tooling (not of the system under test): exit status 2."""


class SutCrashed(Exception):
    """The system under test (which runs inside the harness process) crashed: a candidate violation
    has been registered; the check ends with whatever it has."""


CURRENT = None


class TLCResult:
    def __init__(self):
        self.generated = 0
        self.distinct = 0
        self.ok = False
        self.error = None
        self.out_path = None
        self.wall = 0.0
        self.violated = None  # name of a violated invariant / property
        self.coverage_zero = []

    def lines(self):
        with open(self.out_path, errors="replace") as f:
            for line in f:
                yield line.rstrip("\n")


class Run:
    def __init__(self, prop, tier, seed):
        self.prop = prop
        self.tier = tier
        self.seed = seed
        self.t0 = time.time()
        self.scratch = tempfile.mkdtemp(prefix="vf-%s-" % prop)
        self.vh = None
        self.vh_race = None
        self.states = 0
        self.transitions = 0
        self.traces = 0
        self.samples = []
        self.extra = {}
        self.assumptions = []
        self.candidates = []  # dicts with at least kind, what
        self.notes = []
        self.tlc_runs = []
        self._n = 0
        self._lock = threading.Lock()
        global CURRENT
        CURRENT = self

    # ---------------------------------------------------------------- scratch
    def path(self, name):
        return os.path.join(self.scratch, name)

    def cleanup(self):
        shutil.rmtree(self.scratch, ignore_errors=True)

    def log(self, *a):
        print("[%s %s %5.1fs]" % (self.prop, self.tier, time.time() - self.t0), *a, flush=True)

    # ---------------------------------------------------------------- harness
    def build_harness(self, race=False):
        """Builds the harness against /repo's current working tree with the verif hooks on."""
        if os.environ.get("VERIF_RACE_ALL"):
            race = True  # exploration aid: every driver in the race build (a report makes the driver exit 66)
        out = self.path("vh-race" if race else "vh")
        if os.path.exists(out):
            return out
        hdir = HARNESS
        if os.path.realpath(REPO) != "/repo":
            # checking another tree (VERIF_REPO): build from a private copy of the harness module
            hdir = self.path("harness-src")
            if not os.path.exists(hdir):
                shutil.copytree(HARNESS, hdir)
                gm = os.path.join(hdir, "go.mod")
                with open(gm) as f:
                    t = f.read().replace("=> /repo", "=> " + os.path.realpath(REPO))
                with open(gm, "w") as f:
                    f.write(t)
        gosum = os.path.join(REPO, "go.sum")
        if os.path.exists(gosum):
            shutil.copy(gosum, os.path.join(hdir, "go.sum"))
        cmd = ["go", "build", "-tags", "verif"]
        if race:
            cmd.append("-race")
        cmd += ["-o", out, "./cmd/vh"]
        p = subprocess.run(cmd, cwd=hdir, env=GOENV, stdout=subprocess.PIPE, stderr=subprocess.STDOUT, text=True)
        if p.returncode != 0:
            # a tree that does not compile is not a property violation
            raise Infra("harness/repository build failed:\n" + p.stdout[-4000:])
        if race:
            self.vh_race = out
        else:
            self.vh = out
        return out

    def run_vh(self, driver, args, race=False, timeout=1800, check=True, env=None):
        exe = self.build_harness(race)
        sock = self.path("sock%d" % self._next())
        os.makedirs(sock, exist_ok=True)
        cmd = [exe, driver, "-dir", sock] + [str(a) for a in args]
        e = dict(os.environ)
        if env:
            e.update(env)
        try:
            p = subprocess.run(cmd, cwd=self.scratch, stdout=subprocess.PIPE, stderr=subprocess.PIPE, text=True,
                               timeout=timeout, env=e, errors="replace")
        except subprocess.TimeoutExpired:
            raise Infra("harness driver %s timed out after %ds" % (driver, timeout))
        finally:
            shutil.rmtree(sock, ignore_errors=True)
        if check and p.returncode != 0:
            self.driver_failed("driver %s %s" % (driver, " ".join(str(a) for a in args)[:300]), p.stderr + "\n" + p.stdout[-1000:])
        return p

    def driver_failed(self, what, stderr, sig=None):
        """A harness driver ended abnormally: a crash of the repository's code is a candidate
        violation ("the server never crashes"), anything else is trouble of the tooling."""
        crash = go_crash(stderr)
        if crash:
            s = {"mkind": "ProcessCrash", "where": crash.split("  at ")[-1][:120]}
            s.update(sig or {})
            self.candidate("ProcessCrash", "the process running the real code died during %s: %s" % (what, crash), sig=s,
                           detail={"stderr": (stderr or "")[-4000:]})
            raise SutCrashed(what)
        raise Infra("%s failed:\n%s" % (what, (stderr or "")[-3000:]))

    def handler_seq_done(self, p, so, se, out, name):
        """Outcome of a handler-seq driver. Exit status 7 = a handler call did not return within 60 s:
        that is behaviour of the real code (reported as Hang), not trouble of the tooling."""
        if p.returncode == 7:
            lines = [l for l in open(out).read().splitlines() if l.endswith("}")]
            last = json.loads(lines[-1]) if lines else {}
            prev = [json.loads(l) for l in lines[-4:-1]]
            self.candidate("Hang", "a call of the %s handler did not return within 60 s (%s): %s; calls before it: %s" % (
                last.get("kind"), name, json.dumps(last.get("x")), json.dumps([e.get("x") for e in prev if e.get("ev") == "op"])[:600]),
                sig={"mkind": "Hang", "handler": last.get("kind"), "opcode": (last.get("x") or {}).get("opcode")}, detail={"last": last, "before": prev})
            with open(out, "w") as f:
                f.write("\n".join(lines[:-1]) + "\n")
            return True
        if p.returncode != 0:
            self.driver_failed("handler-seq %s failed" % (name), se)
        return False

    def _next(self):
        with self._lock:
            self._n += 1
            return self._n

    # ---------------------------------------------------------------- TLC
    def tlc(self, module, cfg, workers=None, timeout=900, files=(), simulate=None, depth_first=False,
            coverage=False, extra_args=(), count=True, expect_violation=False):
        """Runs TLC on spec/<module>.tla with the configuration text `cfg` (or the name of a
        .cfg file in spec/) inside a private copy of the specification directory."""
        n = self._next()
        d = self.path("tlc%d" % n)
        os.makedirs(d)
        for f in os.listdir(SPEC):
            if f.endswith(".tla"):
                shutil.copy(os.path.join(SPEC, f), d)
        for f in files:
            shutil.copy(f, d)
        if cfg.endswith(".cfg") and "\n" not in cfg:
            shutil.copy(os.path.join(SPEC, cfg), os.path.join(d, "run.cfg"))
        else:
            with open(os.path.join(d, "run.cfg"), "w") as f:
                f.write(cfg)
        cap = os.environ.get("VERIF_CAPTURE")
        if cap and files:
            # keep what a trace validation consumed, for tools/selftest.py (binding self-test)
            cd = os.path.join(cap, "%s-%s-%d" % (self.prop, module, n))
            os.makedirs(cd, exist_ok=True)
            for f in files:
                shutil.copy(f, cd)
            shutil.copy(os.path.join(d, "run.cfg"), cd)
            with open(os.path.join(cd, "case.json"), "w") as f:
                json.dump({"kind": "trace", "property": self.prop, "module": module, "files": [os.path.basename(x) for x in files]}, f)
        if cap and not files and not simulate:
            # design runs are kept too (tools/vacuity.py re-runs them with -coverage 1)
            cfgtext = open(os.path.join(d, "run.cfg")).read()
            h = hashlib.sha1((module + cfgtext).encode()).hexdigest()[:10]
            cd = os.path.join(cap, "design-%s-%s" % (module, h))
            if not os.path.exists(cd):
                os.makedirs(cd)
                shutil.copy(os.path.join(d, "run.cfg"), cd)
                with open(os.path.join(cd, "case.json"), "w") as f:
                    json.dump({"kind": "design", "property": self.prop, "module": module, "expect_violation": bool(expect_violation)}, f)
        if workers is None:
            workers = NCPU
        cmd = ["timeout", str(timeout), "tlc", "-workers", str(workers), "-metadir", os.path.join(d, "md"),
               "-config", "run.cfg"]
        if simulate:
            cmd += ["-simulate", simulate]
        if coverage:
            cmd += ["-coverage", "1"]
        cmd += list(extra_args)
        cmd += [module + ".tla"]
        env = dict(os.environ)
        tmpd = os.path.join(d, "jtmp")
        os.makedirs(tmpd, exist_ok=True)
        opts = "-Xss64m -Djava.io.tmpdir=" + tmpd
        if depth_first:
            opts += " -Dtlc2.tool.queue.IStateQueue=StateDeque"
        env["JAVA_TOOL_OPTIONS"] = (env.get("JAVA_TOOL_OPTIONS", "") + " " + opts).strip()
        r = TLCResult()
        r.out_path = os.path.join(d, "out.txt")
        t0 = time.time()
        with open(r.out_path, "w") as out:
            p = subprocess.run(cmd, cwd=d, stdout=out, stderr=subprocess.STDOUT, env=env)
        r.wall = time.time() - t0
        err = []
        for line in r.lines():
            m = re.match(r"(\d+) states generated, (\d+) distinct states found", line)
            if m:
                r.generated, r.distinct = int(m.group(1)), int(m.group(2))
            if line.startswith("Error:"):
                err.append(line)
            m = re.match(r"Error: Invariant (\S+) is violated", line)
            if m:
                r.violated = m.group(1)
            if "is violated" in line and r.violated is None:
                r.violated = line
            m = re.match(r"<(\w+) line .*>: (\d+):(\d+)$", line)
            if m and coverage and m.group(3) == "0":
                r.coverage_zero.append(m.group(1))
        if p.returncode == 124:
            raise Infra("TLC timed out after %ds on %s" % (timeout, module))
        r.ok = p.returncode == 0 and not err
        r.error = "\n".join(err) if err else (None if p.returncode == 0 else "tlc exit %d" % p.returncode)
        if not r.ok and not expect_violation and r.violated is None:
            tail = "\n".join(list(r.lines())[-40:])
            raise Infra("TLC failed on %s: %s\n%s" % (module, r.error, tail))
        if count:
            self.states += r.distinct
            self.transitions += r.generated
        self.tlc_runs.append({"module": module, "distinct": r.distinct, "generated": r.generated,
                              "wall_s": round(r.wall, 1), "ok": r.ok, "violated": r.violated})
        return r

    # ---------------------------------------------------------------- verdicts
    def candidate(self, kind, what, sig=None, detail=None, replay=None):
        """Registers a candidate violation. sig: dict used for known-finding matching."""
        c = {"kind": kind, "what": what, "sig": sig or {}, "detail": detail, "replay": replay}
        self.candidates.append(c)

    def finish(self, level="model_checking", exhaustive=False, rule=None):
        kf = load_known()
        viol, known = [], []
        for c in self.candidates:
            f = match_known(kf, self.prop, c)
            (known if f else viol).append((c, f))
        seen = set()
        for c, f in known:
            if f["id"] in seen:
                continue
            seen.add(f["id"])
            print("KNOWN-FINDING: property=%s %s" % (self.prop, f["what"]))
        rdir = os.path.join(VERIF, "replays", self.prop)
        if os.path.realpath(REPO) != "/repo":
            rdir = os.path.join(tempfile.gettempdir(), "replays-other-tree", self.prop)
        printed = set()
        for c, _ in viol:
            body = json.dumps({"property": self.prop, "kind": c["kind"], "what": c["what"], "sig": c["sig"],
                               "detail": c["detail"], "replay": c["replay"]}, sort_keys=True, indent=1, default=str)
            h = hashlib.sha1(json.dumps([c["kind"], c["sig"]], sort_keys=True, default=str).encode()).hexdigest()[:12]
            if h in printed:
                continue
            printed.add(h)
            os.makedirs(rdir, exist_ok=True)
            p = os.path.join(rdir, h + ".json")
            with open(p, "w") as f:
                f.write(body)
            if len(printed) <= 25:
                print("VIOLATION property=%s replay=%s" % (self.prop, p))
                print("  " + c["what"][:400])
        cov = {
            "states": self.states, "transitions": self.transitions,
            "traces_validated_against_impl": self.traces,
            "samples": self.samples[:4] if self.samples else ["(no sample recorded)"],
            "exhaustive": exhaustive,
            "tlc_runs": self.tlc_runs,
            "candidate_violations": len(self.candidates),
            "known_findings_seen": sorted(seen),
            "new_violations": len(printed),
        }
        if rule:
            cov["rule"] = rule
        cov.update(self.extra)
        ev = {"property_id": self.prop, "tier": self.tier, "seed": self.seed, "level": level, "coverage": cov,
              "assumptions": self.assumptions, "wall_s": round(time.time() - self.t0, 1), "violations": len(printed)}
        evdir = os.environ.get("VERIF_EVIDENCE_DIR") or os.path.join(VERIF, "evidence")
        if os.path.realpath(REPO) != "/repo" and not os.environ.get("VERIF_EVIDENCE_DIR"):
            evdir = tempfile.gettempdir()  # another tree: leave the real evidence alone
        os.makedirs(evdir, exist_ok=True)
        with open(os.path.join(evdir, self.prop + ".json"), "w") as f:
            json.dump(ev, f, indent=1, default=str)
        self.log("done: states=%d transitions=%d traces=%d candidates=%d known=%d new=%d" % (
            self.states, self.transitions, self.traces, len(self.candidates), len(seen), len(printed)))
        self.cleanup()
        return 1 if printed else 0


def go_crash(stderr):
    """If the text is the death of a Go process with a frame of the repository in the crashing
    goroutine's stack, returns a short description (the system under test runs inside the harness
    process, so its crash takes the driver down); otherwise None."""
    if not stderr:
        return None
    m = re.search(r"^(panic: .*|fatal error: .*)$", stderr, re.M)
    if not m:
        return None
    tail = stderr[m.start():m.start() + 6000]
    first = tail.split("\n\ngoroutine", 2)
    stack = tail if len(first) < 2 else first[0] + "\n\ngoroutine" + first[1]
    rp = os.path.realpath(REPO)
    frames = [l.strip() for l in stack.splitlines() if ("/repo/" in l or rp + "/" in l) and ".go:" in l]
    if not frames:
        return None
    return "%s  at %s" % (m.group(1)[:200], "; ".join(f.split(" +")[0].replace(rp + "/", "").replace("/repo/", "") for f in frames[:4]))


def load_known():
    p = os.path.join(VERIF, "known_findings.json")
    if not os.path.exists(p):
        return []
    with open(p) as f:
        return [e for e in json.load(f)["entries"] if e.get("status") == "known"]


def _m(pat, val):
    if isinstance(pat, list):
        return val in pat
    if isinstance(pat, str) and pat.startswith("re:"):
        return re.search(pat[3:], str(val)) is not None
    return pat == val


def match_known(kf, prop, c):
    sig = dict(c["sig"])
    sig["kind"] = c["kind"]
    for f in kf:
        if f["property"] != prop:
            continue
        if all(k in sig and _m(v, sig[k]) for k, v in f["match"].items()):
            return f
    return None


def tlc_edges(res, keep=None):
    """Yields the JSON objects TLC printed as <<"EDGE", "...">> lines."""
    for line in res.lines():
        if line.startswith('<<"EDGE"'):
            m = re.match(r'<<"EDGE", (".*")>>$', line)
            s = json.loads(m.group(1))
            if keep is None or keep(s):
                yield s


def tlc_tagged(res, tag):
    """Yields JSON payloads of lines TLC printed as "TAG {...}" (a TLA+ string)."""
    pre = '"' + tag + " "
    for line in res.lines():
        if line.startswith(pre):
            s = json.loads(line)
            yield json.loads(s[len(tag) + 1:])


def main_wrapper(fn):
    """Runs a check function, mapping Infra trouble to exit status 2."""
    try:
        rc = fn()
    except SutCrashed:
        rc = CURRENT.finish()
    except Infra as e:
        print("INFRA-ERROR:", e, flush=True)
        sys.exit(2)
    sys.exit(rc)
