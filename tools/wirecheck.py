"""C07 (wire decoding is faithful, exact, independent of packet boundaries) and C11 (malformed
client input is contained).

spec/Wire.tla       framing model: design check over all pipelines x all segmentations (C07) and
                    over the header grid opcode x keylen x extlen x total x bytes that follow (C11)
spec/WireTrace.tla  validation of what the real parsers / the real server loop did
harness driver      `vh wire -mode c07-<tier> | c11-<tier>` (harness/drv/wiredrv.go)
"""
import collections
import json
import os

from vlib import Run, tlc_tagged, Infra

ALL_OPS = '{"set","add","replace","append","prepend","delete","touch","gat","noop","quit","version","stat","get","gete"}'
ALL_TEXT = '{"set","add","replace","append","prepend","get","delete","touch","noop","quit","version","stats"}'
ALL_FRAME_OPS = ('{"set","setq","add","addq","replace","replaceq","append","appendq","prepend","prependq","get","getq",'
                 '"gete","geteq","delete","touch","gat","noop","quit","quitq","version","stat","unknown"}')

CFG = """SPECIFICATION %(spec)s
CONSTANTS
  HdrLen = %(hdr)d
  StoreExt = %(sext)d
  ExpExt = %(eext)d
  CKiB = 512
  Protos = %(protos)s
  Ops = %(ops)s
  TextOps = %(textops)s
  KeyLens = %(keylens)s
  ValLens = %(vallens)s
  QuietCounts = %(quiets)s
  MaxPipe = %(maxpipe)d
  LineLen = 3
  MalOps = %(malops)s
  MalKeyLens = %(malkeys)s
  MalExtLens = %(malexts)s
  MalTotals = %(maltotals)s
  MalHuge = %(malhuge)s
  MaxSegs = %(maxsegs)d
%(tail)s
CHECK_DEADLOCK FALSE
"""

WF_INV = "INVARIANTS SegmentIndependent Faithful DetectOK NoOverrun NeverRejected AllDecoded EncodeStandard RoundTrip"
MAL_INV = "INVARIANTS MalOutcome MalEnvelope MalAwait RejectRule ConsistentRule NeverCrash MalSegmentIndependent NoOverrun"


def cfg(**kw):
    d = dict(spec="Spec", hdr=3, sext=2, eext=1, protos='{"bin", "text"}', ops="{}", textops="{}", keylens="{}",
             vallens="{}", quiets="{}", maxpipe=1, malops="{}", malkeys="{}", malexts="{}", maltotals="{}",
             malhuge="FALSE", maxsegs=0, tail="")
    d.update(kw)
    return CFG % d


def trace_cfg(name):
    return cfg(spec="TSpec", hdr=24, sext=8, eext=4, protos="{}", tail='  TraceFile = "%s"' % name)


def design(run, name, text):
    # small models: a few workers beat one per core (less contention, also on a busy machine)
    res = run.tlc("Wire", text, timeout=1500, workers=4 if run.tier == "quick" else 8)
    if res.violated or not res.ok:
        raise Infra("Wire.tla (%s) violates %s: specification bug" % (name, res.violated or res.error))
    run.log("design %s: %d states, %d transitions, %.0fs" % (name, res.distinct, res.generated, res.wall))
    return res


def read_events(path):
    with open(path) as f:
        return [json.loads(x) for x in f]


def validate(run, trace):
    events = read_events(trace)
    run.log("driver done: %d events" % len(events))
    res = run.tlc("WireTrace", trace_cfg(os.path.basename(trace)), workers=1, files=[trace], timeout=3000, count=False)
    if res.violated or not res.ok:
        raise Infra("WireTrace failed: %s" % (res.violated or res.error))
    if res.distinct != len(events) + 1:
        raise Infra("trace not consumed: %d events, %d states" % (len(events), res.distinct))
    run.log("trace validated in %.0fs" % res.wall)
    return events, list(tlc_tagged(res, "MISMATCH"))


# ------------------------------------------------------------------------------------------ C07

def check_c07(prop, tier, seed):
    run = Run(prop, tier, seed)
    quick = tier == "quick"
    reps = '{"set","touch","noop","get"}'
    # every command, pipelines of up to 2, every segmentation
    design(run, "all commands, pipelines <= 2",
           cfg(ops=ALL_OPS, textops=ALL_TEXT, keylens="{1}" if quick else "{1, 2}", vallens="{0, 2}",
               quiets="{1, 2}" if quick else "{1, 2, 3}", maxpipe=2, tail=WF_INV))
    # one command per framing class, longer pipelines
    design(run, "framing classes, pipelines <= %d" % (3 if quick else 4),
           cfg(ops=reps, textops='{"set","get","touch","noop"}', keylens="{1}", vallens="{2}", quiets="{1}" if quick else "{1, 2}",
               maxpipe=3 if quick else 4, tail=WF_INV))
    # the real field lengths (24-byte header, 8 and 4 bytes of extras), single requests
    design(run, "wire lengths, single requests",
           cfg(hdr=24, sext=8, eext=4, ops=ALL_OPS, textops=ALL_TEXT, keylens="{1, 3}" if quick else "{1, 3, 7}",
               vallens="{0, 5}", quiets="{1, 2}", maxpipe=1, tail=WF_INV))
    out = run.path("c07.ndjson")
    run.run_vh("wire", ["-mode", "c07-" + tier, "-out", out, "-seed", seed, "-n", 40 if quick else 1500], timeout=2400)
    events, mism = validate(run, out)
    summary = [e for e in events if e["ev"] == "summary"][-1]
    dec = [e for e in events if e["ev"] == "decode"]
    det = [e for e in events if e["ev"] == "detect"]
    run.traces = summary["pipelines"]
    groups = collections.OrderedDict()

    def add(sig, what, e, m):
        key = json.dumps(sig, sort_keys=True)
        g = groups.setdefault(key, {"sig": sig, "what": what, "n": 0, "examples": []})
        g["n"] += 1
        if len(g["examples"]) < 3:
            g["examples"].append({"event": e, "mismatch": m})

    # per pipeline only the first request that went wrong counts: what follows it is a consequence
    first_bad = {}
    per_event = collections.OrderedDict()
    for m in mism:
        e = events[m["l"] - 1]
        if m["kind"] == "BadInput":
            raise Infra("the driver produced a request outside the property's domain: %s" % json.dumps(e)[:600])
        if e["ev"] == "detect":
            add({"mkind": "Detect", "byte": "%#04x" % e["byte"], "answered": e["answered"]},
                "first byte %#04x followed by a valid %s request: expected the %s protocol to answer, observed %s (%s)" % (
                    e["byte"], m["want"], m["want"], e["answered"], e.get("note", "")), e, m)
            continue
        first_bad[e["pipe"]] = min(first_bad.get(e["pipe"], e["idx"]), e["idx"])
        per_event.setdefault(m["l"], []).append(m)
    for l, ms in per_event.items():
        e = events[l - 1]
        if e["idx"] != first_bad[e["pipe"]]:
            continue
        kinds = set(m["kind"] for m in ms)
        kind = "Group" if "Group" in kinds else "Exact" if "Exact" in kinds else "Field"
        m = [x for x in ms if x["kind"] == kind][0]
        segs = [str(x["got"].get("seg", "")) for x in ms if isinstance(x["got"], dict)]
        segdep = "whole" not in segs      # delivered in one piece the request was decoded correctly
        sig = {"mkind": kind, "proto": e["proto"], "op": e["sent"]["op"], "only_when_split": segdep}
        what = "%s: request %d/%d (%s, %s) of pipeline %s was not decoded as sent when the stream (%d bytes) arrives as %s (%s of the segmentations tried%s): expected %s, parser returned %s" % (
            kind, e["idx"] + 1, e["n"], e["sent"]["op"], e["proto"], e["pipe"], e["streamlen"], m["got"].get("seg"), m["got"].get("nseg"),
            "; correct when it arrives in one piece" if segdep else "", json.dumps(m["want"])[:300], json.dumps(m["got"])[:500])
        add(sig, what, e, m)
    for g in groups.values():
        ex = g["examples"][0]["event"]
        run.candidate(g["sig"]["mkind"], g["what"] + " [%d requests affected]" % g["n"], sig=g["sig"],
                      detail={"count": g["n"], "examples": g["examples"]},
                      replay={"driver": "wire", "mode": "c07-" + tier, "seed": seed, "pipe": ex.get("pipe"), "idx": ex.get("idx"),
                              "byte": ex.get("byte")})
    byans = collections.Counter((e["sentproto"], e["answered"]) for e in det)
    run.samples = [dec[0], dec[len(dec) // 2], det[0x80]] if dec and len(det) == 256 else events[:2]
    run.extra.update({
        "pipelines": summary["pipelines"], "requests": summary["requests"],
        "segmentations_executed": summary["segmentations"],
        "distinct_observations_per_request_max": max([len(e["variants"]) for e in dec] or [0]),
        "first_bytes_tried": len(det),
        "first_byte_answers": {"%s->%s" % k: v for k, v in sorted(byans.items())},
        "mismatch_lines": len(mism),
    })
    run.assumptions += [
        "byte-level field encodings (big-endian integers, decimal numbers) come from the harness's own encoder (harness/wire), which is trusted; the specification covers framing, lengths, grouping and segmentation",
        "keys and data are compared by length and SHA-1 prefix",
        "a segment larger than bufio's buffer is handed to the parser in buffer-sized reads (that is what the server does too)",
        "what answers a connection whose first byte is neither 0x80 nor a lowercase letter is recorded but not judged (C11: containment only)",
    ]
    run.log("validated %d requests of %d pipelines under %d segmentations, %d first bytes, %d mismatch lines" % (
        summary["requests"], summary["pipelines"], summary["segmentations"], len(det), len(mism)))
    return run.finish(exhaustive=False, rule="design: all pipelines x all segmentations of the framing model decode to what was sent, consuming exactly the declared bytes; binding: every supported command with adversarial keys/data/32-bit corners through the real parsers under whole / 1-byte / every-split-offset / field-boundary / random multi-cut deliveries must give, for every segmentation, Wire!Decode of the frames sent and consumed = base + declared bytes; the first byte selects the protocol on the real accept path")


# ------------------------------------------------------------------------------------------ C11

def check_c11(prop, tier, seed):
    run = Run(prop, tier, seed)
    quick = tier == "quick"
    malops = '{"set","appendq","get","getq","touch","noop","unknown"}' if quick else ALL_FRAME_OPS
    design(run, "header grid",
           cfg(spec="MalSpec", hdr=3, sext=8, eext=4, protos='{"bin"}', malops=malops, malkeys="{0, 1, 3}" if quick else "{0, 1, 2, 3}",
               malexts="{0, 4, 8, 5}", maltotals="{0,1,2,3,4,5,7,8,9,11,12}" if quick else "{0,1,2,3,4,5,6,7,8,9,10,11,12}",
               malhuge="TRUE", tail=MAL_INV))
    if not quick:
        design(run, "header grid, 24-byte header",
               cfg(spec="MalSpec", hdr=24, sext=8, eext=4, protos='{"bin"}', malops='{"set","appendq","get","getq","touch","noop","unknown"}',
                   malkeys="{0, 1, 3}", malexts="{0, 4, 8}", maltotals="{0,1,3,4,7,8,11,12}", malhuge="TRUE", maxsegs=2, tail=MAL_INV))
    out = run.path("c11.ndjson")
    run.run_vh("wire", ["-mode", "c11-" + tier, "-out", out, "-seed", seed], timeout=3000)
    events, mism = validate(run, out)
    summary = [e for e in events if e["ev"] == "summary"][-1]
    mal = [e for e in events if e["ev"] == "mal"]
    run.traces = summary["cases"]
    groups = collections.OrderedDict()
    for m in mism:
        e = events[m["l"] - 1]
        if e["ev"] == "idle":
            sig = {"mkind": "Spin"}
            what = "the server process used %s ms of processor time in %s ms with every connection idle or closed" % (m["got"], m["want"])
            info = {}
        else:
            info = m["want"]["info"]
            sig = {"mkind": m["kind"], "proto": e["proto"], "opclass": info["opclass"], "lens": info["lens"], "pos": info["pos"]}
            case = e.get("c") or e.get("t")
            if m["kind"] == "Outcome":
                what = "input %s (%s %s, %s, %s level, client %s): observed '%s' (%s); the property allows only %s" % (
                    e["id"], info["op"], info["lens"], json.dumps(case, sort_keys=True), info["level"],
                    "closes" if info["eof"] else "keeps the connection open", m["got"], e.get("note", ""), sorted(m["want"]["allowed"]))
            elif m["kind"] == "Alloc":
                what = "input %s (%s %s, %s): the decoder asked for %d KiB (%s) where a constant plus the consistently declared sizes is %d KiB" % (
                    e["id"], info["op"], info["lens"], json.dumps(case, sort_keys=True), m["got"], e.get("note", "")[:160], m["want"]["boundkb"])
            elif m["kind"] == "Await":
                what = "input %s (%s %s, %s): the parser consumed %d bytes of the stream for a contradictory frame (header + declared key + extras = %d): it was not rejected at the header" % (
                    e["id"], info["op"], info["lens"], json.dumps(case, sort_keys=True), m["got"], m["want"]["bound"])
            else:
                what = "input %s (%s %s, %s, %s level): %s: %s" % (e["id"], info["op"], info["lens"], json.dumps(case, sort_keys=True),
                                                                   info["level"], m["kind"], e.get("note", ""))
        key = json.dumps(sig, sort_keys=True)
        g = groups.setdefault(key, {"sig": sig, "what": what, "n": 0, "examples": [], "ops": set(), "levels": set(), "got": set()})
        g["n"] += 1
        if info:
            g["ops"].add(info["op"])
            g["levels"].add(info["level"])
        if m["kind"] == "Outcome":
            g["got"].add(m["got"])
        if len(g["examples"]) < 3:
            g["examples"].append({"event": e, "mismatch": m})
    for g in groups.values():
        ex = g["examples"][0]["event"]
        run.candidate(g["sig"]["mkind"], g["what"] + " [%d such mismatches; opcodes %s; levels %s]" % (
            g["n"], sorted(g["ops"])[:12], sorted(g["levels"])), sig=g["sig"],
            detail={"count": g["n"], "opcodes": sorted(g["ops"]), "levels": sorted(g["levels"]), "observed": sorted(g["got"]),
                    "examples": g["examples"]},
            replay={"driver": "wire", "mode": "c11-" + tier, "seed": seed, "id": ex.get("id")})
    classes = collections.Counter("%s/%s" % (e["level"], e["class"]) for e in mal)
    fams = collections.Counter(e["fam"] for e in mal)
    # behaviours that the letter of the property permits but that are worth knowing
    unusual_hang = sum(1 for e in mal if e["proto"] == "bin" and e["class"] == "hang" and e["c"]["hdr"] == 24 and e["c"]["magic"]
                       and e["c"]["thi"] == 0 and e["c"]["tlo"] >= e["c"]["keylen"] + e["c"]["extlen"] and e["c"]["avail"] >= e["c"]["tlo"])
    alloc_lines = set(m["l"] for m in mism if m["kind"] == "Alloc")
    capped_ok = sum(1 for i, e in enumerate(events) if e["ev"] == "mal" and e["class"] == "capped" and (i + 1) not in alloc_lines)
    pick = lambda f: next((e for e in mal if f(e)), None)
    run.samples = [x for x in (pick(lambda e: e["fam"] == "grid" and e["class"] == "closed"),
                               pick(lambda e: e["fam"] == "bitflip"), pick(lambda e: e["proto"] == "text")) if x]
    run.extra.update({
        "inputs": summary["cases"], "executions": len(mal), "by_family": dict(fams), "by_level_and_class": dict(classes),
        "child_processes": summary.get("processes"), "allocations_stopped_by_cap": summary.get("allocations_stopped_by_cap", 0),
        "mismatch_lines": len(mism),
        "observations_not_judged": {
            "consistent_frames_complete_but_parser_waits_for_more": unusual_hang,
            "huge_consistently_declared_sizes_requested_up_front": max(capped_ok, 0),
        },
    })
    run.assumptions += [
        "coverage-guided fuzzing of the parsers (named in the property's quantifier) is outside this technique: the specification-driven header grid, the mutation enumeration (every truncation offset, every header bit, length-field edits) and the text cases stand in for it",
        "every input runs in a child process whose address space may grow by 512 MiB only: an allocation beyond that kills the child at once, the Go runtime reports the size asked for, and that size is judged against the bound (class 'capped'); the remaining variants of that input are then skipped",
        "memory = runtime.MemStats.TotalAlloc delta around one Parse call in a process where nothing else runs; the constant allowance C is 64 KiB",
        "a frame that consistently declares a huge size (total 2^31 or 2^32-1, 'set k 0 0 4294967295') may ask for that much before the data arrives: the letter of the property permits it (reported under observations_not_judged)",
        "parse errors are mapped to 'error reply' / 'close' as server/default.go does, and cross-checked by sending the same bytes to the real server loop",
        "in the quick tier the inputs that may provoke a huge allocation are sampled (every opcode x kind at least once)",
    ]
    run.log("validated %d executions of %d inputs, %d mismatch lines in %d classes" % (len(mal), summary["cases"], len(mism), len(groups)))
    return run.finish(exhaustive=False, rule="design: for every opcode x (keylen, extlen, total) x bytes that follow x (EOF | open), the reference decoder's outcome is Wire!Outcome, inside Wire!Allowed; total < keylen + extlen => rejected with nothing awaited; binding: the real parser and the real server loop on the concretised grid, on every truncation / header bit flip / length edit of valid requests and on malformed text input must stay inside Wire!Allowed, allocate <= 64 KiB + consistently declared sizes, consume <= header + key + extras of a contradictory frame, keep serving a second connection, and be idle afterwards")
