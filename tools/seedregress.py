#!/usr/bin/env python3
"""Re-runs, for every kept seeded change, the quick check of the property it breaks against a scratch
worktree of /repo's HEAD with the change applied, and records who still reports it.

usage: seedregress.py [--jobs J] [--only name,name]
writes /verif/seeded/REGRESSION.json: {name: {property, exit, violations, first, wall_s, head}}
A change whose patch no longer applies to HEAD (the tree was repaired where it patched) is recorded as such."""
import argparse
import concurrent.futures as cf
import json
import os
import subprocess
import sys
import time

VERIF = os.path.dirname(os.path.dirname(os.path.abspath(__file__)))
SEEDED = os.path.join(VERIF, "seeded")


def one(name):
    meta = json.load(open(os.path.join(SEEDED, name, "meta.json")))
    prop = meta["breaks_property"]
    wt = "/tmp/sr-%s" % name[:40]
    subprocess.run(["git", "-C", "/repo", "worktree", "remove", "--force", wt], stdout=subprocess.DEVNULL, stderr=subprocess.DEVNULL)
    subprocess.run(["git", "-C", "/repo", "worktree", "add", "-q", wt, "HEAD"], check=True)
    t0 = time.time()
    out = {"property": prop}
    try:
        p = subprocess.run(["git", "apply", os.path.join(SEEDED, name, "patch.diff")], cwd=wt, stdout=subprocess.PIPE, stderr=subprocess.STDOUT, text=True)
        if p.returncode != 0:
            out.update({"exit": None, "note": "patch does not apply to HEAD: " + p.stdout.strip()[:200]})
            return name, out
        e = dict(os.environ, VERIF_REPO=wt, VERIF_EVIDENCE_DIR="/tmp/sr-evidence-" + name[:40])
        p = subprocess.run([os.path.join(VERIF, "check"), prop, "quick"], cwd=VERIF, env=e, stdout=subprocess.PIPE, stderr=subprocess.STDOUT, text=True, timeout=3000)
        ls = p.stdout.splitlines()
        first = ""
        for j, l in enumerate(ls):
            if l.startswith("VIOLATION") and j + 1 < len(ls):
                first = ls[j + 1].strip()[:300]
                break
        out.update({"exit": p.returncode, "violations": sum(1 for l in ls if l.startswith("VIOLATION")), "first": first,
                    "tail": "" if p.returncode in (0, 1) else p.stdout[-400:]})
    except subprocess.TimeoutExpired:
        out.update({"exit": "timeout"})
    finally:
        out["wall_s"] = round(time.time() - t0, 1)
        subprocess.run(["git", "-C", "/repo", "worktree", "remove", "--force", wt], stdout=subprocess.DEVNULL, stderr=subprocess.DEVNULL)
        subprocess.run(["rm", "-rf", "/tmp/sr-evidence-" + name[:40]])
    return name, out


def main():
    ap = argparse.ArgumentParser()
    ap.add_argument("--jobs", type=int, default=3)
    ap.add_argument("--only", default="")
    a = ap.parse_args()
    names = sorted(n for n in os.listdir(SEEDED) if os.path.exists(os.path.join(SEEDED, n, "meta.json")))
    if a.only:
        names = [n for n in names if n in a.only.split(",")]
    head = subprocess.check_output(["git", "-C", "/repo", "log", "--format=%h", "-1"], text=True).strip()
    res = {}
    outp = os.path.join(SEEDED, "REGRESSION.json")
    if a.only and os.path.exists(outp):
        res = json.load(open(outp)).get("changes", {})
    with cf.ThreadPoolExecutor(a.jobs) as ex:
        for name, out in ex.map(one, names):
            out["head"] = head
            res[name] = out
            print("%-58s %s exit=%s violations=%s %ss" % (name, out["property"], out.get("exit"), out.get("violations"), out["wall_s"]), flush=True)
            with open(outp, "w") as f:
                json.dump({"note": "quick check of the broken property against HEAD + the seeded change; exit 1 = reported", "changes": res}, f, indent=1)
    missed = [n for n, o in res.items() if o.get("exit") not in (1, None)]
    print("not reported:", missed or "none")
    subprocess.run(["git", "-C", "/repo", "worktree", "prune"])
    return 0


if __name__ == "__main__":
    sys.exit(main())
