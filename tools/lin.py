"""C03 (atomicity under the locking wrapper) and C12 (locks always released).

Design: spec/OrcaConc.tla - all interleavings of small client programs at lock-acquisition and
handler-call granularity, checked exhaustively by TLC.
Binding: the harness enumerates the schedules of the REAL LockedOrca + L1L2 / L1L2Batch code
(instrumented lockers through the verif hook, gated handlers) depth-first; every execution is
recorded and validated by TLC against spec/OrcaLin.tla (linearizability by silent Lin steps,
lock discipline, final tier consistency)."""
import itertools
import json
import os
import random
import subprocess

from vlib import Run, tlc_tagged, Infra

LIN_CFG = """SPECIFICATION Spec
CONSTANTS
  Keys = {"k1", "k2", "k3"}
  Clients = {0, 1, 2}
  Stripes = {0, 1, 2, 3}
  TraceFile = "%s"
CHECK_DEADLOCK FALSE
"""

CONC_CFG = """SPECIFICATION Spec
CONSTANTS
  Keys = {%(keys)s}
  Clients = {%(clients)s}
  PortOf <- %(portof)s
  Locked = %(locked)s
  MultiReader = %(multi)s
  LockOf <- %(lockof)s
  MaxCmds = %(maxcmds)d
  FaultBudget = %(faults)d
  DisjointKeys = %(disjoint)s
INVARIANTS %(invs)s
CHECK_DEADLOCK %(deadlock)s
"""


def ops_for(key, rich):
    o = [
        {"op": "set", "k": key, "v": [1], "f": 1, "t": 0},
        {"op": "set", "k": key, "v": [2], "f": 2, "t": 3},
        {"op": "add", "k": key, "v": [3], "f": 0, "t": 0},
        {"op": "replace", "k": key, "v": [4], "f": 3, "t": 0},
        {"op": "append", "k": key, "v": [5], "f": 0, "t": 0},
        {"op": "prepend", "k": key, "v": [6], "f": 0, "t": 0},
        {"op": "delete", "k": key, "v": [], "f": 0, "t": 0},
        {"op": "touch", "k": key, "v": [], "f": 0, "t": 5},
        {"op": "get", "k": key, "v": [], "f": 0, "t": 0},
        {"op": "gat", "k": key, "v": [], "f": 0, "t": 7},
    ]
    return o if rich else o[:1] + o[2:4] + o[6:7] + o[8:]


def programs(tier, seed):
    """2 clients x 1 command exhaustively (all op pairs x port pairs x initial states); larger
    programs by seeded sampling."""
    rng = random.Random(seed)
    progs = []
    ops = ops_for("k1", True)
    ports = [("main", "main"), ("main", "batch"), ("batch", "batch")]
    for a, b in itertools.product(ops, ops):
        for pa, pb in ports:
            for init in ("empty", "both", "l2only"):
                progs.append({"init": init, "clients": [{"port": pa, "cmds": [a]}, {"port": pb, "cmds": [b]}]})
    if tier == "quick":
        # always kept: a main-port get or get-and-touch that finds the key in L2 only (it re-populates L1 in
        # several backend calls) against every command on either port - the window every lock mode protects
        def refill(p):
            a, b = p["clients"]
            return p["init"] == "l2only" and any(x["port"] == "main" and x["cmds"][0]["op"] in ("get", "gat") for x in (a, b))
        keep = [p for p in progs if refill(p) and p["clients"][0]["port"] == "main" and p["clients"][0]["cmds"][0]["op"] in ("get", "gat")]
        rest = [p for p in progs if p not in keep]
        rng.shuffle(rest)
        # the same window when the racing command is NOT the connection's first: both connections begin with a get
        # of a key of the other stripe (whatever a connection keeps between commands must not matter)
        warm = {"op": "get", "k": "k2", "v": [], "f": 0, "t": 0}
        later = [{"init": p["init"], "clients": [{"port": c["port"], "cmds": [dict(warm)] + c["cmds"]} for c in p["clients"]]}
                 for p in keep if p["clients"][1]["cmds"][0]["op"] in ("set", "delete", "append", "touch", "replace")]
        progs = keep + later + rest[:max(0, 300 - len(keep) - len(later))]
    extra = 60 if tier == "quick" else 600
    allops = ops_for("k1", True) + ops_for("k2", False)
    for _ in range(extra):
        shape = rng.choice([(2, 1), (1, 2), (2, 2), (1, 1, 1)])
        cl = []
        for n in shape:
            cl.append({"port": rng.choice(["main", "batch"]), "cmds": [dict(rng.choice(allops)) for _ in range(n)]})
        progs.append({"init": rng.choice(["empty", "both", "l2only"]), "clients": cl})
    for i, p in enumerate(progs):
        p["id"] = i
    return progs


def validate(run, trace_files, prop, label):
    tr = run.path("lin-all-%d.ndjson" % run._next())
    with open(tr, "w") as o:
        for f in trace_files:
            o.write(open(f).read())
    events = [json.loads(x) for x in open(tr)]
    res = run.tlc("OrcaLin", LIN_CFG % os.path.basename(tr), workers=1, files=[tr], timeout=3000, depth_first=True)
    # executions and their acceptance
    execs = {}
    cur = None
    for i, e in enumerate(events):
        if e["ev"] == "reset":
            cur = (e["mode"], e["stripes"], e["prog"], e["sched"])
            execs[cur] = {"first": i, "reset": e, "accepted": False, "file": None}
    acc = list(tlc_tagged(res, "ACCEPT"))
    accset = set((a["prog"], a["sched"]) for a in acc)
    for k, ex in execs.items():
        if (k[2], k[3]) in accset:
            ex["accepted"] = True
    # the last line of the trace must have been reached
    if not acc and execs:
        raise Infra("no execution accepted at all: trace specification or driver broken")
    mism = {}
    for m in tlc_tagged(res, "MISMATCH"):
        i = m["l"] - 1
        j = i
        while events[j]["ev"] != "reset":
            j -= 1
        key = (j, m["kind"])
        mism.setdefault(key, m)
    nrej = 0
    for k, ex in execs.items():
        if not ex["accepted"]:
            nrej += 1
            e = ex["reset"]
            i = ex["first"]
            body = events[i:i + e["rem"] + 1]
            faulted = any(x["ev"] in ("fault", "stuck") for x in body)
            if faulted:
                continue  # reported through the MISMATCH lines (Stuck) if at all
            prog = e["program"]
            what = "execution not linearizable (or final L2 differs from every linearization): program %s, reader mode %s, %d stripe(s), schedule %s" % (
                json.dumps(prog["clients"]), e["mode"], e["stripes"], e["choices"])
            sig = {"mkind": "NotLinearizable", "mode": e["mode"], "ops": sorted(c["cmds"][0]["op"] for c in prog["clients"]),
                   "ports": sorted(c["port"] for c in prog["clients"]), "init": e["init"]}
            if prop == "C03":
                run.candidate("NotLinearizable", what, sig=sig, detail={"events": body[:120]},
                              replay={"driver": "lin", "program": prog, "mode": e["mode"], "stripes": e["stripes"], "choices": e["choices"]})
    for (j, kind), m in mism.items():
        e = events[j]
        prog = e["program"]
        lockkinds = ("LockExcl", "OneLock", "UnlockNotHeld", "HeldAfterReturn", "LockFree", "Stuck", "NoReply")
        if prop == "C12" and kind not in lockkinds:
            continue
        if prop == "C03" and kind in ("Stuck", "HeldAfterReturn", "UnlockNotHeld", "OneLock", "LockFree", "NoReply"):
            continue
        if prop == "C08" and kind not in ("NoReply", "Stuck"):
            continue  # without the wrapper only the reply discipline is asked for
        what = "%s in program %s fault=%s, reader mode %s, %d stripe(s), schedule %s: %s / %s" % (
            kind, json.dumps(prog["clients"]), json.dumps(prog.get("fault")), e["mode"], e["stripes"], e["choices"],
            json.dumps(m["a"])[:300], json.dumps(m["b"])[:300])
        sig = {"mkind": kind, "mode": e["mode"], "ops": sorted(c["cmds"][0]["op"] for c in prog["clients"]),
               "fault": (prog.get("fault") or {}).get("kind"), "faultop": prog["clients"][0]["cmds"][0]["op"] if prog.get("fault") else None}
        run.candidate(kind, what, sig=sig, detail={"events": events[j:j + min(e["rem"] + 1, 120)]},
                      replay={"driver": "lin", "program": prog, "mode": e["mode"], "stripes": e["stripes"], "choices": e["choices"]})
    run.traces += len(execs)
    d = run.extra.setdefault("executions", {})
    d[label] = {"executions": len(execs), "accepted": sum(1 for x in execs.values() if x["accepted"]),
                "events": len(events), "tlc_states": res.distinct, "mismatch_kinds": sorted(set(k for _, k in mism))}
    if len(run.samples) < 3 and events:
        e0 = events[0]
        run.samples.append({"execution": events[:min(len(events), e0["rem"] + 1)][:40]})
    run.log("%s: %d executions, %d accepted, %d rejected, %d mismatch kinds, TLC %d states %.0fs" % (
        label, len(execs), len(execs) - nrej, nrej, len(mism), res.distinct, res.wall))
    return execs


def explore(run, progs, mode, log2stripes, maxsched, label):
    """Runs the lin driver over the programs, in parallel worker processes."""
    exe = run.build_harness()
    nw = min(12, max(1, len(progs) // 20))
    chunks = [progs[i::nw] for i in range(nw)]
    procs = []
    outs = []
    for i, ch in enumerate(chunks):
        pin = run.path("progs-%s-%d.json" % (label, i))
        out = run.path("lin-%s-%d.ndjson" % (label, i))
        with open(pin, "w") as f:
            json.dump(ch, f)
        sock = run.path("ls-%s-%d" % (label, i))
        os.makedirs(sock, exist_ok=True)
        procs.append(subprocess.Popen([exe, "lin", "-dir", sock, "-in", pin, "-out", out, "-mode", mode, "-len", str(log2stripes),
                                       "-n", str(maxsched), "-seed", str(run.seed)], stdout=subprocess.PIPE, stderr=subprocess.PIPE, text=True))
        outs.append(out)
    for p in procs:
        try:
            so, se = p.communicate(timeout=3000)
        except subprocess.TimeoutExpired:
            p.kill()
            raise Infra("lin driver timed out")
        if p.returncode != 0:
            run.driver_failed("lin driver failed", se)
    return outs


def conc_cfg(keys=1, clients=2, portof="PortMainBatch", locked=True, multi=True, lockof="LockOne", maxcmds=2, faults=0,
             invs="ReplyOK Subset RefEq OneLock LockFree OnlyHolderRuns", deadlock=True, disjoint=False):
    return CONC_CFG % dict(keys=", ".join('"k%d"' % i for i in range(1, keys + 1)),
                           clients=", ".join('"c%d"' % i for i in range(1, clients + 1)), portof=portof,
                           locked="TRUE" if locked else "FALSE", multi="TRUE" if multi else "FALSE", lockof=lockof,
                           maxcmds=maxcmds, faults=faults, invs=invs, deadlock="TRUE" if deadlock else "FALSE", disjoint="TRUE" if disjoint else "FALSE")


def design(run, tier, faults):
    quick = tier == "quick"
    cfgs = [("1 key, main+batch, multi-reader", dict(multi=True)),
            ("1 key, main+batch, single-reader", dict(multi=False)),
            ("2 keys on 2 stripes, main+batch", dict(keys=2, lockof="LockTwo", maxcmds=1 if quick else 2)),
            ("2 keys on 1 stripe, both main", dict(keys=2, portof="PortAllMain", maxcmds=1 if quick else 2))]
    if not quick:
        cfgs += [("3 clients, 1 key", dict(clients=3, portof="PortMixed3", maxcmds=1)),
                 ("1 key, 3 commands each", dict(maxcmds=3)),
                 ("both batch", dict(portof="PortAllBatch"))]
    for name, kw in cfgs:
        res = run.tlc("OrcaConc", conc_cfg(faults=faults, **kw), timeout=2400)
        if res.violated:
            raise Infra("OrcaConc (%s) violates %s: specification bug" % (name, res.violated))
        run.log("design %-40s faults<=%d: %d distinct states, %.0fs" % (name, faults, res.distinct, res.wall))
    # negative control: without the wrapper the same model must violate an invariant
    res = run.tlc("OrcaConc", conc_cfg(locked=False, invs="ReplyOK Subset RefEq"), timeout=600, expect_violation=True, count=False)
    if not res.violated:
        raise Infra("negative control failed: the unlocked model satisfies every invariant (vacuous check?)")
    run.extra["negative_control"] = "unlocked model violates %s" % res.violated


def run_modes(run, progs, modes, maxsched, prop):
    from concurrent.futures import ThreadPoolExecutor
    outs = {}
    for mode, ls in modes:
        label = "%s-%dstripes" % (mode, 1 << ls)
        outs[label] = explore(run, progs, mode, ls, maxsched, label)
    # validate in pieces of bounded size (one TLC run per piece) so that memory stays bounded
    jobs = []
    for label, files in outs.items():
        total = sum(os.path.getsize(f) for f in files)
        if total < 120 << 20:
            jobs.append((files, label))
        else:
            for i, f in enumerate(files):
                jobs.append(([f], "%s/part%d" % (label, i)))
    with ThreadPoolExecutor(max_workers=3) as ex:
        futs = [ex.submit(validate, run, files, prop, label) for files, label in jobs]
        for f in futs:
            f.result()


def check_c03(prop, tier, seed):
    run = Run(prop, tier, seed)
    quick = tier == "quick"
    design(run, tier, 0)
    progs = programs(tier, seed)
    if quick:
        # the refill-window families come first in the list; then a sample of the other pairs and of the larger programs
        single = [p for p in progs if all(len(c["cmds"]) == 1 for c in p["clients"]) and len(p["clients"]) == 2]
        multi = [p for p in progs if p not in single]
        progs = single[:110] + multi[:60]
    modes = [("multi", 0), ("single", 0), ("multi", 1)] if quick else [("multi", 0), ("single", 0), ("multi", 1), ("single", 2), ("multi", 8)]
    run_modes(run, progs, modes, 250 if quick else 800, prop)
    run.assumptions += ["handler calls are atomic steps (one backend request each for the direct handler)",
                        "commands linearize between invocation and return; order inferred by TLC"]
    return run.finish(exhaustive=False, rule="depth-first enumeration of the schedules of the real LockedOrca/L1L2/L1L2Batch code for each program (2 clients x 1 command exhaustively over op pairs, port pairs and 3 initial states; larger programs sampled); each execution validated by TLC (OrcaLin)")


def fault_programs(tier, seed):
    rng = random.Random(seed)
    progs = []
    follow = {"op": "set", "k": "k1", "v": [7], "f": 0, "t": 0}
    for op in ops_for("k1", True):
        for n in range(4):
            for kind in ("panic", "apperr", "ioerr"):
                for port in ("main", "batch"):
                    for init in ("both", "l2only", "empty"):
                        progs.append({"init": init, "fault": {"C": 0, "N": n, "Kind": kind},
                                      "clients": [{"port": port, "cmds": [op]}, {"port": "main", "cmds": [follow]},
                                                  {"port": "batch", "cmds": [{"op": "get", "k": "k1", "v": [], "f": 0, "t": 0}]}]})
    # multi-key gets with overlapping keys in opposite orders, with and without a writer and a fault
    mg = lambda ks: {"op": "get", "keys": ks, "v": [], "f": 0, "t": 0}
    for ka, kb in (("k1", "k2"), ("k1", "k3"), ("k1", "k1")):
        for init in ("both", "empty"):
            base = [{"port": "main", "cmds": [mg([ka, kb])]}, {"port": "main", "cmds": [mg([kb, ka])]}]
            progs.append({"init": init, "clients": base})
            progs.append({"init": init, "clients": base + [{"port": "batch", "cmds": [follow]}]})
            for n in range(3):
                for kind in ("panic", "ioerr"):
                    progs.append({"init": init, "fault": {"C": 0, "N": n, "Kind": kind}, "clients": base + [{"port": "batch", "cmds": [follow]}]})
    if tier == "quick":
        rng.shuffle(progs)
        progs = progs[:170]
    for i, p in enumerate(progs):
        p["id"] = i
    return progs


def check_c12(prop, tier, seed):
    run = Run(prop, tier, seed)
    quick = tier == "quick"
    design(run, tier, 1 if quick else 2)
    progs = fault_programs(tier, seed)
    modes = [("multi", 1), ("single", 0)] if quick else [("multi", 0), ("single", 0), ("multi", 1), ("single", 1), ("multi", 8)]
    run_modes(run, progs, modes, 60 if quick else 400, prop)
    run.assumptions += ["the server loop is emulated by the harness for this check (recover => close the connection, as server/default.go does); the real loop is exercised by C10/C15"]
    return run.finish(exhaustive=False, rule="every command kind x handler-call position 0..3 x {panic, error status, connection failure} x port x initial state, with a second and third connection competing for the same key; opposite-order multi-key gets; all schedules (capped) of the real code; lock events validated by TLC (OrcaLin)")
