#!/usr/bin/env python3
"""Regenerates the table of seeded changes in DESIGN.md (between the SEEDTABLE markers) from seeded/*/meta.json."""
import glob, json, os, re
HERE = os.path.dirname(os.path.dirname(os.path.abspath(__file__)))
rows = []
for d in sorted(x for x in glob.glob(os.path.join(HERE, "seeded", "*")) if os.path.isdir(x)):
    m = json.load(open(os.path.join(d, "meta.json")))
    det, missed = [], []
    for k, v in (m.get("checks") or {}).items():
        if not isinstance(v, dict) or "exit" not in v:
            continue
        (det if v["exit"] == 1 else missed).append(k.replace(" quick", ""))
    note = (m.get("checks") or {}).get("note", "")
    rows.append("| `%s` | %s | %s | %s | %s |" % (os.path.basename(d), m["breaks_property"], m["needs_to_manifest"][:230].replace("|", "/"),
                                              "; ".join(det) or "-", "; ".join(missed) or "-"))
table = "\n".join(["| seeded change | breaks | needs, in order to manifest | reported by (exit 1) | quiet (exit 0) |", "|---|---|---|---|---|"] + rows)
p = os.path.join(HERE, "DESIGN.md")
s = open(p).read()
s = re.sub(r"<!-- SEEDTABLE -->.*<!-- /SEEDTABLE -->", "<!-- SEEDTABLE -->\n" + table + "\n<!-- /SEEDTABLE -->", s, flags=re.S)
open(p, "w").write(s)
print(len(rows), "rows")
