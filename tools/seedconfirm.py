#!/usr/bin/env python3
"""Confirms a seeded change and runs checks against it.

usage: seedconfirm.py <seed id> <demo target path in the tree> <go test args for the demo> -- <check ids...>

reads /tmp/seedout/<id>/{patch.diff,demo/*}; works in a fresh worktree /tmp/sw-<id> of /repo's HEAD:
 1. demo on the unchanged tree must pass
 2. patch applies; the repository's test packages pass (the demo moved aside); demo must fail
 3. every listed check is run with VERIF_REPO=<worktree>; detection = exit status 1
The worktree is removed at the end. Prints a JSON summary (used for seeded/<id>/meta.json)."""
import glob
import json
import os
import shutil
import subprocess
import sys

ENV = dict(os.environ, GOFLAGS="-mod=mod", GOPROXY="off", GOSUMDB="off", GOTOOLCHAIN="local")
SUITE = ["go", "test", "-vet=off", "-count=1", "./orcas/", "./server/", "./protocol/...", "./metrics/", "./handlers/...", "./common/..."]


def sh(cmd, cwd, timeout=1800, env=ENV):
    p = subprocess.run(cmd, cwd=cwd, env=env, stdout=subprocess.PIPE, stderr=subprocess.STDOUT, text=True, timeout=timeout)
    return p.returncode, p.stdout


def main():
    sid = sys.argv[1]
    target = sys.argv[2]
    i = sys.argv.index("--")
    demo_args = sys.argv[3:i]
    checks = sys.argv[i + 1:]
    src = os.path.join(os.environ.get("SEED_SRC", "/tmp/seedout"), sid)
    wt = "/tmp/sw-%s%s" % (sid, os.environ.get("SEED_TAG", ""))
    subprocess.run(["git", "-C", "/repo", "worktree", "remove", "--force", wt], stdout=subprocess.DEVNULL, stderr=subprocess.DEVNULL)
    subprocess.run(["git", "-C", "/repo", "worktree", "add", "-q", wt, "HEAD"], check=True)
    out = {"id": sid, "head": subprocess.check_output(["git", "-C", "/repo", "log", "--format=%h", "-1"], text=True).strip()}
    try:
        demos = glob.glob(src + "/demo/*.go")
        tdir = os.path.join(wt, target)
        os.makedirs(tdir, exist_ok=True)

        def place():
            for d in demos:
                shutil.copy(d, tdir)

        def unplace():
            for d in demos:
                os.remove(os.path.join(tdir, os.path.basename(d)))
        only = bool(os.environ.get("SEED_CHECKS_ONLY"))  # re-run of the checks against an already confirmed change
        if not only:
            place()
            rc, o = sh(["go", "test", "-vet=off", "-count=1"] + demo_args, wt)
            out["demo_without_change"] = "pass" if rc == 0 else "FAIL"
            out["demo_without_tail"] = o[-400:]
            unplace()
        rc, o = sh(["git", "apply", src + "/patch.diff"], wt)
        if rc != 0:
            out["apply"] = "FAILED: " + o[-400:]
            print(json.dumps(out, indent=1))
            return
        if not only:
            rc, o = sh(SUITE, wt)
            out["suite_with_change"] = "pass" if rc == 0 else "FAIL"
            if rc != 0:
                out["suite_tail"] = o[-800:]
            place()
            rc, o = sh(["go", "test", "-vet=off", "-count=1"] + demo_args, wt)
            out["demo_with_change"] = "fail (as intended)" if rc != 0 else "PASSES (seed not confirmed)"
            out["demo_with_tail"] = o[-600:]
            unplace()
        out["checks"] = {}
        for c in checks:
            tier = "quick"
            if ":" in c:
                c, tier = c.split(":")
            e = dict(os.environ, VERIF_REPO=wt, VERIF_EVIDENCE_DIR="/tmp/seed-evidence")
            p = subprocess.run(["/verif/check", c, tier], cwd="/verif", env=e, stdout=subprocess.PIPE, stderr=subprocess.STDOUT, text=True, timeout=7200)
            lines = [l for l in p.stdout.splitlines() if l.startswith("VIOLATION") or l.startswith("INFRA") or "done:" in l]
            first = ""
            ls = p.stdout.splitlines()
            for j, l in enumerate(ls):
                if l.startswith("VIOLATION") and j + 1 < len(ls):
                    first = ls[j + 1].strip()[:400]
                    break
            out["checks"]["%s %s" % (c, tier)] = {"exit": p.returncode, "violations": sum(1 for l in lines if l.startswith("VIOLATION")),
                                                  "first": first, "summary": lines[-1] if lines else p.stdout[-300:]}
    finally:
        subprocess.run(["git", "-C", "/repo", "worktree", "remove", "--force", wt], stdout=subprocess.DEVNULL, stderr=subprocess.DEVNULL)
        subprocess.run(["git", "-C", "/repo", "worktree", "prune"])
    print(json.dumps(out, indent=1))


if __name__ == "__main__":
    main()
