#!/usr/bin/env python3
"""seedstore.py <seedout id> <name> <property> <needs> < summary.json : stores a confirmed seeded change under /verif/seeded/<name>/"""
import json, os, shutil, sys
sid, name, prop, needs = sys.argv[1:5]
SRC = os.environ.get("SEED_SRC", "/tmp/seedout")
summ = json.load(sys.stdin)
d = "/verif/seeded/%s" % name
os.makedirs(d + "/demo", exist_ok=True)
shutil.copy(SRC + "/%s/patch.diff" % sid, d + "/patch.diff")
for f in os.listdir(SRC + "/%s/demo" % sid):
    shutil.copy(SRC + "/%s/demo/%s" % (sid, f), d + "/demo/" + f)
if os.path.exists(SRC + "/%s/README.md" % sid):
    shutil.copy(SRC + "/%s/README.md" % sid, d + "/README.md")
meta = {"breaks_property": prop, "needs_to_manifest": needs, "confirmed_on_head": summ.get("head"),
        "confirmation": {k: summ.get(k) for k in ("demo_without_change", "suite_with_change", "demo_with_change")},
        "ran": "tools/seedconfirm.py (fresh worktree of /repo HEAD; demo without the change, repository test packages with the change, demo with the change, then ./check <id> quick with VERIF_REPO=<worktree>)",
        "checks": summ.get("checks")}
json.dump(meta, open(d + "/meta.json", "w"), indent=1)
print("stored", d)
