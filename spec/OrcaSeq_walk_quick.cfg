SPECIFICATION Spec
CONSTANTS
  Keys = {"k1", "k2"}
  Blocks = {1}
  Flags = {0, 1}
  TTLs = {0, 1, 10002}
  MaxLen = 2
  Ports = {"main", "batch"}
  MaxNow = 1
  Evictions = TRUE
  MGetLen = 2
  Export = TRUE
INVARIANTS ReplyOK Subset RefEq TTLOK
CHECK_DEADLOCK FALSE
