------------------------------- MODULE Ketama -------------------------------
(***************************************************************************)
(* The consistent-hash ring of rend's cluster proxy (C19).                 *)
(*                                                                         *)
(* A ring is a SET of <<point, label>> pairs: every node (label) owns some *)
(* points of the circle 0..MaxPoint.  A hash value h is routed to the      *)
(* owner of the least point >= h, wrapping to the smallest point.  Two     *)
(* nodes may own the same point (a collision): then the owner is chosen by *)
(* a deterministic function of the SET of colliding labels (the smallest,  *)
(* or with TieMax the largest, label).  Because the ring is a set there is *)
(* no listing order anything could depend on: that is the design.  What    *)
(* the real code does is bound to this module by KetamaTrace.tla.          *)
(*                                                                         *)
(* The module has three parts:                                             *)
(*  1. the definitions (Route, RouteAny, Without);                          *)
(*  2. the "table" evaluation used by KetamaTrace on rank-compressed real  *)
(*     rings of thousands of points (sorted sequence of pairs, dense       *)
(*     ranks), together with the rank compression itself;                  *)
(*  3. a state machine whose states are all rings over a small domain      *)
(*     (AddNode / RemoveNode) and the theorems of C19 as invariants:       *)
(*     totality, boundary behaviour, wrap-around, removal locality,        *)
(*     order freedom, share, and the equivalence of part 2 with part 1.    *)
(***************************************************************************)
EXTENDS Naturals, Sequences, FiniteSets, SequencesExt, TLC

CONSTANTS MaxPoint,   \* points and hash values are 0..MaxPoint
          Labels,     \* node labels: a finite set of naturals
          PerNode,    \* a node owns 1..PerNode points
          TieMax      \* tie-break: FALSE = smallest label owns a shared point, TRUE = largest

VARIABLE pts          \* pts[x] = the set of points of node x ({} = x is not in the cluster)

-----------------------------------------------------------------------------
(* 1. Definitions *)

PointsOf(ring) == {pr[1] : pr \in ring}
LabelsOf(ring) == {pr[2] : pr \in ring}
MinOf(S) == CHOOSE x \in S : \A y \in S : x <= y
MaxOf(S) == CHOOSE x \in S : \A y \in S : y <= x

\* the labels that own point p
At(ring, p) == {pr[2] : pr \in {q \in ring : q[1] = p}}

\* the point a hash value lands on: the least point >= h, else (wrap) the smallest point
Succ(ring, h) ==
  LET up == {p \in PointsOf(ring) : p >= h}
  IN IF up = {} THEN MinOf(PointsOf(ring)) ELSE MinOf(up)

\* every label an implementation that does not break ties could answer
RouteAny(ring, h) == At(ring, Succ(ring, h))

Pick(S) == IF TieMax THEN MaxOf(S) ELSE MinOf(S)

Owner(ring, p) == Pick(At(ring, p))
Route(ring, h) == Pick(RouteAny(ring, h))

Without(ring, x) == {pr \in ring : pr[2] # x}

-----------------------------------------------------------------------------
(* 2. Table evaluation on a sorted sequence of pairs with dense ranks.      *)
(*    seq: the pairs of the ring sorted by (point, label), strictly;        *)
(*    points are the even numbers 2, 4, .., 2M (M distinct points);         *)
(*    a hash value strictly between two points gets the odd number between  *)
(*    them (1 below the smallest, 2M+1 above the largest point).            *)

Before(a, b) == a[1] < b[1] \/ (a[1] = b[1] /\ a[2] < b[2])
SortedPairs(seq) == \A i \in 1..(Len(seq) - 1) : Before(seq[i], seq[i + 1])

\* index of the first pair of every distinct point
Firsts(seq) == SelectSeq([i \in 1..Len(seq) |-> i], LAMBDA i : IF i = 1 THEN TRUE ELSE seq[i][1] # seq[i - 1][1])
Dense(seq, f) == \A r \in 1..Len(f) : seq[f[r]][1] = 2 * r

\* labels at the r-th distinct point, without node x (x = 0: nobody removed)
Group(seq, f, r, x) ==
  {seq[i][2] : i \in f[r]..(IF r < Len(f) THEN f[r + 1] - 1 ELSE Len(seq))} \ {x}

RECURSIVE NextRank(_, _, _, _, _)
NextRank(seq, f, x, r, k) ==   \* first non-empty group at or after r, wrapping; k groups left to inspect
  IF k = 0 THEN 0
  ELSE LET r1 == IF r > Len(f) \/ r < 1 THEN 1 ELSE r
       IN IF Group(seq, f, r1, x) # {} THEN r1 ELSE NextRank(seq, f, x, r1 + 1, k - 1)

\* the admissible answers for compressed hash value hr on the ring without x
AnyTab(seq, f, x, hr) ==
  LET r == NextRank(seq, f, x, (hr + 1) \div 2, Len(f))
  IN IF r = 0 THEN {} ELSE Group(seq, f, r, x)

\* rank compression (what the harness does with 32-bit points and hashes)
Rank(P, p) == 2 * Cardinality({q \in P : q <= p})
RankH(P, h) == IF h \in P THEN Rank(P, h) ELSE 2 * Cardinality({q \in P : q < h}) + 1
CRing(ring) == LET P == PointsOf(ring) IN {<<Rank(P, pr[1]), pr[2]>> : pr \in ring}
SortedSeq(ring) == SetToSortSeq(ring, Before)

-----------------------------------------------------------------------------
(* 3. All rings over a small domain *)

Hashes == 0..MaxPoint
Ring == UNION {{<<p, x>> : p \in pts[x]} : x \in Labels}
Present == {x \in Labels : pts[x] # {}}
PointSets == {S \in SUBSET (0..MaxPoint) : Cardinality(S) \in 1..PerNode}

Init == pts = [x \in Labels |-> {}]

AddNode(x, S) == pts[x] = {} /\ pts' = [pts EXCEPT ![x] = S]
RemoveNode(x) == pts[x] # {} /\ pts' = [pts EXCEPT ![x] = {}]

Next == \E x \in Labels : RemoveNode(x) \/ \E S \in PointSets : AddNode(x, S)

Spec == Init /\ [][Next]_pts

TypeOK == pts \in [Labels -> SUBSET (0..MaxPoint)]

\* every hash value is routed to a node of the cluster
TotalOn(R) == R # {} => \A h \in Hashes : Route(R, h) \in Present /\ Succ(R, h) \in PointsOf(R)
Total == TotalOn(Ring)

\* the chosen point is the first one at or after h; past the last point it is the smallest one
IntervalOn(R) ==
  R # {} =>
    LET P == PointsOf(R) IN
    \A h \in Hashes :
      LET p == Succ(R, h) IN
      IF \E q \in P : q >= h
      THEN p >= h /\ \A q \in P : ~(h <= q /\ q < p)
      ELSE \A q \in P : p <= q /\ q < h
Interval == IntervalOn(Ring)

\* h = 0, h = max, h = p, p - 1, p + 1 for every point p
BoundaryOn(R) ==
  R # {} =>
    LET P == PointsOf(R) lo == MinOf(P) hi == MaxOf(P) IN
    /\ Route(R, 0) = Owner(R, lo)
    /\ Route(R, MaxPoint) = IF MaxPoint \in P THEN Owner(R, MaxPoint) ELSE Owner(R, lo)
    /\ \A h \in Hashes : h > hi => Route(R, h) = Owner(R, lo)          \* wrap-around
    /\ \A p \in P :
         /\ Route(R, p) = Owner(R, p)
         /\ p > 0 => Route(R, p - 1) = IF p - 1 \in P THEN Owner(R, p - 1) ELSE Owner(R, p)
         /\ p < MaxPoint =>
              Route(R, p + 1) =
                IF p = hi THEN Owner(R, lo) ELSE Owner(R, MinOf({q \in P : q > p}))
Boundary == BoundaryOn(Ring)

\* removing node x re-routes exactly the hash values x owned, and to a remaining node
RemovalLocalOn(R) ==
  \A h \in Hashes :
    LET r == Route(R, h)
        A == RouteAny(R, h)
    IN \A x \in Present :
         Present # {x} =>
           LET R2 == Without(R, x)
               r2 == Route(R2, h)
           IN /\ r # x => r2 = r
              /\ r = x => r2 # r
              /\ r2 \in Present \ {x}
              \* as long as another node shares the point nothing else moves
              /\ A # {x} => RouteAny(R2, h) = A \ {x}
RemovalLocal == RemovalLocalOn(Ring)

\* the ring is the same for every order the nodes are listed in; Route has no argument but the
\* ring and the hash value, so the route cannot depend on the order either
Build(list) == UNION {{<<p, list[i]>> : p \in pts[list[i]]} : i \in DOMAIN list}
OrderFreeOn(R) == \A o \in SetToSeqs(Present) : Build(o) = R
OrderFree == OrderFreeOn(Ring)

\* a node receives a share exactly if it owns a point at which it wins the tie-break
ShareOn(R) ==
  \A x \in Present :
    (\E h \in Hashes : Route(R, h) = x) <=> (\E p \in pts[x] : Owner(R, p) = x)
Share == ShareOn(Ring)

\* rank compression and the table evaluation agree with the definitions, also after a removal
TableEqOn(R) ==
  R # {} =>
    LET P == PointsOf(R)
        C == CRing(R)
        seq == SortedSeq(C)
        f == Firsts(seq)
    IN /\ SortedPairs(seq) /\ Dense(seq, f) /\ Len(f) = Cardinality(P)
       /\ \A h \in Hashes :
            LET hr == RankH(P, h) IN
            /\ hr \in 1..(2 * Len(f) + 1)
            /\ AnyTab(seq, f, 0, hr) = RouteAny(R, h)
            /\ Route(C, hr) = Route(R, h)
            /\ \A x \in Present : Present # {x} => AnyTab(seq, f, x, hr) = RouteAny(Without(R, x), h)
TableEq == TableEqOn(Ring)

\* NEGATIVE CONTROL (expected to be violated): without a tie-break the answer is not determined by
\* the set - this is where an implementation that sorts by point only can depend on the list order
TieFree == Ring # {} => \A h \in Hashes : Cardinality(RouteAny(Ring, h)) = 1
=============================================================================
