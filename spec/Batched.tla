------------------------------ MODULE Batched ------------------------------
(***************************************************************************)
(* handlers/memcached/batched: one pooled backend connection with its      *)
(* three goroutines, and callers submitting requests (C06, C13).           *)
(*                                                                         *)
(* Granularity = the points at which the Go code can be pre-empted:         *)
(*   callers   Submit (send on reqchan), delivery of a response or of the  *)
(*             retry marker on the caller's own channel, retry (<=         *)
(*             MaxTries submissions), final outcome "own" or "error"       *)
(*   batcher   BRecv (receive from reqchan), BForm (size or timer; the     *)
(*             batch gets a fresh id = the random opaque base), BHandoff   *)
(*             (c.batchchan <- batch: rendezvous with the reader), BWrite  *)
(*             (c.rw.Write + Flush - AFTER the hand-off, onto whatever     *)
(*             connection c.rw denotes at that moment)                     *)
(*   backend   BackendStep (answer the next request of a connection        *)
(*             generation), Cut (sever a generation, budgeted)             *)
(*   reader    RRead (route a response by opaque to its caller; an opaque  *)
(*             that is not in the current batch is the                     *)
(*             panic("FATAL ERROR: Batch out of sync")), RDone, REof       *)
(*             (hand the unfinished batch to the recovery goroutine)       *)
(*   recovery  VNotify (retry marker to every caller still owed a reply),  *)
(*             VReconnect (new connection generation), VSignal (release    *)
(*             the reader)                                                 *)
(*                                                                         *)
(* PoolAbs (what C06/C13 state): every call ends with exactly one outcome; *)
(* "own" means the reply to the caller's own request; never a foreign one. *)
(*   OneOutcome, OwnReply (by construction of RRead), NoCrash, and under    *)
(*   fairness AllDone.                                                     *)
(* OutOfSync = "panic" is what the code did (the reader panics on an        *)
(* opaque it does not know); "recover" treats it like a lost connection.   *)
(* CaptureRW = TRUE models a batcher that remembers the connection it saw  *)
(* before the hand-off (a repair that was considered: it trades the crash  *)
(* for a hang, see DESIGN.md).                                             *)
(***************************************************************************)
EXTENDS Integers, Sequences, FiniteSets, TLC
CONSTANTS Callers, BatchSize, MaxTries, CutBudget, CaptureRW, OutOfSync

VARIABLES cst, tries, out,         \* callers
          reqchan,                 \* buffered channel of caller ids
          bst, breqs, bbatch, bgen, \* batcher
          nextid,                  \* batch id counter (stands for the random opaque base)
          rst, rbatch,             \* reader: current batch [id, owed]
          vst, vbatch,             \* recovery goroutine
          gen, up, wreq, wresp,    \* connection generation, liveness per generation, bytes in flight per generation
          cuts, crashed
vars == <<cst, tries, out, reqchan, bst, breqs, bbatch, bgen, nextid, rst, rbatch, vst, vbatch, gen, up, wreq, wresp, cuts, crashed>>

NoBatch == [id |-> 0, owed |-> {}]
Gens == 0..(CutBudget + Cardinality(Callers) * MaxTries + 1)

Init ==
  /\ cst = [c \in Callers |-> "idle"] /\ tries = [c \in Callers |-> 0] /\ out = [c \in Callers |-> "none"]
  /\ reqchan = <<>>
  /\ bst = "collect" /\ breqs = <<>> /\ bbatch = NoBatch /\ bgen = 0 /\ nextid = 1
  /\ rst = "waitbatch" /\ rbatch = NoBatch
  /\ vst = "idle" /\ vbatch = NoBatch
  /\ gen = 0 /\ up = [g \in Gens |-> g = 0] /\ wreq = [g \in Gens |-> <<>>] /\ wresp = [g \in Gens |-> <<>>]
  /\ cuts = 0 /\ crashed = FALSE

\* ---- callers (doRequest) ----
Submit(c) == /\ ~crashed /\ cst[c] = "idle" /\ Len(reqchan) < BatchSize
             /\ reqchan' = Append(reqchan, c) /\ cst' = [cst EXCEPT ![c] = "waiting"]
             /\ UNCHANGED <<tries, out, bst, breqs, bbatch, bgen, nextid, rst, rbatch, vst, vbatch, gen, up, wreq, wresp, cuts, crashed>>

\* delivery of a response to a waiting caller is a rendezvous performed by the sender's action
Deliver(c, kind) ==  \* kind: "own" | "retry"
  IF kind = "own" THEN /\ out' = [out EXCEPT ![c] = "own"] /\ cst' = [cst EXCEPT ![c] = "done"] /\ UNCHANGED tries
  ELSE IF tries[c] + 1 < MaxTries
       THEN /\ tries' = [tries EXCEPT ![c] = @ + 1] /\ cst' = [cst EXCEPT ![c] = "idle"] /\ UNCHANGED out
       ELSE /\ tries' = [tries EXCEPT ![c] = @ + 1] /\ cst' = [cst EXCEPT ![c] = "done"] /\ out' = [out EXCEPT ![c] = "error"]

\* ---- batcher ----
BRecv == /\ ~crashed /\ bst = "collect" /\ reqchan # <<>> /\ Len(breqs) < BatchSize
         /\ breqs' = Append(breqs, Head(reqchan)) /\ reqchan' = Tail(reqchan)
         /\ UNCHANGED <<cst, tries, out, bst, bbatch, bgen, nextid, rst, rbatch, vst, vbatch, gen, up, wreq, wresp, cuts, crashed>>
\* batch is formed when full, or when the timer fires with at least one request
BForm == /\ ~crashed /\ bst = "collect" /\ breqs # <<>>
         /\ bbatch' = [id |-> nextid, owed |-> {breqs[i] : i \in 1..Len(breqs)}] /\ nextid' = nextid + 1
         /\ bgen' = gen                          \* the connection object the batcher sees now
         /\ bst' = "handoff"
         /\ UNCHANGED <<cst, tries, out, reqchan, breqs, rst, rbatch, vst, vbatch, gen, up, wreq, wresp, cuts, crashed>>
\* c.batchchan <- batch : rendezvous with the reader waiting for a batch
BHandoff == /\ ~crashed /\ bst = "handoff" /\ rst = "waitbatch"
            /\ rbatch' = bbatch /\ rst' = "reading" /\ bst' = "write"
            /\ UNCHANGED <<cst, tries, out, reqchan, breqs, bbatch, bgen, nextid, vst, vbatch, gen, up, wreq, wresp, cuts, crashed>>
\* c.rw.Write + Flush : goes to whatever connection c.rw denotes at this moment (or the captured one)
BWrite == /\ ~crashed /\ bst = "write"
          /\ LET g == IF CaptureRW THEN bgen ELSE gen IN
               wreq' = IF up[g] THEN [wreq EXCEPT ![g] = @ \o [i \in 1..Len(breqs) |-> <<bbatch.id, breqs[i]>>]] ELSE wreq
          /\ breqs' = <<>> /\ bbatch' = NoBatch /\ bst' = "collect"
          /\ UNCHANGED <<cst, tries, out, reqchan, bgen, nextid, rst, rbatch, vst, vbatch, gen, up, wresp, cuts, crashed>>

\* ---- backend on the current connection generations ----
BackendStep(g) == /\ ~crashed /\ up[g] /\ wreq[g] # <<>>
                  /\ wresp' = [wresp EXCEPT ![g] = Append(@, Head(wreq[g]))] /\ wreq' = [wreq EXCEPT ![g] = Tail(@)]
                  /\ UNCHANGED <<cst, tries, out, reqchan, bst, breqs, bbatch, bgen, nextid, rst, rbatch, vst, vbatch, gen, up, cuts, crashed>>
Cut(g) == /\ ~crashed /\ up[g] /\ cuts < CutBudget
          /\ up' = [up EXCEPT ![g] = FALSE] /\ wreq' = [wreq EXCEPT ![g] = <<>>] /\ wresp' = [wresp EXCEPT ![g] = <<>>] /\ cuts' = cuts + 1
          /\ UNCHANGED <<cst, tries, out, reqchan, bst, breqs, bbatch, bgen, nextid, rst, rbatch, vst, vbatch, gen, crashed>>

\* ---- reader (always reads c.rw of the current generation) ----
RRead == /\ ~crashed /\ rst = "reading" /\ rbatch.owed # {} /\ up[gen] /\ wresp[gen] # <<>>
         /\ LET r == Head(wresp[gen]) IN
              /\ wresp' = [wresp EXCEPT ![gen] = Tail(@)]
              /\ IF r[1] = rbatch.id /\ r[2] \in rbatch.owed
                   THEN /\ cst[r[2]] = "waiting" /\ Deliver(r[2], "own")
                        /\ rbatch' = [rbatch EXCEPT !.owed = @ \ {r[2]}] /\ UNCHANGED crashed
                   ELSE IF OutOfSync = "panic"
                        THEN /\ crashed' = TRUE /\ UNCHANGED <<cst, tries, out, rbatch>>     \* panic("FATAL ERROR: Batch out of sync")
                        ELSE /\ FALSE /\ UNCHANGED <<cst, tries, out, rbatch, crashed>>       \* handled by RStale below
         /\ UNCHANGED <<reqchan, bst, breqs, bbatch, bgen, nextid, rst, vst, vbatch, gen, up, wreq, cuts>>
\* OutOfSync = "recover": a response that does not belong to the current batch is treated like a
\* broken connection - the batch goes to the recovery goroutine, which closes and re-opens the connection
RStale == /\ ~crashed /\ OutOfSync = "recover" /\ rst = "reading" /\ rbatch.owed # {} /\ up[gen] /\ wresp[gen] # <<>>
          /\ LET r == Head(wresp[gen]) IN ~(r[1] = rbatch.id /\ r[2] \in rbatch.owed)
          /\ vst = "idle"
          /\ vbatch' = rbatch /\ vst' = "notify" /\ rst' = "waitrecovered" /\ rbatch' = NoBatch
          /\ UNCHANGED <<cst, tries, out, reqchan, bst, breqs, bbatch, bgen, nextid, gen, up, wreq, wresp, cuts, crashed>>
RDone == /\ ~crashed /\ rst = "reading" /\ rbatch.owed = {}
         /\ rst' = "waitbatch" /\ rbatch' = NoBatch
         /\ UNCHANGED <<cst, tries, out, reqchan, bst, breqs, bbatch, bgen, nextid, vst, vbatch, gen, up, wreq, wresp, cuts, crashed>>
REof == /\ ~crashed /\ rst = "reading" /\ rbatch.owed # {} /\ ~up[gen]
        /\ vst = "idle"                         \* c.leftovers <- batch : rendezvous with the recovery goroutine
        /\ vbatch' = rbatch /\ vst' = "notify" /\ rst' = "waitrecovered" /\ rbatch' = NoBatch
        /\ UNCHANGED <<cst, tries, out, reqchan, bst, breqs, bbatch, bgen, nextid, gen, up, wreq, wresp, cuts, crashed>>

\* ---- recovery goroutine ----
VNotify == /\ ~crashed /\ vst = "notify" /\ vbatch.owed # {}
           /\ \E c \in vbatch.owed : /\ cst[c] = "waiting" /\ Deliver(c, "retry")
                                     /\ vbatch' = [vbatch EXCEPT !.owed = @ \ {c}]
           /\ UNCHANGED <<reqchan, bst, breqs, bbatch, bgen, nextid, rst, rbatch, vst, gen, up, wreq, wresp, cuts, crashed>>
VReconnect == /\ ~crashed /\ vst = "notify" /\ vbatch.owed = {}
              /\ gen' = gen + 1 /\ up' = [up EXCEPT ![gen + 1] = TRUE, ![gen] = FALSE]
              /\ vst' = "signal" /\ vbatch' = NoBatch
              /\ UNCHANGED <<cst, tries, out, reqchan, bst, breqs, bbatch, bgen, nextid, rst, rbatch, wreq, wresp, cuts, crashed>>
VSignal == /\ ~crashed /\ vst = "signal" /\ rst = "waitrecovered"
           /\ vst' = "idle" /\ rst' = "waitbatch"
           /\ UNCHANGED <<cst, tries, out, reqchan, bst, breqs, bbatch, bgen, nextid, rbatch, vbatch, gen, up, wreq, wresp, cuts, crashed>>

Next == \/ \E c \in Callers : Submit(c)
        \/ BRecv \/ BForm \/ BHandoff \/ BWrite
        \/ \E g \in Gens : BackendStep(g) \/ Cut(g)
        \/ RRead \/ RStale \/ RDone \/ REof
        \/ VNotify \/ VReconnect \/ VSignal
Spec == Init /\ [][Next]_vars
FairSpec == Spec /\ WF_vars(Next)

NoCrash == ~crashed
OneOutcome == \A c \in Callers : cst[c] = "done" => out[c] \in {"own", "error"}
AllDone == <>(\A c \in Callers : cst[c] = "done")
=============================================================================
