SPECIFICATION Spec
CONSTANTS
  NProcs = 3
  Keys = {"k1"}
  MaxOps = 1
  MaxNow = 1
  Ms = {"set", "add", "replace", "append", "prepend", "delete", "touch", "get", "gete", "gat"}
  MultiGet = TRUE
  ReadersDelete = FALSE
  AsCoded = FALSE
INVARIANTS LockDiscipline WritesOnlyUnderWriteLock AccessUnderLock NoConcurrentMapAccess ResultsRefine StateRefines ReadersDoNotMutate
