--------------------------- MODULE LifecycleTrace ---------------------------
(***************************************************************************)
(* One event per experiment on the real server: a client sent the first n  *)
(* bytes of a request stream and closed its connection.  The harness       *)
(* classifies n by where it falls (`at`: "start" before the first byte,    *)
(* "inside" a request, "between" requests, "end" after the last byte,      *)
(* "held" after the last byte while a backend request was being held,      *)
(* "afterquit") and reports, after the system settled (or a deadline       *)
(* passed): backend connections still open, goroutines above the           *)
(* baseline, whether a fresh client could operate on the same keys and     *)
(* whether a new connection was served.  The specification (Lifecycle.tla) *)
(* says Disconnect ~> Released from every phase, so every event must show  *)
(* Released.                                                               *)
(***************************************************************************)
EXTENDS Integers, Sequences, TLC, Json

CONSTANT TraceFile
Trace == ndJsonDeserialize(TraceFile)
VARIABLE l
Ev == Trace[l]
Report(kind, want, got) == PrintT("MISMATCH " \o ToJson([l |-> l, kind |-> kind, want |-> want, got |-> got]))

\* the model's phases in which a disconnect can find the server, per position class
PhaseOf(at) == CASE at = "start" -> {"detect"}
                 [] at = "inside" -> {"parse"}
                 [] at = "between" -> {"parse", "exec", "reply"}
                 [] at = "end" -> {"parse", "exec", "reply"}
                 [] at = "held" -> {"exec", "reply"}   \* the backend was held: the client left mid-execution
                 [] at = "afterquit" -> {"aborted"}

TInit == l = 1
TNext ==
  /\ l <= Len(Trace) /\ l' = l + 1
  /\ IF Ev.ev # "prefix" THEN TRUE
     ELSE /\ PhaseOf(Ev.at) # {}
          /\ (IF Ev.open_l1 # 0 \/ Ev.open_l2 # 0 THEN Report("BackendConnLeak", 0, <<Ev.open_l1, Ev.open_l2>>) ELSE TRUE)
          /\ (IF Ev.gor > 0 THEN Report("GoroutineLeak", 0, Ev.gor) ELSE TRUE)
          /\ (IF ~Ev.fresh_ok THEN Report("KeyStillLocked", TRUE, Ev.fresh) ELSE TRUE)
          /\ (IF ~Ev.accepting THEN Report("NotAccepting", TRUE, FALSE) ELSE TRUE)
TSpec == TInit /\ [][TNext]_l
=============================================================================
