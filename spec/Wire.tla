-------------------------------- MODULE Wire --------------------------------
(***************************************************************************)
(* Framing model of the client -> server byte stream (C07, C11).           *)
(*                                                                         *)
(* Part 1 (operators, also used by WireTrace): the framing arithmetic of   *)
(* both protocols, the grouping rule of quiet gets, the first-byte         *)
(* protocol choice, and for malformed input the outcome class, the bytes   *)
(* that may be awaited and the memory that may be needed.                  *)
(*                                                                         *)
(* Part 2 (design check, C07): a pipeline of abstract requests is encoded  *)
(* into frames; the byte stream is delivered in arbitrary segments; the    *)
(* parser is a state machine that consumes what is available and blocks    *)
(* otherwise.  It only learns lengths from what it has read (the header's  *)
(* length fields, the text command line).  For all pipelines and all       *)
(* segmentations: the decoded sequence is the sent sequence (Faithful),    *)
(* each request is emitted having consumed exactly the declared bytes      *)
(* (Exact, part of `ok`), quiet gets are grouped into one request, the     *)
(* first byte selects the protocol.                                        *)
(*                                                                         *)
(* Part 3 (design check, C11): the same machine is started on one          *)
(* arbitrary binary header from a grid opcode x keylen x extlen x total x  *)
(* bytes that follow x (EOF | connection stays open); the result must be   *)
(* the closed form Outcome, inside the envelope Allowed, a contradictory   *)
(* header (total < keylen + extlen) must be rejected with nothing awaited. *)
(*                                                                         *)
(* Field contents (key bytes, flags, opaque, data) are opaque symbols      *)
(* here; they are compared as digests by WireTrace.                        *)
(***************************************************************************)
EXTENDS Naturals, Sequences, FiniteSets, TLC

CONSTANTS
  HdrLen, StoreExt, ExpExt,   \* 24, 8, 4 on the wire (the design model may scale them down)
  CKiB,                       \* constant memory allowance of a decoder, in KiB
  Protos, Ops, TextOps, KeyLens, ValLens, QuietCounts, MaxPipe, LineLen,   \* C07 design model
  MalOps, MalKeyLens, MalExtLens, MalTotals, MalHuge, MaxSegs              \* C11 design model

Min(a, b) == IF a < b THEN a ELSE b
Max(a, b) == IF a > b THEN a ELSE b
KiB(n) == (n + 1023) \div 1024
Huge == 1000000   \* stands for "more bytes than will ever arrive" in the design model

-----------------------------------------------------------------------------
(* Part 1a: binary frames *)

StoreOps  == {"set", "setq", "add", "addq", "replace", "replaceq"}      \* extras (flags, exptime), key, value
ConcatOps == {"append", "appendq", "prepend", "prependq"}              \* key, value
KeyOps    == {"get", "getq", "gete", "geteq", "delete"}                \* key
ExpOps    == {"touch", "gat"}                                          \* extras (exptime), key
BareOps   == {"noop", "quit", "quitq", "version", "stat"}              \* header only
KnownOps  == StoreOps \cup ConcatOps \cup KeyOps \cup ExpOps \cup BareOps
QuietGet  == {"getq", "geteq"}
QuietOps  == QuietGet \cup {"setq", "addq", "replaceq", "appendq", "prependq", "quitq"}

OpName(c) ==
  CASE c = 0 -> "get" [] c = 1 -> "set" [] c = 2 -> "add" [] c = 3 -> "replace" [] c = 4 -> "delete"
    [] c = 7 -> "quit" [] c = 9 -> "getq" [] c = 10 -> "noop" [] c = 11 -> "version" [] c = 14 -> "append"
    [] c = 15 -> "prepend" [] c = 16 -> "stat" [] c = 17 -> "setq" [] c = 18 -> "addq" [] c = 19 -> "replaceq"
    [] c = 23 -> "quitq" [] c = 25 -> "appendq" [] c = 26 -> "prependq" [] c = 28 -> "touch" [] c = 29 -> "gat"
    [] c = 64 -> "gete" [] c = 65 -> "geteq" [] OTHER -> "unknown"

OpClass(op) == IF op \in StoreOps THEN "store" ELSE IF op \in ConcatOps THEN "concat"
               ELSE IF op \in QuietGet THEN "batch" ELSE IF op \in KeyOps \cup ExpOps THEN "keyed"
               ELSE IF op \in BareOps THEN "bare" ELSE "unknown"

BaseOp(op) == CASE op \in {"set", "setq"} -> "set" [] op \in {"add", "addq"} -> "add"
                [] op \in {"replace", "replaceq"} -> "replace" [] op \in {"append", "appendq"} -> "append"
                [] op \in {"prepend", "prependq"} -> "prepend" [] op \in {"get", "getq"} -> "get"
                [] op \in {"gete", "geteq"} -> "gete" [] op \in {"quit", "quitq"} -> "quit" [] OTHER -> op
Quietable == {"set", "add", "replace", "append", "prepend", "quit"}
QuietName(op) == CASE op = "get" -> "getq" [] op = "gete" -> "geteq" [] OTHER -> op \o "q"

ExtOf(op) == IF op \in StoreOps THEN StoreExt ELSE IF op \in ExpOps THEN ExpExt ELSE 0
HasKey(op) == op \in KnownOps \ BareOps
HasVal(op) == op \in StoreOps \cup ConcatOps
MaxKey == 250

(* A header is [op, magic, keylen, extlen, thi, tlo]; the 32-bit total body length is          *)
(* thi * 65536 + tlo (TLC's integers are 32-bit, so the halves are never multiplied out when    *)
(* thi may be large).                                                                          *)
Hdr(op, k, e, hi, lo) == [op |-> op, magic |-> TRUE, keylen |-> k, extlen |-> e, thi |-> hi, tlo |-> lo]
KE(h) == h.keylen + h.extlen
Contradictory(h) == (h.thi = 0 /\ h.tlo < KE(h)) \/ (h.thi = 1 /\ 65536 + h.tlo < KE(h))
Total(h) == h.thi * 65536 + h.tlo         \* only meaningful for thi < 32768
ValLen(h) == Total(h) - KE(h)             \* body = total - extlen - keylen
FrameBytes(h) == HdrLen + Total(h)
TotalKiB(h) == h.thi * 64 + KiB(h.tlo)

(* the layout of the supported subset: the extras the opcode requires, a key iff the opcode has *)
(* one, a value only for the storage commands                                                   *)
Standard(h) ==
  /\ h.magic /\ h.op \in KnownOps /\ ~Contradictory(h) /\ h.extlen = ExtOf(h.op)
  /\ (IF HasKey(h.op) THEN h.keylen \in 1..MaxKey ELSE h.keylen = 0)
  /\ (HasVal(h.op) \/ (h.thi = 0 /\ h.tlo = KE(h)))
WFHdr(op, k, v) == Hdr(op, k, ExtOf(op), 0, ExtOf(op) + k + v)

(* Grouping: GETQ* closed by GET or NOOP is ONE request (likewise GETEQ* closed by GETE or NOOP) *)
Continues(h) == h.op \in QuietGet
PlainOf(op) == IF op = "getq" THEN "get" ELSE "gete"
CloserOK(first, closer) == closer.op \in {"noop", PlainOf(first.op)}
WellGrouped(hs) ==
  LET n == Len(hs) IN
  /\ n >= 1 /\ ~Continues(hs[n])
  /\ \A i \in 1..(n - 1) : Continues(hs[i]) /\ hs[i].op = hs[1].op
  /\ (n > 1 => CloserOK(hs[1], hs[n]))

(* the request a frame group denotes: [op, quiet, noopend, klens, vlen] *)
Decode(hs) ==
  LET f == hs[1] n == Len(hs) IN
  IF f.op \in {"get", "getq", "gete", "geteq"}
  THEN LET nk == IF hs[n].op = "noop" THEN n - 1 ELSE n IN
       [op |-> BaseOp(f.op), quiet |-> [i \in 1..nk |-> hs[i].op \in QuietGet],
        noopend |-> hs[n].op = "noop", klens |-> [i \in 1..nk |-> hs[i].keylen], vlen |-> 0]
  ELSE [op |-> BaseOp(f.op),
        quiet |-> IF BaseOp(f.op) \in Quietable THEN <<f.op \in QuietOps>> ELSE <<>>,
        noopend |-> FALSE,
        klens |-> IF HasKey(f.op) THEN <<f.keylen>> ELSE <<>>,
        vlen |-> IF HasVal(f.op) THEN ValLen(f) ELSE 0]

(* the frames a client writes for an abstract request *)
Encode(r) ==
  IF r.op \in {"get", "gete"}
  THEN LET nk == Len(r.klens) IN
       [i \in 1..(nk + IF r.noopend THEN 1 ELSE 0) |->
          IF i > nk THEN WFHdr("noop", 0, 0)
          ELSE WFHdr(IF r.quiet[i] THEN QuietName(r.op) ELSE r.op, r.klens[i], 0)]
  ELSE <<WFHdr(IF r.quiet = <<TRUE>> THEN QuietName(r.op) ELSE r.op,
               IF r.klens = <<>> THEN 0 ELSE r.klens[1], r.vlen)>>

-----------------------------------------------------------------------------
(* Part 1b: text frames: [op, nk, linelen, dlen]; a command line (ending in CR LF), and for the *)
(* storage commands a data block of the declared length followed by CR LF                       *)

TStoreOps == {"set", "add", "replace", "append", "prepend"}
TAllOps   == TStoreOps \cup {"get", "delete", "touch", "noop", "quit", "version", "stats"}
TFrameBytes(t) == t.linelen + (IF t.op \in TStoreOps THEN t.dlen + 2 ELSE 0)
TDecode(t) == [op |-> t.op, nk |-> t.nk, vlen |-> IF t.op \in TStoreOps THEN t.dlen ELSE 0]
TEncode(r) == [op |-> r.op, nk |-> r.nk, linelen |-> LineLen + r.nk, dlen |-> r.vlen]

-----------------------------------------------------------------------------
(* Part 1c: the first byte of a connection decides the protocol *)
FirstByteChoice(b) == IF b = 128 THEN "bin" ELSE IF b \in 97..122 THEN "text" ELSE "unspecified"

-----------------------------------------------------------------------------
(* Part 1d: malformed binary input (C11).  A case is a header plus                              *)
(*   hdr   number of header bytes that arrive (HdrLen unless the header itself is truncated),    *)
(*   avail number of bytes that follow the header,                                              *)
(*   eof   TRUE: the client then closes; FALSE: it keeps the connection open and sends nothing, *)
(*   pos   "first": the frame opens a request; "batch": it follows a quiet get.                 *)
(* Observed classes: "decoded" (the request was accepted / executed), "error" (error reply),    *)
(* "closed", "hang" (nothing happened although the client waited), "crash".                     *)

AvailCovers(c) == (c.thi = 0 /\ c.tlo <= c.avail) \/ (c.thi = 1 /\ 65536 + c.tlo <= c.avail)
RejectedAtHeader(c) == ~c.magic \/ Contradictory(c) \/ c.op \notin KnownOps \/ ~Standard(c)

(* what the reference decoder does *)
Outcome(c) ==
  IF c.hdr >= 1 /\ ~c.magic THEN "close"               \* the very first byte is not the request magic
  ELSE IF c.hdr < HdrLen THEN (IF c.eof THEN "close" ELSE "wait")
  ELSE IF RejectedAtHeader(c) THEN "close"
  ELSE IF ~AvailCovers(c) THEN (IF c.eof THEN "close" ELSE "wait")
  ELSE IF Continues(c) THEN (IF c.avail - c.tlo >= HdrLen THEN "close"      \* what follows is no header
                             ELSE IF c.eof THEN "close" ELSE "wait")
  ELSE "decoded"

(* bytes beyond the header the decoder may wait for (and allocate) *)
Awaited(c) == IF c.hdr < HdrLen \/ RejectedAtHeader(c) THEN 0 ELSE IF c.thi > 0 THEN Huge ELSE c.tlo

ClassOf(o) == CASE o = "close" -> "closed" [] o = "wait" -> "hang" [] o = "error-reply" -> "error" [] OTHER -> o
Reject == {"closed", "error"}

(* the envelope: every behaviour the property permits for the case *)
Allowed(c, level) ==
  LET w == IF c.eof THEN {} ELSE {"hang"}
      quitok == IF level = "server" /\ c.op \in {"quit", "quitq"} THEN {"closed"} ELSE {}
  IN
  IF c.hdr < HdrLen THEN Reject \cup w                      \* incomplete header: wait for it, or give up
  ELSE IF ~c.magic THEN (IF level = "server" /\ c.pos = "first" THEN Reject \cup w ELSE Reject)
  ELSE IF Contradictory(c) THEN                             \* must be rejected, for every opcode;
       (IF c.eof \/ c.avail >= KE(c) THEN Reject ELSE Reject \cup w)  \* waiting only for declared key + extras
  ELSE IF c.pos # "first" THEN {"decoded"} \cup Reject \cup w    \* after a quiet get: the get itself may be answered
  ELSE IF c.op \notin KnownOps THEN (IF AvailCovers(c) THEN Reject ELSE Reject \cup w)
  ELSE IF Standard(c) THEN                                  \* a well-formed request: C07's domain
       (IF ~AvailCovers(c) THEN Reject \cup w                \* body incomplete
        ELSE IF Continues(c) THEN {"decoded"} \cup Reject \cup w ELSE {"decoded"} \cup quitok)
  ELSE {"decoded"} \cup Reject \cup w                       \* consistent but unusual: containment only

(* memory: a constant plus what the frame consistently declares *)
AllocBoundKiB(c) ==
  CKiB + (IF c.hdr < HdrLen \/ ~c.magic THEN 0 ELSE IF Contradictory(c) THEN KiB(KE(c)) ELSE TotalKiB(c))
(* bytes of the stream a decoder may consume for a contradictory frame *)
ReadBound(c) == HdrLen + KE(c)

-----------------------------------------------------------------------------
(* Part 1e: malformed text input.  A case is                                                    *)
(*   haslf  a complete command line arrived;  linekb: its length (or the bytes sent) in KiB     *)
(*   valid  the line is a command of the supported subset with well-formed arguments            *)
(*   store  it is a storage command, declaring dhi * 65536 + dlo data bytes                     *)
(*   avail  bytes that follow the line; trailer: "ok" | "bad" | "short" (the CR LF after data)  *)
TAvailCovers(t) == (t.dhi = 0 /\ t.dlo <= t.avail) \/ (t.dhi = 1 /\ 65536 + t.dlo <= t.avail)
TAllowed(t, level) ==
  LET w == IF t.eof THEN {} ELSE {"hang"}
      quitok == IF level = "server" /\ t.kind = "quit" THEN {"closed"} ELSE {}
  IN
  IF ~t.haslf THEN Reject \cup w
  ELSE IF ~t.valid THEN Reject
  ELSE IF ~t.store THEN {"decoded"} \cup quitok
  ELSE IF ~TAvailCovers(t) THEN Reject \cup w
  ELSE IF t.trailer = "ok" THEN {"decoded"}
  ELSE {"decoded"} \cup Reject \cup w
TAllocBoundKiB(t) == CKiB + (IF t.haslf /\ t.valid /\ t.store THEN t.dhi * 64 + KiB(t.dlo) ELSE 0)

-----------------------------------------------------------------------------
(* Part 2: the design model *)

VARIABLES proto,      \* protocol the client speaks
          sent,       \* the pipeline of abstract requests (empty for a malformed case)
          mal,        \* the malformed case, or [none |-> TRUE]
          fl,         \* the frames on the wire: [f: frame, req: index of its request, last: closes it]
          slen, eof,  \* length of the byte stream; whether the client closes after it
          delivered, segs,   \* bytes handed to the parser so far, in how many segments
          ps          \* the parser: [pos: bytes consumed, phase: detect | hdr | body | done | closed,
                      \*   need: bytes still needed for the current field, cur: frame being read,
                      \*   acc: quiet frames collected, nd: requests emitted, chosen, out, asked, ok]
vars == <<proto, sent, mal, fl, slen, eof, delivered, segs, ps>>

NoMal == [none |-> TRUE]
IsMal == mal # NoMal

FLen(p, f) == IF p = "bin" THEN FrameBytes(f) ELSE TFrameBytes(f)
RECURSIVE SumTo(_, _, _)
SumTo(p, s, j) == IF j = 0 THEN 0 ELSE SumTo(p, s, j - 1) + FLen(p, s[j].f)
RECURSIVE FlatFrom(_, _)
FlatFrom(groups, i) ==
  IF i > Len(groups) THEN <<>>
  ELSE [j \in 1..Len(groups[i]) |-> [f |-> groups[i][j], req |-> i, last |-> j = Len(groups[i])]] \o FlatFrom(groups, i + 1)

(* abstract requests of the design model *)
BinSingles ==
  UNION {{[op |-> op, quiet |-> IF op \in Quietable THEN <<q>> ELSE <<>>, noopend |-> FALSE,
           klens |-> IF HasKey(op) THEN <<k>> ELSE <<>>, vlen |-> IF HasVal(op) THEN v ELSE 0] :
            q \in (IF op \in Quietable THEN BOOLEAN ELSE {FALSE}),
            k \in (IF HasKey(op) THEN KeyLens ELSE {0}),
            v \in (IF HasVal(op) THEN ValLens ELSE {0})} : op \in Ops \ {"get", "gete"}}
BinGets ==
  {[op |-> fam, quiet |-> [i \in 1..(n + 1) |-> i <= n], noopend |-> FALSE, klens |-> [i \in 1..(n + 1) |-> k], vlen |-> 0] :
     fam \in Ops \cap {"get", "gete"}, n \in QuietCounts \cup {0}, k \in KeyLens} \cup
  {[op |-> fam, quiet |-> [i \in 1..n |-> TRUE], noopend |-> TRUE, klens |-> [i \in 1..n |-> k], vlen |-> 0] :
     fam \in Ops \cap {"get", "gete"}, n \in QuietCounts \ {0}, k \in KeyLens}
BinReqs == BinSingles \cup BinGets
TextReqs ==
  UNION {{[op |-> op, nk |-> n, vlen |-> v] :
            n \in (IF op = "get" THEN {1, 2} ELSE IF op \in {"noop", "quit", "version", "stats"} THEN {0} ELSE {1}),
            v \in (IF op \in TStoreOps THEN ValLens ELSE {0})} : op \in TextOps}
Pipes(R) == UNION {[1..n -> R] : n \in 1..MaxPipe}

HeadNeed(p, s, j) == IF p = "bin" THEN HdrLen ELSE IF j > Len(s) THEN 1 ELSE s[j].f.linelen
BodyLen(p, f) == IF p = "bin" THEN (IF f.thi > 0 THEN Huge ELSE f.tlo)
                 ELSE IF f.op \in TStoreOps THEN f.dlen + 2 ELSE 0
Verdict(p, f) == IF p = "bin" /\ RejectedAtHeader(f) THEN "reject" ELSE "ok"
FirstByte == IF proto = "text" THEN 115 ELSE IF fl[1].f.magic THEN 128 ELSE 0

PS0 == [pos |-> 0, phase |-> "detect", need |-> 0, cur |-> 1, acc |-> 0, nd |-> 0,
        chosen |-> "none", out |-> "none", asked |-> 0, ok |-> TRUE]
Start == delivered = 0 /\ segs = 0 /\ ps = PS0

Init ==
  /\ proto \in Protos /\ mal = NoMal /\ eof = FALSE
  /\ sent \in Pipes(IF proto = "bin" THEN BinReqs ELSE TextReqs)
  /\ fl = FlatFrom([i \in 1..Len(sent) |-> IF proto = "bin" THEN Encode(sent[i]) ELSE <<TEncode(sent[i])>>], 1)
  /\ slen = SumTo(proto, fl, Len(fl))
  /\ Start

(* the C11 grid; the symbolic huge totals are 2^16, 2^31 and 2^32 - 1 as (high, low) halves *)
HugeTotals == {<<1, 0>>, <<32768, 0>>, <<65535, 65535>>}
MalHeaders ==
  {Hdr(op, k, e, 0, t) : op \in MalOps, k \in MalKeyLens, e \in MalExtLens, t \in MalTotals} \cup
  {Hdr(op, k, e, hl[1], hl[2]) : op \in MalOps, k \in MalKeyLens, e \in MalExtLens, hl \in (IF MalHuge THEN HugeTotals ELSE {})} \cup
  {[Hdr("set", 1, StoreExt, 0, StoreExt + 1) EXCEPT !.magic = FALSE]}
MalAvails(h) == {0, KE(h)} \cup (IF h.thi = 0 THEN {h.tlo, h.tlo + HdrLen + 1} ELSE {KE(h) + 3})
MalInit ==
  /\ proto = "bin" /\ sent = <<>>
  /\ \E h \in MalHeaders : \E a \in MalAvails(h) : \E e \in BOOLEAN : \E hb \in {HdrLen, HdrLen - 1} :
       /\ mal = [op |-> h.op, magic |-> h.magic, keylen |-> h.keylen, extlen |-> h.extlen, thi |-> h.thi, tlo |-> h.tlo,
                 hdr |-> hb, avail |-> IF hb < HdrLen THEN 0 ELSE a, eof |-> e, pos |-> "first"]
       /\ fl = <<[f |-> h, req |-> 1, last |-> TRUE]>>
       /\ slen = IF hb < HdrLen THEN hb ELSE HdrLen + a
       /\ eof = e
  /\ Start

(* The parser.  PStep is one step of the state machine given that d bytes have been delivered; *)
(* it consumes what is available of the field it is reading and blocks (PBlocked) otherwise.   *)
PBlocked(q, d) == \/ q.phase = "detect" /\ d = 0
                  \/ q.phase \in {"hdr", "body"} /\ q.need > 0 /\ d = q.pos
                  \/ q.phase \in {"closed", "done"}

PStop(q, o) == [q EXCEPT !.phase = "closed", !.out = (IF q.out = "none" THEN o ELSE q.out), !.ok = (q.ok /\ IsMal)]

EmitOK(q) ==
  /\ fl[q.cur].last /\ fl[q.cur].req = q.nd + 1 /\ fl[q.cur - q.acc].req = q.nd + 1
  /\ (q.cur - q.acc = 1 \/ fl[q.cur - q.acc - 1].req = q.nd)
  /\ q.pos = SumTo(proto, fl, q.cur)                                      \* Exact
  /\ (IF proto = "bin" THEN Decode([j \in 1..(q.acc + 1) |-> fl[q.cur - q.acc + j - 1].f])
                       ELSE TDecode(fl[q.cur].f)) = sent[q.nd + 1]       \* Faithful, grouped

PStep(q, d) ==
  IF q.phase = "detect"                             \* peek at the first byte
  THEN LET c == FirstByteChoice(FirstByte) IN
       IF c = proto THEN [q EXCEPT !.chosen = c, !.phase = "hdr", !.need = HeadNeed(proto, fl, 1)]
       ELSE [PStop(q, "close") EXCEPT !.chosen = c]
  ELSE IF q.need > 0                                \* consume what is available of the current field
  THEN LET t == Min(q.need, d - q.pos) IN [q EXCEPT !.pos = @ + t, !.need = @ - t]
  ELSE IF q.phase = "hdr"                           \* header (command line) complete
  THEN IF q.cur > Len(fl) THEN PStop(q, "close")    \* not a header of the stream: garbage
       ELSE IF Verdict(proto, fl[q.cur].f) = "reject" THEN PStop(q, "close")
       ELSE LET b == BodyLen(proto, fl[q.cur].f) IN [q EXCEPT !.phase = "body", !.need = b, !.asked = Max(@, b)]
  ELSE LET f == fl[q.cur].f IN                      \* body complete
       IF proto = "bin" /\ Continues(f)             \* a quiet get: the request goes on
       THEN [q EXCEPT !.acc = @ + 1, !.cur = @ + 1, !.phase = "hdr", !.need = HeadNeed(proto, fl, q.cur + 1),
                      !.ok = (q.ok /\ (IsMal \/ ~fl[q.cur].last))]
       ELSE IF proto = "bin" /\ q.acc > 0 /\ ~CloserOK(fl[q.cur - 1].f, f) THEN PStop(q, "close")
       ELSE [q EXCEPT !.nd = @ + 1, !.acc = 0, !.cur = @ + 1,
                      !.out = (IF q.out = "none" THEN "decoded" ELSE q.out),
                      !.ok = (q.ok /\ (IsMal \/ EmitOK(q))),
                      !.phase = (IF IsMal THEN "done" ELSE "hdr"), !.need = HeadNeed(proto, fl, q.cur + 1)]

RECURSIVE Run(_, _)
Run(q, d) == IF PBlocked(q, d) THEN q ELSE Run(PStep(q, d), d)

(* a segment of n bytes arrives; the parser runs until it blocks *)
Deliver ==
  /\ ps.phase \notin {"closed", "done"} /\ delivered < slen
  /\ \E n \in 1..(slen - delivered) :
       /\ (MaxSegs > 0 /\ segs + 1 >= MaxSegs) => n = slen - delivered
       /\ delivered' = delivered + n
       /\ ps' = Run(ps, delivered + n)
  /\ segs' = (IF MaxSegs > 0 THEN segs + 1 ELSE segs)   \* only counted when bounded

SeeEOF ==
  /\ ps.phase \in {"detect", "hdr", "body"} /\ delivered = slen /\ eof
  /\ ps' = [ps EXCEPT !.phase = "closed", !.out = (IF ps.out = "none" THEN "close" ELSE ps.out)]
  /\ UNCHANGED <<delivered, segs>>

Next == (Deliver \/ SeeEOF) /\ UNCHANGED <<proto, sent, mal, fl, slen, eof>>

Spec == Init /\ [][Next]_vars
\* for modules that only use the operators (WireTrace): the machine is parked
Parked == proto = "bin" /\ sent = <<>> /\ mal = NoMal /\ fl = <<>> /\ slen = 0 /\ eof = FALSE /\ Start
MalSpec == MalInit /\ [][Next]_vars

-----------------------------------------------------------------------------
(* invariants of the well-formed model (C07) *)
Faithful == ps.ok                                  \* decoded = sent so far, grouped and exact
SegmentIndependent == ps = Run(PS0, delivered)     \* same state as if the prefix had come in one piece
DetectOK == ps.chosen \in {"none", proto}
NoOverrun == ps.pos <= delivered /\ delivered <= slen
NeverRejected == ps.phase # "closed"
AllDecoded == delivered = slen => (ps.nd = Len(sent) /\ ps.phase = "hdr" /\ ps.pos = slen /\ ps.acc = 0)
EncodeStandard == proto = "bin" => \A j \in DOMAIN fl : Standard(fl[j].f)
RoundTrip == proto = "bin" => \A i \in DOMAIN sent : WellGrouped(Encode(sent[i])) /\ Decode(Encode(sent[i])) = sent[i]

(* invariants of the malformed model (C11) *)
Terminal == (delivered = slen \/ ps.phase \in {"closed", "done"}) /\ ~(ps.phase \in {"detect", "hdr", "body"} /\ eof)
Final == IF ps.out # "none" THEN ps.out ELSE "wait"
MalOutcome == Terminal => Final = Outcome(mal)
MalSegmentIndependent == ps.phase # "closed" => ps = Run(PS0, delivered)
MalEnvelope == ClassOf(Outcome(mal)) \in Allowed(mal, "parser") /\ ClassOf(Outcome(mal)) \in Allowed(mal, "server")
MalAwait == ps.asked <= Awaited(mal)
RejectRule == (mal.hdr = HdrLen /\ mal.magic /\ Contradictory(mal)) =>
                (Outcome(mal) = "close" /\ Awaited(mal) <= KE(mal) /\ "decoded" \notin Allowed(mal, "parser")
                 /\ AllocBoundKiB(mal) <= CKiB + KiB(KE(mal)))
ConsistentRule == (mal.hdr = HdrLen /\ mal.magic /\ ~Contradictory(mal)) =>
                    (Awaited(mal) <= (IF mal.thi > 0 THEN Huge ELSE mal.tlo) /\ AllocBoundKiB(mal) <= CKiB + TotalKiB(mal))
NeverCrash == "crash" \notin Allowed(mal, "parser") \cup Allowed(mal, "server")
=============================================================================
