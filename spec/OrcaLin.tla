------------------------------- MODULE OrcaLin -------------------------------
(***************************************************************************)
(* Linearizability of concurrent executions of the real orchestrators      *)
(* under the locking wrapper (C03), and lock discipline (C12).             *)
(*                                                                         *)
(* The trace holds many executions one after the other.  Each starts with  *)
(* a `reset` event (initial tier contents, reader mode) and ends with an   *)
(* `end` event.  In between: inv / ret of client commands, lock / unlock   *)
(* of key stripes (logged by instrumented lockers wrapping rend's own      *)
(* mutexes), hcall / fault (internal, skipped here), and a final           *)
(* `quiesce` with the observed tier contents.                              *)
(*                                                                         *)
(* Each command takes effect at a silent Lin step that TLC may place       *)
(* anywhere between its inv and its ret; an execution is accepted iff some *)
(* placement explains every reply and leaves the reference map equal to    *)
(* what L2 holds at the end.  Accepted executions print ACCEPT; a Skip     *)
(* step lets the search go on with the next execution when one is          *)
(* rejected.  Lock discipline violations are printed as MISMATCH lines.    *)
(***************************************************************************)
EXTENDS Orca, TLC, Json, FiniteSets

CONSTANTS Keys, Clients, Stripes, TraceFile

Trace == ndJsonDeserialize(TraceFile)

VARIABLES l, ref, pend, held, multi, flt
vars == <<l, ref, pend, held, multi, flt>>

Ev == Trace[l]
Report(kind, a, b) == PrintT("MISMATCH " \o ToJson([l |-> l, kind |-> kind, a |-> a, b |-> b]))

Obs(arr) == [k \in Keys |->
               IF \E i \in DOMAIN arr : arr[i].k = k
               THEN LET i == CHOOSE i \in DOMAIN arr : arr[i].k = k IN Entry(arr[i].v, arr[i].f, arr[i].e)
               ELSE None]

Idle == [idle |-> TRUE]
EmptyRef == [k \in Keys |-> None]
Canon == /\ ref' = EmptyRef /\ pend' = [c \in Clients |-> Idle] /\ held' = [c \in Clients |-> {}]
         /\ multi' = TRUE /\ flt' = FALSE

Init == l = 1 /\ ref = EmptyRef /\ pend = [c \in Clients |-> Idle] /\ held = [c \in Clients |-> {}]
        /\ multi = TRUE /\ flt = FALSE

Uncertain(res) == res[1] \in {"closed", "error", "noreply", "malformed"}

Reset == /\ Ev.ev = "reset"
         /\ ref' = Obs(Ev.l2) /\ pend' = [c \in Clients |-> Idle] /\ held' = [c \in Clients |-> {}]
         /\ multi' = (Ev.mode # "single") /\ flt' = FALSE
         /\ l' = l + 1

Inv == /\ Ev.ev = "inv"
       /\ pend' = [pend EXCEPT ![Ev.c] = [x |-> Ev.x, lin |-> FALSE, exp |-> <<>>]]
       /\ l' = l + 1 /\ UNCHANGED <<ref, held, multi, flt>>

\* the silent linearization step of client c's pending command
Lin(c) == /\ pend[c] # Idle /\ ~pend[c].lin
          /\ l <= Len(Trace) /\ Ev.ev \notin {"reset", "end"}
          /\ LET x == pend[c].x IN
             IF x.op = "mget"
             THEN /\ pend' = [pend EXCEPT ![c].lin = TRUE] /\ UNCHANGED ref
             ELSE LET a == Apply(ref, 0, Req(x.op, x.k, x.v, x.f, x.t)) IN
                  /\ ref' = a[1]
                  /\ pend' = [pend EXCEPT ![c].lin = TRUE, ![c].exp = Class(a[2])]
          /\ UNCHANGED <<l, held, multi, flt>>

Ret == /\ Ev.ev = "ret"
       /\ LET p == pend[Ev.c] IN
          /\ p # Idle
          /\ \/ Uncertain(Ev.res)
             \/ (p.lin /\ (p.x.op = "mget" \/ p.exp = Ev.res))
       /\ pend' = [pend EXCEPT ![Ev.c] = Idle]
       /\ l' = l + 1 /\ UNCHANGED <<ref, held, multi, flt>>

Holders(s) == {c \in Clients : \E h \in held[c] : h[1] = s}
Writers(s) == {c \in Clients : <<s, "w">> \in held[c]}

LockEv == /\ Ev.ev = "lock"
          /\ LET s == Ev.stripe  m == Ev.mode IN
             /\ (IF (m = "w" \/ ~multi) /\ Holders(s) # {} THEN Report("LockExcl", Ev, Holders(s))
                 ELSE IF m = "r" /\ Writers(s) # {} THEN Report("LockExcl", Ev, Writers(s)) ELSE TRUE)
             /\ (IF held[Ev.c] # {} THEN Report("OneLock", Ev, held[Ev.c]) ELSE TRUE)
             /\ held' = [held EXCEPT ![Ev.c] = @ \cup {<<s, m>>}]
          /\ l' = l + 1 /\ UNCHANGED <<ref, pend, multi, flt>>

UnlockEv == /\ Ev.ev = "unlock"
            /\ (IF <<Ev.stripe, Ev.mode>> \notin held[Ev.c] THEN Report("UnlockNotHeld", Ev, held[Ev.c]) ELSE TRUE)
            /\ held' = [held EXCEPT ![Ev.c] = @ \ {<<Ev.stripe, Ev.mode>>}]
            /\ l' = l + 1 /\ UNCHANGED <<ref, pend, multi, flt>>

\* a command must not hold its key lock after it has returned
RetHeld == Ev.ev = "ret" =>
   /\ (IF held[Ev.c] # {} THEN Report("HeldAfterReturn", Ev, held[Ev.c]) ELSE TRUE)
   \* the orchestrator returned without having told the responder anything and without an error:
   \* the server loop would go on and the client would wait for ever
   /\ (IF Ev.res[1] \in {"noreply", "malformed"} THEN Report("NoReply", Ev, pend[Ev.c]) ELSE TRUE)

Internal == /\ Ev.ev \in {"hcall", "fault"}
            /\ flt' = (flt \/ Ev.ev = "fault")
            /\ l' = l + 1 /\ UNCHANGED <<ref, pend, held, multi>>

Stuck == /\ Ev.ev = "stuck"
         /\ Report("Stuck", Ev, [c \in Clients |-> held[c]])
         /\ l' = l + 1 /\ UNCHANGED <<ref, pend, held, multi, flt>>

Quiesce == /\ Ev.ev = "quiesce"
           /\ \A c \in Clients : pend[c] = Idle
           /\ LET o1 == Obs(Ev.l1)  o2 == Obs(Ev.l2) IN
              \* the linearization chosen must leave the reference equal to the authoritative tier
              /\ (flt \/ SameLive(o2, ref, 0))
              /\ (IF ~flt /\ ~SubsetVF(o1, o2, 0) THEN Report("Subset", o1, o2) ELSE TRUE)
              /\ (IF ~flt /\ SubsetVF(o1, o2, 0) /\ ~SubsetE(o1, o2, 0) THEN Report("TTL", o1, o2) ELSE TRUE)
           /\ (IF \E c \in Clients : held[c] # {} THEN Report("LockFree", Ev, [c \in Clients |-> held[c]]) ELSE TRUE)
           /\ l' = l + 1 /\ UNCHANGED <<ref, pend, held, multi, flt>>

End == /\ Ev.ev = "end"
       /\ PrintT("ACCEPT " \o ToJson([prog |-> Ev.prog, sched |-> Ev.sched]))
       /\ Canon /\ l' = l + 1

\* give up on this execution: continue with the next one (Ev.rem = lines left before its end event)
Skip == /\ Ev.ev \in {"ret", "quiesce"}
        /\ Canon /\ l' = l + Ev.rem + 1

Next == \/ (l <= Len(Trace) /\ (Reset \/ Inv \/ (Ret /\ RetHeld) \/ LockEv \/ UnlockEv \/ Internal \/ Stuck \/ Quiesce \/ End \/ Skip))
        \/ \E c \in Clients : Lin(c)

Spec == Init /\ [][Next]_vars
=============================================================================
