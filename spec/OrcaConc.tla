------------------------------ MODULE OrcaConc ------------------------------
(***************************************************************************)
(* Concurrent design model: several client connections (each bound to the  *)
(* main or the batch port, all sharing one lock table) issue commands;     *)
(* TLC explores every interleaving at the granularity of lock              *)
(* acquisitions and handler calls (Orca!Call / Orca!After).                *)
(*                                                                         *)
(* orcas/locked.go: every command but get takes the write lock of its      *)
(* key's stripe, get takes the read lock (the same mutex in single-reader  *)
(* mode); the lock is released when the command returns, whatever the      *)
(* outcome (error, panic).  A fault budget lets any handler call fail      *)
(* (application error status, connection failure, panic).                  *)
(*                                                                         *)
(* C03  ReplyOK   every reply equals the reference map's at the command's  *)
(*                linearization point (its lock acquisition)               *)
(*      Subset / RefEq at quiescence: L1 again agrees with L2              *)
(* C12  OneLock, LockFree at quiescence, no deadlock                       *)
(***************************************************************************)
EXTENDS Orca, TLC

CONSTANTS Keys, Clients, PortOf, Locked, MultiReader, LockOf, MaxCmds, FaultBudget, DisjointKeys

VARIABLES l1, l2, ref, pc, cmd, tmp, out, exp, wlock, rlock, left, faults, bad
vars == <<l1, l2, ref, pc, cmd, tmp, out, exp, wlock, rlock, left, faults, bad>>

Free == "free"
PIdle == -1
PLock == -2
PLin == -3
StripeSet == {LockOf[k] : k \in Keys}
NoCmd == Cmd("none", "", <<>>, 0, 0)

Cmds ==
  {Cmd(op, k, <<1>>, 1, t) : op \in {"set", "add", "replace"}, k \in Keys, t \in {0, 2}} \cup
  {Cmd(op, k, <<2>>, 0, 0) : op \in {"append"}, k \in Keys} \cup
  {Cmd(op, k, <<>>, 0, 0) : op \in {"delete", "get"}, k \in Keys} \cup
  {Cmd(op, k, <<>>, 0, 3) : op \in {"touch", "gat"}, k \in Keys}

Empty == [k \in Keys |-> None]

\* alternatives for the configuration files
PortMainBatch == [c \in Clients |-> IF c = "c1" THEN "main" ELSE "batch"]
PortAllMain   == [c \in Clients |-> "main"]
PortAllBatch  == [c \in Clients |-> "batch"]
PortMixed3    == [c \in Clients |-> IF c = "c3" THEN "batch" ELSE "main"]
\* with DisjointKeys every client works on its own key (C14: no interference between connections)
OwnKey(c) == IF c = "c1" THEN "k1" ELSE IF c = "c2" THEN "k2" ELSE "k3"
LockOne == [k \in Keys |-> 0]
LockTwo == [k \in Keys |-> IF k = "k1" THEN 0 ELSE 1]

Init ==
  /\ l1 = Empty /\ l2 = Empty /\ ref = Empty
  /\ pc = [c \in Clients |-> PIdle] /\ cmd = [c \in Clients |-> NoCmd] /\ tmp = [c \in Clients |-> NoTmp]
  /\ out = [c \in Clients |-> <<>>] /\ exp = [c \in Clients |-> <<>>]
  /\ wlock = [s \in StripeSet |-> Free] /\ rlock = [s \in StripeSet |-> {}]
  /\ left = [c \in Clients |-> MaxCmds] /\ faults = 0 /\ bad = <<>>

IsReadCmd(x) == x.op = "get"

\* values stay bounded: an append is only issued on a value of length <= 1
Fits(x) == x.op = "append" => (IF ref[x.k] = None THEN TRUE ELSE Len(ref[x.k].v) <= 1)

Begin(c, x) ==
  /\ pc[c] = PIdle /\ left[c] > 0 /\ Fits(x)
  /\ (DisjointKeys => x.k = OwnKey(c))
  /\ cmd' = [cmd EXCEPT ![c] = x] /\ left' = [left EXCEPT ![c] = @ - 1]
  /\ out' = [out EXCEPT ![c] = <<>>] /\ tmp' = [tmp EXCEPT ![c] = NoTmp]
  /\ pc' = [pc EXCEPT ![c] = IF Locked THEN PLock ELSE PLin]
  /\ UNCHANGED <<l1, l2, ref, exp, wlock, rlock, faults, bad>>

CanW(s) == wlock[s] = Free /\ rlock[s] = {}
CanR(s) == wlock[s] = Free /\ (MultiReader \/ rlock[s] = {})

\* the linearization point: the reference map is applied when the key lock is taken
LinRef(c) ==
  LET r == RefReply(ref, 0, cmd[c]) IN
  /\ ref' = r[1] /\ exp' = [exp EXCEPT ![c] = Class(r[2])]

Acquire(c) ==
  /\ pc[c] = PLock
  /\ LET s == LockOf[cmd[c].k] IN
     IF IsReadCmd(cmd[c])
     THEN CanR(s) /\ rlock' = [rlock EXCEPT ![s] = @ \cup {c}] /\ UNCHANGED wlock
     ELSE CanW(s) /\ wlock' = [wlock EXCEPT ![s] = c] /\ UNCHANGED rlock
  /\ LinRef(c)
  /\ pc' = [pc EXCEPT ![c] = 1]
  /\ UNCHANGED <<l1, l2, cmd, tmp, out, left, faults, bad>>

\* without the wrapper a command linearizes at its first call (no claim is made for that case)
LinOnly(c) ==
  /\ pc[c] = PLin /\ LinRef(c) /\ pc' = [pc EXCEPT ![c] = 1]
  /\ UNCHANGED <<l1, l2, cmd, tmp, out, wlock, rlock, left, faults, bad>>

Release(c) ==
  LET s == LockOf[cmd[c].k] IN
  /\ wlock' = IF Locked /\ wlock[s] = c THEN [wlock EXCEPT ![s] = Free] ELSE wlock
  /\ rlock' = IF Locked THEN [rlock EXCEPT ![s] = @ \ {c}] ELSE rlock

\* one handler call; res is the real result or an injected failure
Finish(c, n, faulted) ==
  IF n.pc = 0
  THEN /\ pc' = [pc EXCEPT ![c] = PIdle] /\ out' = [out EXCEPT ![c] = n.out] /\ tmp' = [tmp EXCEPT ![c] = NoTmp]
       /\ Release(c)
       /\ bad' = IF ~faulted /\ faults = 0 /\ Class(n.out) # exp[c]
                 THEN <<"ReplyOK", c, cmd[c], n.out, exp[c]>> ELSE bad
  ELSE /\ pc' = [pc EXCEPT ![c] = n.pc] /\ tmp' = [tmp EXCEPT ![c] = n.tmp]
       /\ UNCHANGED <<out, wlock, rlock, bad>>

CallOK(c) ==
  /\ pc[c] \in 1..4
  /\ LET call == Call(PortOf[c], cmd[c], pc[c], tmp[c], 0)
         a == Apply(IF call.tier = "l1" THEN l1 ELSE l2, 0, call.r)
         n == After(PortOf[c], cmd[c], pc[c], tmp[c], a[2])
     IN /\ l1' = IF call.tier = "l1" THEN a[1] ELSE l1
        /\ l2' = IF call.tier = "l2" THEN a[1] ELSE l2
        /\ Finish(c, n, FALSE)
  /\ UNCHANGED <<ref, cmd, exp, left, faults>>

\* the call fails without being applied; "panic" unwinds through the wrapper (lock released) and
\* the server loop closes the connection
CallFail(c, kind) ==
  /\ pc[c] \in 1..4 /\ faults < FaultBudget
  /\ faults' = faults + 1
  /\ LET n == IF kind = "panic" THEN Done(<<"closed">>)
              ELSE After(PortOf[c], cmd[c], pc[c], tmp[c], <<kind>>)
     IN Finish(c, n, TRUE)
  /\ UNCHANGED <<l1, l2, ref, cmd, exp, left>>

AllDone == \A c \in Clients : pc[c] = PIdle /\ left[c] = 0

Next ==
  \/ \E c \in Clients : \/ \E x \in Cmds : Begin(c, x)
                        \/ Acquire(c) \/ LinOnly(c) \/ CallOK(c)
                        \/ \E k \in {"apperr", "ioerr", "panic"} : CallFail(c, k)
  \/ (AllDone /\ UNCHANGED vars)

Spec == Init /\ [][Next]_vars

Quiescent == \A c \in Clients : pc[c] = PIdle
ReplyOK  == bad = <<>>
Subset   == (Quiescent /\ faults = 0) => (SubsetVF(l1, l2, 0) /\ SubsetE(l1, l2, 0))
RefEq    == (Quiescent /\ faults = 0) => SameLive(l2, ref, 0)
Holds(c) == {s \in StripeSet : wlock[s] = c \/ c \in rlock[s]}
OneLock  == \A c \in Clients : Cardinality(Holds(c)) <= 1
LockFree == Quiescent => \A s \in StripeSet : wlock[s] = Free /\ rlock[s] = {}
OnlyHolderRuns == \A c \in Clients : (Locked /\ pc[c] \in 1..4) => Holds(c) # {}
=============================================================================
