\* 2 observers x 3 observations of 2 values, ring of 4 slots, reader swapping twice: ~70k states, a few seconds
\* tlc -config Metrics_quick.cfg Metrics.tla   (tools/metrics.py generates the same text; larger constants in the thorough tier)
SPECIFICATION Spec
CONSTANTS
  Observers = {"o1", "o2"}
  Vals = {1, 2}
  BufLen = 4
  MaxObs = 3
  MaxReads = 2
  IndexAfterInc = FALSE
  Incs = {}
  Amounts = {1}
  MaxIncs = 0
  AtomicAdd = TRUE
INVARIANTS TypeOK CountExact TotalExact MinMaxExact PctIsObservation MinLePctLeMax CounterExact
CHECK_DEADLOCK FALSE
