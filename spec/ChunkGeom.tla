------------------------------ MODULE ChunkGeom ------------------------------
(***************************************************************************)
(* C16, fixed-size chunk discipline of the chunking backend                *)
(* (handlers/memcached/chunked): the geometry of what one client set of a  *)
(* value of `len` bytes under a key of `k` bytes writes to the backend.    *)
(*                                                                         *)
(*   metadata entry  "<key>-meta"   value of MetaSize bytes                *)
(*   chunk i         "<key>-<i>"    token (16 bytes) + Payload(k) bytes,   *)
(*                                  the last chunk zero-padded             *)
(*                                                                         *)
(* A memcached item costs key length + value length + ItemOverhead bytes   *)
(* and has to fit the slab class of SlabBudget bytes.                      *)
(*                                                                         *)
(* A state is one case: the key length k, the value length len and what    *)
(* the set derives from them (payload p, number of chunks n).  TLC         *)
(* enumerates every key length 1..MaxKey with every value length of        *)
(* Lens(k): all lengths 0..Dense and all lengths within Delta of a         *)
(* multiple of the payload, up to MaxChunks chunks.  Init yields the       *)
(* MaxKey cases (k, 0); each of them has the other lengths of that key as  *)
(* successors, so that the workers share the enumeration; every case is    *)
(* exactly one distinct state (2 492 732 for 250, 999, 5000, 2 and         *)
(* 1 547 250 for 250, 999, 1200, 2).                                       *)
(***************************************************************************)
EXTENDS Integers

CONSTANTS MaxKey,     \* longest client key (250)
          MaxChunks,  \* largest number of chunks of one value (999)
          Dense,      \* every value length 0..Dense is a case
          Delta       \* and every length within Delta of a chunk boundary

SlabBudget    == 1184   \* chunkMaxSize
ChunkOverhead == 71     \* chunkOverhead = 67 + 4
ItemOverhead  == 67     \* what memcached adds to key + value
TokenSize     == 16
MetaSize      == 40     \* 6 x uint32 + token

Payload(k) == SlabBudget - ChunkOverhead - k - TokenSize   \* dataSize
Full(k)    == Payload(k) + TokenSize                       \* fullSize

\* len / Payload(k), rounded up
NumChunks(len, k) == (len + Payload(k) - 1) \div Payload(k)

Digits(i) == IF i < 10 THEN 1 ELSE IF i < 100 THEN 2 ELSE IF i < 1000 THEN 3
             ELSE IF i < 10000 THEN 4 ELSE IF i < 100000 THEN 5 ELSE 6

MetaKeyLen(k)     == k + 5              \* "-meta"
ChunkKeyLen(k, i) == k + 1 + Digits(i)  \* "-" and the decimal index

Min(a, b) == IF a < b THEN a ELSE b

(***************************************************************************)
(* The design.  A set computes the payload p and the number of chunks n    *)
(* once (chunkSize, math.Ceil in handleSetCommon) and cuts the value into  *)
(* pieces of p bytes; chunk i carries the token, its piece and the padding *)
(* that fills the piece up (chunkedLimitedReader).                         *)
(***************************************************************************)
VARIABLES k, len, p, n
vars == <<k, len, p, n>>

Piece(i)     == Min(p, len - i * p)
Pad(i)       == p - Piece(i)
ChunkVLen(i) == LET q == Piece(i) IN TokenSize + q + (p - q)

\* the metadata entry (six 32-bit fields and the token) does not depend on the case
MetaVLen(kk, ll) == 24 + TokenSize

Fits(keylen, vlen) == keylen + vlen + ItemOverhead <= SlabBudget

Idx == 0 .. (n - 1)

(***************************************************************************)
(* The chunk indexes the per-chunk invariants quantify over.  For the      *)
(* cases of at most FullUpTo chunks and for the cases of MaxChunks chunks  *)
(* (five value lengths per key length, which contain every index           *)
(* 0..MaxChunks-1 with every key length) this is every chunk of the value. *)
(* For the other cases it is the first chunk, the last two chunks and the  *)
(* chunks around a change of the number of digits of the index: only the   *)
(* digits of i enter the key length and only the last chunk is padded.     *)
(* (Every index of every case would be 1.2 * 10^9 evaluations.)            *)
(***************************************************************************)
FullUpTo == 16
All      == n <= FullUpTo \/ n >= MaxChunks
RepFit   == {0, 9, 10, n - 1} \cup (IF n > 100 THEN {99, 100} ELSE {}) \cup (IF n > 1000 THEN {999, 1000} ELSE {})
RepSize  == {0, n - 2, n - 1}

\* every entry written for the key fits the slab class (the chunk key grows with the digits of i)
SlabFit == /\ Fits(MetaKeyLen(k), MetaVLen(k, len))
           /\ \A i \in (IF All THEN Idx ELSE RepFit) : Fits(ChunkKeyLen(k, i), ChunkVLen(i))

\* every chunk has the same value length, a function of the key length alone:
\* a piece of 1..p bytes of the value, filled up to p bytes in the last chunk only
SameSize == \A i \in (IF All THEN Idx ELSE RepSize) :
              LET q == Piece(i) IN /\ ChunkVLen(i) = Full(k)
                                   /\ q >= 1 /\ q <= p
                                   /\ (i < n - 1 => q = p)

MetaConst == MetaVLen(k, len) = MetaSize /\ MetaSize = 40

\* n is len / p rounded up: the least number of pieces that carries len bytes
Ceil == /\ p = Payload(k) /\ p >= 1
        /\ n >= 0 /\ n <= MaxChunks
        /\ n * p >= len
        /\ (n > 0 => (n - 1) * p < len)
        /\ (len = 0 <=> n = 0)
        /\ (n > 0 => (n - 1) * p + Piece(n - 1) = len)

Near(q) == { m * q + d : m \in 0..MaxChunks, d \in (0 - Delta)..Delta }
Lens(kk) == ((0..Dense) \cup Near(Payload(kk))) \cap (0 .. MaxChunks * Payload(kk))

Set(kk, ll) == k' = kk /\ len' = ll /\ p' = Payload(kk) /\ n' = NumChunks(ll, kk)

Init == k \in 1..MaxKey /\ len = 0 /\ p = Payload(k) /\ n = 0
Next == len = 0 /\ \E ll \in Lens(k) \ {0} : Set(k, ll)
Spec == Init /\ [][Next]_vars

TypeOK == k \in 1..MaxKey /\ len \in 0 .. MaxChunks * Payload(k)
=============================================================================
