------------------------------ MODULE ChunkNames ------------------------------
(***************************************************************************)
(* Backend entry names of the chunked handler (C04): the metadata of       *)
(* client key K lives under K \o "-meta", chunk i under K \o "-" \o        *)
(* decimal(i).  TLC checks over an adversarial key alphabet (keys that     *)
(* themselves end in "-1", "-meta", "-", ...) that the naming is           *)
(* injective: two different (key, slot) pairs never share a backend entry, *)
(* so operating on one key can only touch entries derived from it, and the *)
(* owner of an entry is recovered by splitting at the last dash.           *)
(***************************************************************************)
EXTENDS Integers, Sequences, FiniteSets, TLC

CONSTANTS MaxTokens, MaxChunk

\* key building blocks, as character sequences
Tokens == {<<"a">>, <<"-">>, <<"1">>, <<"0">>, <<"m", "e", "t", "a">>}

RECURSIVE Concat(_)
Concat(ss) == IF ss = <<>> THEN <<>> ELSE Head(ss) \o Concat(Tail(ss))

Keys == {Concat(ts) : ts \in UNION {[1..n -> Tokens] : n \in 1..MaxTokens}}

Digit(d) == CASE d = 0 -> "0" [] d = 1 -> "1" [] d = 2 -> "2" [] d = 3 -> "3" [] d = 4 -> "4"
              [] d = 5 -> "5" [] d = 6 -> "6" [] d = 7 -> "7" [] d = 8 -> "8" [] d = 9 -> "9"
RECURSIVE Dec(_)
Dec(n) == IF n < 10 THEN <<Digit(n)>> ELSE Dec(n \div 10) \o <<Digit(n % 10)>>

\* slot -1 is the metadata entry
Meta == -1
Slots == {Meta} \cup 0..MaxChunk
Name(k, s) == IF s = Meta THEN k \o <<"-", "m", "e", "t", "a">> ELSE k \o <<"-">> \o Dec(s)

\* parse a raw name back: split at the last dash
LastDash(n) == CHOOSE i \in DOMAIN n : n[i] = "-" /\ \A j \in DOMAIN n : j > i => n[j] # "-"
KeyOf(n) == SubSeq(n, 1, LastDash(n) - 1)

VARIABLES k1, s1
Init == k1 \in Keys /\ s1 \in Slots
Next == UNCHANGED <<k1, s1>>
Spec == Init /\ [][Next]_<<k1, s1>>

\* no other (key, slot) has the same backend name, and the owner is recoverable
Injective == \A k2 \in Keys, s2 \in Slots : Name(k1, s1) = Name(k2, s2) => (k1 = k2 /\ (s1 = s2))
Recoverable == KeyOf(Name(k1, s1)) = k1
\* the name of a client key used as-is (unchunked tier) never equals a derived name of itself
NotSelf == Name(k1, s1) # k1
=============================================================================
