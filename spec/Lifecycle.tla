------------------------------ MODULE Lifecycle ------------------------------
(***************************************************************************)
(* Resources held for one client connection and their release (C15).       *)
(*                                                                         *)
(* server/listen.go accepts the connection, opens the L1 and L2 handler    *)
(* connections and starts a goroutine that waits for the first byte        *)
(* (protocol detection); server/default.go then loops: parse a request     *)
(* (blocking reads), execute it (under the locking wrapper: holding the    *)
(* key lock; a get may have a handler goroutine streaming results), write  *)
(* the reply.  Every read or write error, a quit, and every panic end in   *)
(* abort(), which closes the client socket and both handler connections.   *)
(*                                                                         *)
(* The client may disconnect at ANY point (Disconnect).  The model tracks  *)
(* where the server goroutine is and what it holds:                        *)
(*   Released == client socket, L1 and L2 connections closed, no goroutine *)
(*               of the connection alive, no key lock held                 *)
(*   C15      == Disconnect ~> Released          (under weak fairness)     *)
(* and the server keeps accepting (the accept loop never blocks on a       *)
(* connection: detection runs in its own goroutine).                       *)
(***************************************************************************)
EXTENDS Integers, TLC

CONSTANTS MaxRequests, Locked

VARIABLES phase,     \* where the connection's server goroutine is
          client,    \* "open" | "closed" (by the client)
          sock, l1, l2,   \* server-side resources: "open" | "closed"
          lock,      \* TRUE while the key lock is held
          getter,    \* TRUE while a handler goroutine of a get is running
          done       \* requests served
vars == <<phase, client, sock, l1, l2, lock, getter, done>>

Phases == {"accepted", "detect", "parse", "locking", "exec", "reply", "aborted"}

Init == /\ phase = "accepted" /\ client = "open" /\ sock = "open" /\ l1 = "closed" /\ l2 = "closed"
        /\ lock = FALSE /\ getter = FALSE /\ done = 0

\* listen.go: handler connections are opened before the detection goroutine starts
Dial == /\ phase = "accepted" /\ l1' = "open" /\ l2' = "open" /\ phase' = "detect"
        /\ UNCHANGED <<client, sock, lock, getter, done>>

Abort == /\ sock' = "closed" /\ l1' = "closed" /\ l2' = "closed" /\ phase' = "aborted"

\* blocking reads return as soon as data is there or the peer has gone away
Detect == /\ phase = "detect"
          /\ IF client = "closed" THEN Abort /\ UNCHANGED <<client, lock, getter, done>>
             ELSE phase' = "parse" /\ UNCHANGED <<client, sock, l1, l2, lock, getter, done>>

\* a request arrives completely, or the stream ends somewhere inside it / before it
ParseOK == /\ phase = "parse" /\ client = "open" /\ done < MaxRequests
           /\ phase' = IF Locked THEN "locking" ELSE "exec"
           /\ UNCHANGED <<client, sock, l1, l2, lock, getter, done>>
ParseEOF == /\ phase = "parse" /\ client = "closed"
            /\ Abort /\ UNCHANGED <<client, lock, getter, done>>
\* a quit request, or garbage that makes the parser give up
ParseEnd == /\ phase = "parse" /\ client = "open"
            /\ Abort /\ UNCHANGED <<client, lock, getter, done>>

Lock == /\ phase = "locking" /\ lock' = TRUE /\ phase' = "exec"
        /\ UNCHANGED <<client, sock, l1, l2, getter, done>>

\* the command runs against the backends whether or not the client is still there;
\* a get streams through a handler goroutine that ends with the command
ExecStart == /\ phase = "exec" /\ ~getter /\ getter' = TRUE
             /\ UNCHANGED <<phase, client, sock, l1, l2, lock, done>>
ExecEnd == /\ phase = "exec" /\ getter' = FALSE /\ lock' = FALSE /\ phase' = "reply"
           /\ UNCHANGED <<client, sock, l1, l2, done>>
\* a panic or a fatal error below: deferred unlock, then the loop aborts
ExecFail == /\ phase = "exec" /\ getter' = FALSE /\ lock' = FALSE
            /\ Abort /\ UNCHANGED <<client, done>>

\* writing to a closed peer fails (at the latest on the next read)
Reply == /\ phase = "reply"
         /\ IF client = "closed" THEN \/ (Abort /\ UNCHANGED <<client, lock, getter, done>>)
                                      \/ (phase' = "parse" /\ done' = done + 1 /\ UNCHANGED <<client, sock, l1, l2, lock, getter>>)
            ELSE phase' = "parse" /\ done' = done + 1 /\ UNCHANGED <<client, sock, l1, l2, lock, getter>>

Disconnect == /\ client = "open" /\ client' = "closed"
              /\ UNCHANGED <<phase, sock, l1, l2, lock, getter, done>>

Stutter == phase = "aborted" /\ UNCHANGED vars

Next == Dial \/ Detect \/ ParseOK \/ ParseEOF \/ ParseEnd \/ Lock \/ ExecStart \/ ExecEnd \/ ExecFail \/ Reply \/ Disconnect \/ Stutter

Server == Dial \/ Detect \/ ParseOK \/ ParseEOF \/ ParseEnd \/ Lock \/ ExecStart \/ ExecEnd \/ ExecFail \/ Reply
Spec == Init /\ [][Next]_vars /\ WF_vars(Server)

Released == sock = "closed" /\ l1 = "closed" /\ l2 = "closed" /\ ~lock /\ ~getter /\ phase = "aborted"
C15 == (client = "closed") ~> Released
\* the lock is only ever held while a command executes
LockOnlyInExec == lock => phase = "exec"
\* resources of a connection whose socket is closed are closed too
NoLeak == (phase = "aborted") => Released
=============================================================================
