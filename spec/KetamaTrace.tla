---------------------------- MODULE KetamaTrace ----------------------------
(***************************************************************************)
(* Validation of what the real consistent-hash ring of rend answered       *)
(* (harness driver "ketama") against Ketama.tla  (C19).                    *)
(*                                                                         *)
(* Events (ndjson, one per line, one TLC step each):                       *)
(*   ring     the ring of one label SET, recomputed by the harness          *)
(*            independently of the code: points = <<rank, label>> pairs     *)
(*            sorted by (rank, label), ranks dense (see Ketama.tla part 2)  *)
(*   queries  hs = the compressed hash values asked next                    *)
(*   route    labels[i] = the node the real code chose for hs[i]; who =     *)
(*            the (listing order, instance) pairs that all answered with    *)
(*            exactly this vector                                           *)
(*   remove   the following route events come from rings built from the     *)
(*            list without node x                                           *)
(*   note     no-op                                                         *)
(*                                                                         *)
(* What is checked (only what C19 states):                                  *)
(*   Route    every answer is a label that owns the least point >= h of     *)
(*            the SET ring (wrapping); where several labels share that      *)
(*            point any of them is admissible - the property does not say   *)
(*            which, only that the choice must not depend on anything but   *)
(*            the set                                                       *)
(*   Order    all listing orders and all instances (connections) of the     *)
(*            same label set answer identically                             *)
(*   Removal  on the ring without x every hash value x did not own keeps    *)
(*            its node                                                      *)
(*   Share    on a sample of at least ShareMin keys every node of the       *)
(*            cluster is chosen at least once                               *)
(* A failed check prints a MISMATCH line and the run continues.  The state  *)
(* holds line numbers into the trace (a constant) and two small tables of   *)
(* the current ring, so states stay small.                                  *)
(* On a ring without x, Route is evaluated only for the hash values whose   *)
(* reference answer was x: for the others Removal demands the reference     *)
(* answer, which is admissible by Ketama!RemovalLocal (RouteAny of the      *)
(* smaller ring = RouteAny of the full ring minus x, when that is not       *)
(* empty) as soon as it was admissible on the full ring.                    *)
(***************************************************************************)
EXTENDS Naturals, Sequences, FiniteSets, TLC, Json

CONSTANTS TraceFile, ShareMin

K == INSTANCE Ketama WITH MaxPoint <- 0, Labels <- {}, PerNode <- 0, TieMax <- FALSE, pts <- <<>>

Trace == ndJsonDeserialize(TraceFile)

VARIABLES ow,  \* ow[r] = the only label at the r-th distinct point, 0 if several labels share it
          ft,  \* Firsts of the current ring (index of the first pair of every distinct point)
          l,   \* next line
          rl,  \* line of the current ring event
          ql,  \* line of the current queries event
          bl,  \* line of the first route event of the full ring for these queries (the reference)
          xl,  \* line of the current remove event, 0 = full ring
          dl   \* line of the first route event after the current remove event
vars == <<ow, ft, l, rl, ql, bl, xl, dl>>

Ev == Trace[l]

Report(kind, n, first) == PrintT("MISMATCH " \o ToJson([l |-> l, kind |-> kind, n |-> n, first |-> first]))

\* up to three elements of a set of naturals
Few(S) ==
  IF S = {} THEN <<>>
  ELSE LET a == CHOOSE i \in S : TRUE
           S1 == S \ {a}
       IN IF S1 = {} THEN <<a>>
          ELSE LET b == CHOOSE i \in S1 : TRUE
                   S2 == S1 \ {b}
               IN IF S2 = {} THEN <<a, b>> ELSE <<a, b, CHOOSE i \in S2 : TRUE>>

\* got is admissible for compressed hash hr on the ring without x: the common case (one label at
\* the point, not removed) is decided from the table ow without building sets
OkAt(r, g, x) ==
  IF ow[r] # 0 /\ ow[r] # x THEN g = ow[r] ELSE g \in K!AnyTab(Trace[rl].points, ft, x, 2 * r)
Ok(hr, g, x) == OkAt(IF hr > 2 * Len(ft) \/ hr < 1 THEN 1 ELSE (hr + 1) \div 2, g, x)

Init == ow = <<>> /\ ft = <<>> /\ l = 1 /\ rl = 0 /\ ql = 0 /\ bl = 0 /\ xl = 0 /\ dl = 0

RingEv ==
  /\ Ev.ev = "ring"
  /\ LET seq == Ev.points
         f == K!Firsts(seq)
         ok == /\ K!SortedPairs(seq) /\ K!Dense(seq, f)
               /\ \A i \in 1..Len(seq) : seq[i][2] \in 1..Ev.n
               /\ {seq[i][2] : i \in 1..Len(seq)} = 1..Ev.n
         \* small rings: the table evaluation is cross-checked against the set definition
         self == IF Len(seq) > 400 THEN TRUE
                 ELSE LET ring == {<<seq[i][1], seq[i][2]>> : i \in 1..Len(seq)} IN
                      \A hr \in 1..(2 * Len(f) + 1) :
                        /\ K!AnyTab(seq, f, 0, hr) = K!RouteAny(ring, hr)
                        /\ \A x \in 1..Ev.n : Ev.n > 1 => K!AnyTab(seq, f, x, hr) = K!RouteAny(K!Without(ring, x), hr)
     IN /\ IF ok THEN TRUE ELSE Report("Malformed", 1, <<"ring">>)
        /\ IF ok /\ ~self THEN Report("Malformed", 1, <<"table">>) ELSE TRUE
  /\ rl' = l /\ ql' = 0 /\ bl' = 0 /\ xl' = 0 /\ dl' = 0 /\ ft' = K!Firsts(Ev.points)
  /\ ow' = LET seq == Ev.points f == K!Firsts(seq) IN
           [r \in 1..Len(f) |-> IF (IF r < Len(f) THEN f[r + 1] ELSE Len(seq) + 1) = f[r] + 1 THEN seq[f[r]][2] ELSE 0]

QueriesEv ==
  /\ Ev.ev = "queries"
  /\ LET m == Len(ft)
         bad == {i \in 1..Len(Ev.hs) : Ev.hs[i] \notin 1..(2 * m + 1)}
     IN IF bad = {} THEN TRUE ELSE Report("Malformed", Cardinality(bad), <<"hs">>)
  /\ ql' = l /\ bl' = 0 /\ xl' = 0 /\ dl' = 0 /\ UNCHANGED <<rl, ft, ow>>

RemoveEv ==
  /\ Ev.ev = "remove"
  /\ IF bl = 0 \/ Ev.x \notin 1..Trace[rl].n THEN Report("Malformed", 1, <<"remove">>) ELSE TRUE
  /\ xl' = l /\ dl' = 0 /\ UNCHANGED <<rl, ql, bl, ft, ow>>

RouteEv ==
  /\ Ev.ev = "route"
  /\ LET seq == Trace[rl].points
         f == ft
         n == Trace[rl].n
         hs == Trace[ql].hs
         got == Ev.labels
         Q == Len(hs)
         x == IF xl = 0 THEN 0 ELSE Trace[xl].x
         ref == IF bl = 0 THEN got ELSE Trace[bl].labels          \* full ring, first order
         der == IF xl = 0 THEN ref ELSE IF dl = 0 THEN got ELSE Trace[dl].labels
         refwho == IF xl = 0 THEN (IF bl = 0 THEN <<>> ELSE Trace[bl].order) ELSE (IF dl = 0 THEN <<>> ELSE Trace[dl].order)
         badRoute == {i \in 1..Q : (xl = 0 \/ ref[i] = x) /\ ~Ok(hs[i], got[i], x)}
         badOrder == {i \in 1..Q : got[i] # der[i]}
         badRemoval == IF xl = 0 THEN {} ELSE {i \in 1..Q : ref[i] # x /\ got[i] # ref[i]}
         nodes == (1..n) \ {x}
         seen == {got[i] : i \in 1..Q}
     IN
     /\ IF Len(got) # Q THEN Report("Malformed", 1, <<"route">>) ELSE TRUE
     /\ IF Len(got) = Q /\ badRoute # {}
        THEN Report("Route", Cardinality(badRoute),
                    [j \in DOMAIN Few(badRoute) |->
                       LET i == Few(badRoute)[j] IN
                       [i |-> i, h |-> hs[i], want |-> K!AnyTab(seq, f, x, hs[i]), got |-> got[i], x |-> x, order |-> Ev.order]])
        ELSE TRUE
     /\ IF Len(got) = Q /\ badOrder # {}
        THEN Report("Order", Cardinality(badOrder),
                    [j \in DOMAIN Few(badOrder) |->
                       LET i == Few(badOrder)[j] IN
                       [i |-> i, h |-> hs[i], want |-> der[i], got |-> got[i], x |-> x,
                        tied |-> K!AnyTab(seq, f, x, hs[i]), order |-> Ev.order, reforder |-> refwho]])
        ELSE TRUE
     /\ IF Len(got) = Q /\ badRemoval # {}
        THEN Report("Removal", Cardinality(badRemoval),
                    [j \in DOMAIN Few(badRemoval) |->
                       LET i == Few(badRemoval)[j] IN
                       [i |-> i, h |-> hs[i], want |-> ref[i], got |-> got[i], x |-> x,
                        tied |-> K!AnyTab(seq, f, x, hs[i]), order |-> Ev.order, reforder |-> Trace[bl].order]])
        ELSE TRUE
     /\ IF Len(got) = Q /\ Trace[ql].sample /\ Q >= ShareMin /\ ~(nodes \subseteq seen)
        THEN Report("Share", Cardinality(nodes \ seen), <<[want |-> nodes, got |-> seen, x |-> x, order |-> Ev.order]>>)
        ELSE TRUE
  /\ bl' = IF xl = 0 /\ bl = 0 THEN l ELSE bl
  /\ dl' = IF xl # 0 /\ dl = 0 THEN l ELSE dl
  /\ UNCHANGED <<rl, ql, xl, ft, ow>>

NoteEv == Ev.ev = "note" /\ UNCHANGED <<rl, ql, bl, xl, dl, ft, ow>>

Next == l <= Len(Trace) /\ l' = l + 1 /\ (RingEv \/ QueriesEv \/ RemoveEv \/ RouteEv \/ NoteEv)

Spec == Init /\ [][Next]_vars

\* every line of the trace was consumed
Accepted == TLCGet("stats").diameter - 1 = Len(Trace)
=============================================================================
