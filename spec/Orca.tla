-------------------------------- MODULE Orca --------------------------------
(***************************************************************************)
(* The orchestrators of rend (orcas/l1only.go, l1l2.go, l1l2batch.go) as    *)
(* pure "programs": for every client command the sequence of handler calls *)
(* it issues, one call per program counter value, and what it does with    *)
(* each result.  One handler call is the grain of atomicity: it is the     *)
(* unit at which another connection can be interleaved, at which a backend *)
(* fault can strike, and at which the harness records `hcall` events.      *)
(*                                                                         *)
(*   Call(shape, x, pc, tmp)        the call issued at pc                   *)
(*   After(shape, x, pc, tmp, res)  next pc (0 = finished), scratch, reply  *)
(*                                                                         *)
(* shape \in {"l1only", "main", "batch"}: the L1-only orchestrator, the    *)
(* L1/L2 orchestrator of the main port and the one of the batch port.      *)
(* A command x is a record [op, k, v, f, t].  Handler results are those of *)
(* Memcache.tla plus <<"apperr">> (the backend answered with an error      *)
(* status that is not a normal outcome of the request) and <<"ioerr">>     *)
(* (the backend connection failed).  Replies to the client are the         *)
(* Memcache results plus <<"error">> (an error reply, the connection stays *)
(* usable) and <<"closed">> (the server closed the client connection).     *)
(***************************************************************************)
EXTENDS Memcache

Shapes == {"l1only", "main", "batch"}

Cmd(op, k, v, f, t) == [op |-> op, k |-> k, v |-> v, f |-> f, t |-> t]

NoTmp == [v |-> <<>>, f |-> 0, e |-> 0]

IsErr(res) == res[1] \in {"apperr", "ioerr"}
\* what the server loop does with an error returned by the orchestrator
Fail(res)  == IF res[1] = "apperr" THEN <<"error">> ELSE <<"closed">>

L1(m, x, t) == [tier |-> "l1", r |-> Req(m, x.k, x.v, x.f, t)]
L2(m, x, t) == [tier |-> "l2", r |-> Req(m, x.k, x.v, x.f, t)]
\* a call that stores what an earlier call of the same command fetched
L1Store(m, x, tmp, t) == [tier |-> "l1", r |-> Req(m, x.k, tmp.v, tmp.f, t)]

Goto(pc, tmp) == [pc |-> pc, tmp |-> tmp, out |-> <<>>]
Done(out)     == [pc |-> 0, tmp |-> NoTmp, out |-> out]

\* The TTL argument that gives a new entry the deadline e when issued at `now`
\* (orcas/l1l2.go: the L1 copy is stored with L2's remaining lifetime)
TTLFor(now, e) == IF e >= Inf THEN 0
                  ELSE IF e - now <= RelMax /\ e - now > 0 THEN e - now
                  ELSE AbsBase + e

(***************************************************************************)
(* L1-only: every command is one call on L1.                               *)
(***************************************************************************)
L1OnlyCall(x, pc, tmp) == L1(x.op, x, x.t)
L1OnlyAfter(x, pc, tmp, res) == IF IsErr(res) THEN Done(Fail(res)) ELSE Done(res)

(***************************************************************************)
(* Main port, orcas/l1l2.go.                                               *)
(***************************************************************************)
MainCall(x, pc, tmp, now) ==
  CASE x.op = "set"     -> IF pc = 1 THEN L2("set", x, x.t) ELSE IF pc = 2 THEN L1("set", x, x.t) ELSE L1("delete", x, 0)
    [] x.op = "add"     -> IF pc = 1 THEN L2("add", x, x.t) ELSE L1("add", x, x.t)
    [] x.op = "replace" -> IF pc = 1 THEN L2("replace", x, x.t) ELSE L1("replace", x, x.t)
    [] x.op \in {"append", "prepend", "delete", "touch"}
                        -> IF pc = 1 THEN L2(x.op, x, x.t) ELSE L1(x.op, x, x.t)
    [] x.op = "get"     -> IF pc = 1 THEN L1("get", x, 0)
                           ELSE IF pc = 2 THEN L2("gete", x, 0)
                           ELSE IF pc = 3 THEN L1Store("set", x, tmp, TTLFor(now, tmp.e))
                           ELSE L1("delete", x, 0)
    [] x.op = "gat"     -> IF pc = 1 THEN L1("gat", x, x.t)
                           ELSE IF pc = 2 THEN L2("touch", x, x.t)
                           ELSE IF pc = 3 THEN L2("gat", x, x.t)
                           ELSE L1Store("add", x, tmp, x.t)

MainAfter(x, pc, tmp, res) ==
  CASE x.op = "set" ->
         IF pc = 1 THEN (IF IsErr(res) THEN Done(Fail(res)) ELSE Goto(2, tmp))
         ELSE IF pc = 2 THEN (IF IsErr(res) THEN Goto(3, tmp) ELSE Done(<<"ok">>))
         ELSE Done(<<"ok">>)                      \* whatever the compensating delete said
    [] x.op = "add" ->
         IF IsErr(res) THEN Done(Fail(res))
         ELSE IF res # <<"ok">> THEN Done(res)
         ELSE IF pc = 1 THEN Goto(2, tmp) ELSE Done(<<"ok">>)
    [] x.op \in {"replace", "append", "prepend", "delete", "touch"} ->
         IF IsErr(res) THEN Done(Fail(res))
         ELSE IF pc = 1 THEN (IF res = <<"ok">> THEN Goto(2, tmp) ELSE Done(res))
         ELSE Done(<<"ok">>)                      \* a miss in L1 after a hit in L2 is fine
    [] x.op = "get" ->
         IF pc = 1 THEN (IF IsErr(res) THEN Done(Fail(res))
                         ELSE IF res[1] = "hit" THEN Done(res) ELSE Goto(2, tmp))
         ELSE IF pc = 2 THEN (IF IsErr(res) THEN Done(Fail(res))
                              ELSE IF res[1] = "hit" THEN Goto(3, [v |-> res[2], f |-> res[3], e |-> res[4]])
                              ELSE Done(<<"miss">>))
         ELSE IF pc = 3 THEN (IF IsErr(res) THEN Goto(4, tmp) ELSE Done(<<"hit", tmp.v, tmp.f>>))
         ELSE Done(<<"hit", tmp.v, tmp.f>>)
    [] x.op = "gat" ->
         IF IsErr(res) THEN Done(Fail(res))
         ELSE IF pc = 1 THEN (IF res[1] = "hit" THEN Goto(2, [v |-> res[2], f |-> res[3], e |-> 0]) ELSE Goto(3, tmp))
         ELSE IF pc = 2 THEN (IF res = <<"ok">> THEN Done(<<"hit", tmp.v, tmp.f>>) ELSE Done(<<"miss">>))
         ELSE IF pc = 3 THEN (IF res[1] = "hit" THEN Goto(4, [v |-> res[2], f |-> res[3], e |-> 0]) ELSE Done(<<"miss">>))
         ELSE Done(<<"hit", tmp.v, tmp.f>>)       \* "exists" from the L1 add is fine

(***************************************************************************)
(* Batch port, orcas/l1l2batch.go: writes go to L2 and only refresh an     *)
(* entry L1 already has; reads do not back-fill.                           *)
(***************************************************************************)
BatchCall(x, pc, tmp, now) ==
  CASE x.op = "set"     -> IF pc = 1 THEN L2("set", x, x.t) ELSE IF pc = 2 THEN L1("replace", x, x.t) ELSE L1("delete", x, 0)
    [] x.op = "add"     -> IF pc = 1 THEN L2("add", x, x.t) ELSE L1("replace", x, x.t)
    [] x.op = "replace" -> IF pc = 1 THEN L2("replace", x, x.t) ELSE L1("replace", x, x.t)
    [] x.op \in {"append", "prepend", "delete", "touch"}
                        -> IF pc = 1 THEN L2(x.op, x, x.t) ELSE L1(x.op, x, x.t)
    [] x.op = "get"     -> IF pc = 1 THEN L1("get", x, 0) ELSE L2("get", x, 0)
    [] x.op = "gat"     -> IF pc = 1 THEN L2("gat", x, x.t) ELSE L1("touch", x, x.t)

BatchAfter(x, pc, tmp, res) ==
  CASE x.op = "set" ->
         IF pc = 1 THEN (IF IsErr(res) THEN Done(Fail(res)) ELSE Goto(2, tmp))
         ELSE IF pc = 2 THEN (IF IsErr(res) THEN Goto(3, tmp) ELSE Done(<<"ok">>))
         ELSE Done(<<"ok">>)
    [] x.op \in {"add", "replace", "append", "prepend", "delete", "touch"} ->
         IF IsErr(res) THEN Done(Fail(res))
         ELSE IF pc = 1 THEN (IF res = <<"ok">> THEN Goto(2, tmp) ELSE Done(res))
         ELSE Done(<<"ok">>)
    [] x.op = "get" ->
         IF IsErr(res) THEN Done(Fail(res))
         ELSE IF pc = 1 THEN (IF res[1] = "hit" THEN Done(res) ELSE Goto(2, tmp))
         ELSE Done(res)
    [] x.op = "gat" ->
         IF IsErr(res) THEN Done(Fail(res))
         ELSE IF pc = 1 THEN (IF res[1] = "hit" THEN Goto(2, [v |-> res[2], f |-> res[3], e |-> 0]) ELSE Done(<<"miss">>))
         ELSE Done(<<"hit", tmp.v, tmp.f>>)

Call(shape, x, pc, tmp, now) ==
  CASE shape = "l1only" -> L1OnlyCall(x, pc, tmp)
    [] shape = "main"   -> MainCall(x, pc, tmp, now)
    [] shape = "batch"  -> BatchCall(x, pc, tmp, now)

After(shape, x, pc, tmp, res) ==
  CASE shape = "l1only" -> L1OnlyAfter(x, pc, tmp, res)
    [] shape = "main"   -> MainAfter(x, pc, tmp, res)
    [] shape = "batch"  -> BatchAfter(x, pc, tmp, res)

(***************************************************************************)
(* One handler call executed against the tiers, and a whole command run    *)
(* without interruption (the sequential semantics).                         *)
(* s = [pc, tmp, l1, l2, out]                                              *)
(***************************************************************************)
Start(l1, l2) == [pc |-> 1, tmp |-> NoTmp, l1 |-> l1, l2 |-> l2, out |-> <<>>]

StepCall(shape, x, s, now) ==
  LET c == Call(shape, x, s.pc, s.tmp, now)
      a == Apply(IF c.tier = "l1" THEN s.l1 ELSE s.l2, now, c.r)
      n == After(shape, x, s.pc, s.tmp, a[2])
  IN  [pc |-> n.pc, tmp |-> n.tmp,
       l1 |-> IF c.tier = "l1" THEN a[1] ELSE s.l1,
       l2 |-> IF c.tier = "l2" THEN a[1] ELSE s.l2,
       out |-> n.out]

RECURSIVE RunCmd(_, _, _, _)
RunCmd(shape, x, s, now) == IF s.pc = 0 THEN s ELSE RunCmd(shape, x, StepCall(shape, x, s, now), now)

\* the reference: one map, one call
RefReply(ref, now, x) == Apply(ref, now, Req(x.op, x.k, x.v, x.f, x.t))

IsWriteCmd(x) == x.op \notin {"get", "gete"}

(***************************************************************************)
(* State predicates shared by the design configurations and the trace      *)
(* specifications.  They talk about the live part of the tiers only.       *)
(***************************************************************************)
\* C02: every key present in L1 is present in L2 with the same value and flags
SubsetVF(l1, l2, now) == \A k \in DOMAIN l1 :
   Live(l1, k, now) => (Live(l2, k, now) /\ l1[k].v = l2[k].v /\ l1[k].f = l2[k].f)
\* C09: ... and with the same expiry
SubsetE(l1, l2, now) == \A k \in DOMAIN l1 : Live(l1, k, now) => l1[k].e = l2[k].e
\* the authoritative tier is exactly the reference map (value, flags, expiry)
SameLive(a, b, now) == \A k \in DOMAIN a : View(a[k], now) = View(b[k], now)
=============================================================================
