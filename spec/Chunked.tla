------------------------------- MODULE Chunked -------------------------------
(***************************************************************************)
(* The chunked handler at backend-request granularity, for one client key  *)
(* (C05).  The backend holds a metadata slot and chunk slots 0..Max-1;     *)
(* every entry remembers the write that produced it (its token).           *)
(*                                                                         *)
(*   writers   set: metadata first (token, chunk count), then chunk 0..n-1 *)
(*             one backend request per step (add / replace variants give   *)
(*             up when the metadata request is refused)                    *)
(*   readers   get / get-and-touch: fetch the metadata; then the backend   *)
(*             processes the pipelined quiet gets of chunks 0..n-1 one at  *)
(*             a time - a missing chunk is SILENT - and finally the no-op; *)
(*             the reader then has the chunks that existed, in order       *)
(*             a get-and-touch that found the value then writes the        *)
(*             metadata record back (REPLACE: only if it still exists) to  *)
(*             refresh the expiry stored in it                             *)
(*   appenders append / prepend: read the item like a get (metadata, the   *)
(*             pipelined quiet gets of its chunks, no-op), give up when it *)
(*             does not assemble, then store the grown value like a set -  *)
(*             under a FRESH token (AppendToken = "old" models a re-store  *)
(*             under the token of the value that was read: the negative    *)
(*             control - old and new entries then pass for one write)      *)
(*   Lose(s)   the backend may drop any entry at any time (eviction)       *)
(*                                                                         *)
(* Reassembly rule (comments of chunked/handler.go): a hit only if every   *)
(* chunk carries the metadata's token AND as many chunks came back as the  *)
(* metadata announces; otherwise a miss.                                   *)
(*   AllOrNothing  every reader result is a miss or the complete value of  *)
(*                 one single writer                                       *)
(* CountRule = FALSE models a reader that does not compare the counts (the *)
(* negative control: TLC then finds a value no set ever wrote).            *)
(***************************************************************************)
EXTENDS Integers, Sequences, FiniteSets, TLC

CONSTANTS Writers, Readers, N, Kind, RKind, MaxChunks, LossBudget, CountRule, AppendToken

\* entries carry the token they were stored with (tok) and, for the verdict, the write that produced
\* their bytes (by); the handler can only see tok
VARIABLES meta, chunk, wpc, rpc, rmeta, rgot, rres, losses, apc, ameta, agot
vars == <<meta, chunk, wpc, rpc, rmeta, rgot, rres, losses, apc, ameta, agot>>
avars == <<apc, ameta, agot>>
Grows(w) == Kind[w] \in {"append", "prepend"}

None == [none |-> TRUE]
Slots == 0..(MaxChunks - 1)

\* alternatives for the configuration files
N32 == [w \in Writers |-> IF w = "w1" THEN 3 ELSE 2]
N23 == [w \in Writers |-> IF w = "w1" THEN 2 ELSE 3]
N22 == [w \in Writers |-> 2]
N10 == [w \in Writers |-> IF w = "w1" THEN 1 ELSE 0]
N11 == [w \in Writers |-> 1]
N12 == [w \in Writers |-> IF w = "w1" THEN 1 ELSE 2]
N64 == [w \in Writers |-> IF w = "w1" THEN 6 ELSE 4]
RGet == [r \in Readers |-> "get"]
RGat == [r \in Readers |-> "gat"]
RGetGat == [r \in Readers |-> IF r = "r1" THEN "get" ELSE "gat"]
KSetSet == [w \in Writers |-> "set"]
KSetAdd == [w \in Writers |-> IF w = "w1" THEN "set" ELSE "add"]
KSetRep == [w \in Writers |-> IF w = "w1" THEN "set" ELSE "replace"]
KSetApp == [w \in Writers |-> IF w = "w1" THEN "set" ELSE "append"]
KSetPre == [w \in Writers |-> IF w = "w1" THEN "set" ELSE "prepend"]

\* wpc: -3 = an appender still reading (apc: -1 = metadata next, 0..n-1 = quiet get of that chunk, n = no-op),
\*      -1 = metadata request next, 0..n-1 = that chunk next, n = done, -2 = refused
\* rpc: -1 = metadata request next, 0..n-1 = quiet get of that chunk next, n = no-op next,
\*      101 = metadata refresh of a get-and-touch next, 100 = done
Init ==
  /\ meta = None /\ chunk = [i \in Slots |-> None]
  /\ wpc = [w \in Writers |-> IF Grows(w) THEN -3 ELSE -1] /\ rpc = [r \in Readers |-> -1]
  /\ rmeta = [r \in Readers |-> None] /\ rgot = [r \in Readers |-> <<>>]
  /\ rres = [r \in Readers |-> <<"pending">>] /\ losses = 0
  /\ apc = [w \in Writers |-> -1] /\ ameta = [w \in Writers |-> None] /\ agot = [w \in Writers |-> <<>>]

\* the token a writer stores its entries with
Tok(w) == IF Grows(w) /\ AppendToken = "old" /\ ameta[w] # None THEN ameta[w].tok ELSE w

WMeta(w) ==
  /\ wpc[w] = -1
  /\ LET refused == (Kind[w] = "add" /\ meta # None) \/ (Kind[w] = "replace" /\ meta = None) IN
     IF refused THEN wpc' = [wpc EXCEPT ![w] = -2] /\ UNCHANGED meta
     ELSE meta' = [tok |-> Tok(w), n |-> N[w], by |-> w] /\ wpc' = [wpc EXCEPT ![w] = 0]
  /\ UNCHANGED <<chunk, rpc, rmeta, rgot, rres, losses, avars>>

WChunk(w) ==
  /\ wpc[w] \in 0..(N[w] - 1)
  /\ chunk' = [chunk EXCEPT ![wpc[w]] = [tok |-> Tok(w), i |-> wpc[w], by |-> w]]
  /\ wpc' = [wpc EXCEPT ![w] = @ + 1]
  /\ UNCHANGED <<meta, rpc, rmeta, rgot, rres, losses, avars>>

RMeta(r) ==
  /\ rpc[r] = -1
  /\ IF meta = None
     THEN rres' = [rres EXCEPT ![r] = <<"miss">>] /\ rpc' = [rpc EXCEPT ![r] = 100] /\ UNCHANGED rmeta
     ELSE rmeta' = [rmeta EXCEPT ![r] = meta] /\ rpc' = [rpc EXCEPT ![r] = 0] /\ UNCHANGED rres
  /\ UNCHANGED <<meta, chunk, wpc, rgot, losses, avars>>

RGetQ(r) ==
  /\ rmeta[r] # None /\ rpc[r] \in 0..(rmeta[r].n - 1)
  /\ rgot' = [rgot EXCEPT ![r] = IF chunk[rpc[r]] = None THEN @ ELSE Append(@, chunk[rpc[r]])]
  /\ rpc' = [rpc EXCEPT ![r] = @ + 1]
  /\ UNCHANGED <<meta, chunk, wpc, rmeta, rres, losses, avars>>

\* what the reader hands back once the no-op reply has arrived
Assemble(m, got) ==
  LET tokensOK == \A j \in DOMAIN got : got[j].tok = m.tok
      countOK  == Len(got) = m.n
  IN IF tokensOK /\ (countOK \/ ~CountRule)
     THEN <<"hit", m.by, m.n, [j \in 1..m.n |-> IF j <= Len(got) THEN <<got[j].by, got[j].i>> ELSE <<"zero", j - 1>>]>>
     ELSE <<"miss">>

RNoop(r) ==
  /\ rmeta[r] # None /\ rpc[r] = rmeta[r].n
  /\ rres' = [rres EXCEPT ![r] = Assemble(rmeta[r], rgot[r])]
  /\ rpc' = [rpc EXCEPT ![r] = IF RKind[r] = "gat" /\ Assemble(rmeta[r], rgot[r]) # <<"miss">> THEN 101 ELSE 100]
  /\ UNCHANGED <<meta, chunk, wpc, rmeta, rgot, losses, avars>>

\* get-and-touch: write the metadata record back, if there still is one
RRefresh(r) ==
  /\ rpc[r] = 101
  /\ meta' = IF meta = None THEN None ELSE rmeta[r]
  /\ rpc' = [rpc EXCEPT ![r] = 100]
  /\ UNCHANGED <<chunk, wpc, rmeta, rgot, rres, losses, avars>>

\* append / prepend: the read phase (same requests as a get), then the grown value is stored like a set
AMeta(w) ==
  /\ wpc[w] = -3 /\ apc[w] = -1
  /\ IF meta = None
     THEN wpc' = [wpc EXCEPT ![w] = -2] /\ UNCHANGED <<ameta, apc>>
     ELSE ameta' = [ameta EXCEPT ![w] = meta] /\ apc' = [apc EXCEPT ![w] = 0] /\ UNCHANGED wpc
  /\ UNCHANGED <<meta, chunk, rpc, rmeta, rgot, rres, losses, agot>>
AGetQ(w) ==
  /\ wpc[w] = -3 /\ ameta[w] # None /\ apc[w] \in 0..(ameta[w].n - 1)
  /\ agot' = [agot EXCEPT ![w] = IF chunk[apc[w]] = None THEN @ ELSE Append(@, chunk[apc[w]])]
  /\ apc' = [apc EXCEPT ![w] = @ + 1]
  /\ UNCHANGED <<meta, chunk, wpc, rpc, rmeta, rgot, rres, losses, ameta>>
ANoop(w) ==
  /\ wpc[w] = -3 /\ ameta[w] # None /\ apc[w] = ameta[w].n
  /\ wpc' = [wpc EXCEPT ![w] = IF Assemble(ameta[w], agot[w]) = <<"miss">> THEN -2 ELSE -1]
  /\ apc' = [apc EXCEPT ![w] = 100]
  /\ UNCHANGED <<meta, chunk, rpc, rmeta, rgot, rres, losses, ameta, agot>>

LoseMeta == /\ losses < LossBudget /\ meta # None /\ meta' = None /\ losses' = losses + 1
            /\ UNCHANGED <<chunk, wpc, rpc, rmeta, rgot, rres, avars>>
LoseChunk(i) == /\ losses < LossBudget /\ chunk[i] # None /\ chunk' = [chunk EXCEPT ![i] = None] /\ losses' = losses + 1
                /\ UNCHANGED <<meta, wpc, rpc, rmeta, rgot, rres, avars>>

Finished == (\A w \in Writers : wpc[w] \in {N[w], -2}) /\ (\A r \in Readers : rpc[r] = 100)

Next == \/ \E w \in Writers : WMeta(w) \/ WChunk(w) \/ AMeta(w) \/ AGetQ(w) \/ ANoop(w)
        \/ \E r \in Readers : RMeta(r) \/ RGetQ(r) \/ RNoop(r) \/ RRefresh(r)
        \/ LoseMeta \/ \E i \in Slots : LoseChunk(i)
        \/ (Finished /\ UNCHANGED vars)

Spec == Init /\ [][Next]_vars

FullValue(w) == <<"hit", w, N[w], [j \in 1..N[w] |-> <<w, j - 1>>]>>
AllOrNothing == \A r \in Readers : rres[r] \in {<<"pending">>, <<"miss">>} \cup {FullValue(w) : w \in Writers}
=============================================================================
