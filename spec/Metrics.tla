------------------------------ MODULE Metrics ------------------------------
(***************************************************************************)
(* Design model of rend's metrics package (metrics/counters.go,            *)
(* metrics/histograms.go): what a CORRECT implementation does.             *)
(*                                                                         *)
(* Histogram.  One histogram: the current period's data (count, kept,      *)
(* total, min, max, ring buffer `buf`) and a spare buffer `bak`.           *)
(* ObserveHist runs under the SHARED lock and is modelled operation by     *)
(* atomic operation:                                                       *)
(*   RLock; total += v; max: load / compare-and-swap loop; min: load /     *)
(*   compare-and-swap loop; count += 1; n := (kept += 1); buf[slot] := v;  *)
(*   RUnlock                                                               *)
(* The n-th kept observation of a period goes to slot (n-1) mod BufLen, so *)
(* that buf[0 .. min(kept,BufLen)-1] holds observations of this period     *)
(* only.  (IndexAfterInc = TRUE models the variant "slot n mod BufLen" -    *)
(* used by the check only to show that the invariants below are not        *)
(* vacuous; it is refuted after a single observation.)                     *)
(* The bucket counter increment of ObserveHist is not modelled here: it    *)
(* touches nothing a histogram report reads (see Bucket.tla).              *)
(* The reader (extractHist + hdatPercentiles) takes the EXCLUSIVE lock,    *)
(* copies the period data aside, resets it, swaps the buffers and unlocks  *)
(* (one step); afterwards, concurrently with new observers, it computes    *)
(* the report from the extracted copy (second step).  Buffers are never    *)
(* cleared: a swapped-in buffer still holds the observations of two        *)
(* periods ago.                                                            *)
(* Observations are identified by their number 1..MaxObs (`val` maps the   *)
(* number to the observed value); the buffers hold observation numbers     *)
(* (0 = never written), so that "a percentile is one of the period's       *)
(* observations" is decidable even when two periods see the same value.    *)
(* A percentile of the real code is an element of the sorted prefix        *)
(* buf[:min(kept,len)]; which one depends on the values, therefore the     *)
(* invariant is stated for every slot of that prefix.                      *)
(*                                                                         *)
(* Counters.  `Incs` goroutines add amounts to one counter.  AtomicAdd =   *)
(* TRUE: one step (atomic.AddUint64); FALSE: load and store are two steps  *)
(* (non-vacuity of CounterExact only).                                     *)
(***************************************************************************)
EXTENDS Integers, Sequences, FiniteSets, TLC

CONSTANTS Observers,      \* set of observer goroutines
          Vals,           \* observable values (positive integers below Big)
          BufLen,         \* ring size (the code: buflen+1 = 32768, index masked with buflen)
          MaxObs,         \* observations started in a behaviour
          MaxReads,       \* reports extracted in a behaviour
          IndexAfterInc,  \* FALSE = correct ring index
          Incs,           \* set of incrementer goroutines
          Amounts,        \* amounts a counter is incremented by
          MaxIncs,        \* increments started in a behaviour
          AtomicAdd       \* TRUE = the counter add is one atomic step

VARIABLES count, kept, total, minv, maxv, buf, bak,  \* period data, spare buffer
          rdrs,                                       \* holders of the shared lock
          opc, oid, otmp, oidx,                       \* observers: pc, observation number, loaded value, ring slot
          nobs, val, per,                             \* observations so far, their values, numbers of the current period
          rpc, ext, nreads, report,                   \* reader: pc, extracted copy, reports so far, last report
          ctr, ipc, iamt, itmp, ninc, applied         \* counter, incrementers, ghost sum of completed increments

hvars == <<count, kept, total, minv, maxv, buf, bak, rdrs, opc, oid, otmp, oidx, nobs, val, per, rpc, ext, nreads, report>>
cvars == <<ctr, ipc, iamt, itmp, ninc, applied>>
vars == <<hvars, cvars>>

Big == 1000                       \* stands for math.MaxUint64, the initial minimum
Slots == 0 .. BufLen - 1
NoExt == [count |-> 0, kept |-> 0, total |-> 0, min |-> Big, max |-> 0, per |-> {}]
NoRep == [n |-> -1]

ASSUME /\ \A v \in Vals : v \in 1 .. Big - 1
       /\ BufLen \in 1 .. 8 /\ MaxObs \in 0 .. 8 /\ MaxReads \in 0 .. 8 /\ MaxIncs \in 0 .. 8
       /\ \A a \in Amounts : a \in 1 .. 100

Init ==
  /\ count = 0 /\ kept = 0 /\ total = 0 /\ minv = Big /\ maxv = 0
  /\ buf = [i \in Slots |-> 0] /\ bak = [i \in Slots |-> 0]
  /\ rdrs = {}
  /\ opc = [o \in Observers |-> "idle"] /\ oid = [o \in Observers |-> 0]
  /\ otmp = [o \in Observers |-> 0] /\ oidx = [o \in Observers |-> 0]
  /\ nobs = 0 /\ val = [i \in 1 .. MaxObs |-> 0] /\ per = {}
  /\ rpc = "idle" /\ ext = NoExt /\ nreads = 0 /\ report = NoRep
  /\ ctr = 0 /\ ipc = [i \in Incs |-> "idle"] /\ iamt = [i \in Incs |-> 0] /\ itmp = [i \in Incs |-> 0]
  /\ ninc = 0 /\ applied = 0

(***************************************************************************)
(* ObserveHist                                                             *)
(***************************************************************************)
V(o) == val[oid[o]]
Goto(o, pc) == opc' = [opc EXCEPT ![o] = pc]

\* h.lock.RLock(): not while the reader holds the exclusive lock (the reader's critical section is one step)
ORLock(o) ==
  /\ opc[o] = "idle" /\ nobs < MaxObs
  /\ \E v \in Vals : val' = [val EXCEPT ![nobs + 1] = v]
  /\ nobs' = nobs + 1 /\ oid' = [oid EXCEPT ![o] = nobs + 1]
  /\ per' = per \cup {nobs + 1}          \* the observation belongs to the period in which it holds the lock
  /\ rdrs' = rdrs \cup {o} /\ Goto(o, "total")
  /\ UNCHANGED <<count, kept, total, minv, maxv, buf, bak, otmp, oidx, rpc, ext, nreads, report>>

\* atomic.AddUint64(&h.dat.total, value)
OTotal(o) ==
  /\ opc[o] = "total" /\ total' = total + V(o) /\ Goto(o, "maxld")
  /\ UNCHANGED <<count, kept, minv, maxv, buf, bak, rdrs, oid, otmp, oidx, nobs, val, per, rpc, ext, nreads, report>>

\* max := atomic.LoadUint64(&h.dat.max); if value < max break
OMaxLd(o) ==
  /\ opc[o] = "maxld" /\ otmp' = [otmp EXCEPT ![o] = maxv]
  /\ Goto(o, IF V(o) < maxv THEN "minld" ELSE "maxcas")
  /\ UNCHANGED <<count, kept, total, minv, maxv, buf, bak, rdrs, oid, oidx, nobs, val, per, rpc, ext, nreads, report>>
\* atomic.CompareAndSwapUint64(&h.dat.max, max, value) or retry
OMaxCas(o) ==
  /\ opc[o] = "maxcas"
  /\ IF maxv = otmp[o] THEN maxv' = V(o) /\ Goto(o, "minld") ELSE maxv' = maxv /\ Goto(o, "maxld")
  /\ UNCHANGED <<count, kept, total, minv, buf, bak, rdrs, oid, otmp, oidx, nobs, val, per, rpc, ext, nreads, report>>

OMinLd(o) ==
  /\ opc[o] = "minld" /\ otmp' = [otmp EXCEPT ![o] = minv]
  /\ Goto(o, IF V(o) > minv THEN "count" ELSE "mincas")
  /\ UNCHANGED <<count, kept, total, minv, maxv, buf, bak, rdrs, oid, oidx, nobs, val, per, rpc, ext, nreads, report>>
OMinCas(o) ==
  /\ opc[o] = "mincas"
  /\ IF minv = otmp[o] THEN minv' = V(o) /\ Goto(o, "count") ELSE minv' = minv /\ Goto(o, "minld")
  /\ UNCHANGED <<count, kept, total, maxv, buf, bak, rdrs, oid, otmp, oidx, nobs, val, per, rpc, ext, nreads, report>>

\* atomic.AddUint64(&h.dat.count, 1)
OCount(o) ==
  /\ opc[o] = "count" /\ count' = count + 1 /\ Goto(o, "kept")
  /\ UNCHANGED <<kept, total, minv, maxv, buf, bak, rdrs, oid, otmp, oidx, nobs, val, per, rpc, ext, nreads, report>>

\* n := atomic.AddUint64(&h.dat.kept, 1); slot of the n-th kept observation
OKept(o) ==
  /\ opc[o] = "kept" /\ kept' = kept + 1
  /\ oidx' = [oidx EXCEPT ![o] = (IF IndexAfterInc THEN kept + 1 ELSE kept) % BufLen]
  /\ Goto(o, "store")
  /\ UNCHANGED <<count, total, minv, maxv, buf, bak, rdrs, oid, otmp, nobs, val, per, rpc, ext, nreads, report>>

\* h.dat.buf[idx] = value; h.lock.RUnlock()  (the plain store is visible to the reader only after the unlock)
OStore(o) ==
  /\ opc[o] = "store" /\ buf' = [buf EXCEPT ![oidx[o]] = oid[o]]
  /\ rdrs' = rdrs \ {o} /\ Goto(o, "idle")
  /\ UNCHANGED <<count, kept, total, minv, maxv, bak, oid, otmp, oidx, nobs, val, per, rpc, ext, nreads, report>>

Observe(o) == OTotal(o) \/ OMaxLd(o) \/ OMaxCas(o) \/ OMinLd(o) \/ OMinCas(o) \/ OCount(o) \/ OKept(o) \/ OStore(o)

(***************************************************************************)
(* extractHist (exclusive lock) and hdatPercentiles (afterwards)           *)
(***************************************************************************)
RSwap ==
  /\ rpc = "idle" /\ rdrs = {} /\ nreads < MaxReads
  /\ ext' = [count |-> count, kept |-> kept, total |-> total, min |-> minv, max |-> maxv, per |-> per]
  /\ count' = 0 /\ kept' = 0 /\ total' = 0 /\ minv' = Big /\ maxv' = 0
  /\ buf' = bak /\ bak' = buf /\ per' = {}
  /\ rpc' = "report"
  /\ UNCHANGED <<rdrs, opc, oid, otmp, oidx, nobs, val, nreads, report>>

Prefix(k) == 0 .. (IF k < BufLen THEN k ELSE BufLen) - 1

RReport ==
  /\ rpc = "report"
  /\ report' = [n |-> nreads + 1, count |-> ext.count, kept |-> ext.kept, total |-> ext.total,
                min |-> ext.min, max |-> ext.max,
                slots |-> {bak[i] : i \in Prefix(ext.kept)},   \* a reported percentile is one of these
                per |-> ext.per]
  /\ rpc' = "idle" /\ nreads' = nreads + 1
  /\ UNCHANGED <<count, kept, total, minv, maxv, buf, bak, rdrs, opc, oid, otmp, oidx, nobs, val, per, ext>>

(***************************************************************************)
(* Counter                                                                 *)
(***************************************************************************)
IStart(i) ==
  /\ ipc[i] = "idle" /\ ninc < MaxIncs /\ ninc' = ninc + 1
  /\ \E a \in Amounts :
       IF AtomicAdd
       THEN /\ ctr' = ctr + a /\ applied' = applied + a
            /\ UNCHANGED <<ipc, iamt, itmp>>
       ELSE /\ iamt' = [iamt EXCEPT ![i] = a] /\ itmp' = [itmp EXCEPT ![i] = ctr]
            /\ ipc' = [ipc EXCEPT ![i] = "store"]
            /\ UNCHANGED <<ctr, applied>>
IStore(i) ==
  /\ ipc[i] = "store" /\ ctr' = itmp[i] + iamt[i] /\ applied' = applied + iamt[i]
  /\ ipc' = [ipc EXCEPT ![i] = "idle"]
  /\ UNCHANGED <<iamt, itmp, ninc>>

Next ==
  \/ (\E o \in Observers : ORLock(o) \/ Observe(o)) /\ UNCHANGED cvars
  \/ (RSwap \/ RReport) /\ UNCHANGED cvars
  \/ (\E i \in Incs : IStart(i) \/ IStore(i)) /\ UNCHANGED hvars

Spec == Init /\ [][Next]_vars

(***************************************************************************)
(* Properties of every extracted report                                    *)
(***************************************************************************)
ValOf(id) == IF id = 0 THEN 0 ELSE val[id]          \* a never written slot reads 0
PerVals(r) == {val[i] : i \in r.per}
Has == report # NoRep

\* the reported count is the number of observations of the period; so are kept and the total
CountExact == Has => /\ report.count = Cardinality(report.per)
                     /\ report.kept = report.count
TotalExact == Has => report.total = LET S[ids \in SUBSET (1 .. MaxObs)] ==
                                          IF ids = {} THEN 0 ELSE LET x == CHOOSE x \in ids : TRUE IN val[x] + S[ids \ {x}]
                                        IN S[report.per]
\* percentile 0 / 100 are the extremes of the period
MinMaxExact == (Has /\ report.count > 0) =>
                  /\ report.min \in PerVals(report) /\ \A v \in PerVals(report) : report.min <= v
                  /\ report.max \in PerVals(report) /\ \A v \in PerVals(report) : v <= report.max
\* every slot a percentile can come from holds an observation of the period ...
PctIsObservation == Has => report.slots \subseteq report.per
\* ... between the reported minimum and maximum
MinLePctLeMax == Has => \A s \in report.slots : report.min <= ValOf(s) /\ ValOf(s) <= report.max

\* a counter is the sum of the increments applied to it
CounterExact == ctr = applied

TypeOK == /\ count \in 0 .. MaxObs /\ kept \in 0 .. MaxObs /\ nobs \in 0 .. MaxObs
          /\ \A i \in Slots : buf[i] \in 0 .. MaxObs /\ bak[i] \in 0 .. MaxObs
          /\ rdrs \subseteq Observers /\ nreads \in 0 .. MaxReads
=============================================================================
