------------------------------ MODULE OrcaFault ------------------------------
(***************************************************************************)
(* Backend faults (C10).  One client connection at a time issues a short   *)
(* program; every handler call may, within a fault budget, be answered     *)
(* with an error status (request not applied), or lose its backend         *)
(* connection before the request is applied or after it is applied but     *)
(* before the reply arrives.  A lost backend connection stays lost for the *)
(* rest of the client connection (every later call on that tier fails),    *)
(* and the client connection is replaced by a fresh one once the server    *)
(* has closed it.  There is one client connection per port.                *)
(*                                                                         *)
(* The oracle is the set adm[k] of entries the reference map may hold: an  *)
(* acknowledged command narrows it to the worlds that explain the reply,   *)
(* a command that ended in an error reply or a closed connection widens it *)
(* by its possible effect.  After a fault a read may also miss.            *)
(*   Admissible   no reply contradicts every admissible world; in          *)
(*                particular no read returns a value from before an        *)
(*                acknowledged write or delete                             *)
(* KnownSetAck: when TRUE the scenario "set acknowledged although the L1   *)
(* write and the compensating L1 delete both failed" (pinned by the        *)
(* repository's own tests) is excluded from the invariant.                 *)
(***************************************************************************)
EXTENDS Orca, TLC

CONSTANTS Keys, Ports, MaxCmds, FaultBudget, KnownSetAck

VARIABLES l1, l2, adm, dead, port, pc, cmd, tmp, left, faults, faulted, kf, bad
vars == <<l1, l2, adm, dead, port, pc, cmd, tmp, left, faults, faulted, kf, bad>>

PIdle == -1
NoCmd == Cmd("none", "", <<>>, 0, 0)

Cmds ==
  {Cmd("set", k, <<v>>, 1, 0) : k \in Keys, v \in {1, 2}} \cup
  {Cmd(op, k, <<3>>, 0, 0) : op \in {"add", "replace"}, k \in Keys} \cup
  {Cmd("append", k, <<4>>, 0, 0) : k \in Keys} \cup
  {Cmd(op, k, <<>>, 0, 0) : op \in {"delete", "get"}, k \in Keys} \cup
  {Cmd(op, k, <<>>, 0, 2) : op \in {"touch", "gat"}, k \in Keys}

Init ==
  /\ l1 = [k \in Keys |-> None] /\ l2 = [k \in Keys |-> None] /\ adm = [k \in Keys |-> {None}]
  /\ dead = [p \in Ports |-> {}] /\ port = (CHOOSE p \in Ports : TRUE) /\ pc = PIdle /\ cmd = NoCmd /\ tmp = NoTmp
  /\ left = MaxCmds /\ faults = 0 /\ faulted = FALSE /\ kf = FALSE /\ bad = <<>>

Fits(x) == x.op = "append" => \A w \in adm[x.k] : (IF w = None THEN TRUE ELSE Len(w.v) <= 1)

Begin(p, x) ==
  /\ pc = PIdle /\ left > 0 /\ Fits(x)
  /\ port' = p /\ cmd' = x /\ pc' = 1 /\ tmp' = NoTmp /\ left' = left - 1
  /\ UNCHANGED <<l1, l2, adm, dead, faults, faulted, kf, bad>>

Uncertain(out) == out[1] \in {"error", "closed"}
ReqOf(x) == Req(x.op, x.k, x.v, x.f, x.t)
Explaining(A, r, res) == {w \in A : Class(EApply(w, 0, r)[2]) = res}
After1(A, r) == {View(EApply(w, 0, r)[1], 0) : w \in A}
MissOK(r, res, f) == f /\ r.m \in {"get", "gat"} /\ res = <<"miss">>

Finish(n, appliedL1, appliedL2, newdead, isfault, kfnow) ==
  /\ l1' = appliedL1 /\ l2' = appliedL2
  /\ faulted' = (faulted \/ isfault)
  /\ kf' = (kf \/ kfnow)
  /\ IF n.pc # 0
     THEN /\ pc' = n.pc /\ tmp' = n.tmp /\ dead' = newdead /\ UNCHANGED <<adm, bad, cmd>>
     ELSE LET r == ReqOf(cmd)  res == Class(n.out)  A == adm[cmd.k]  f == faulted \/ isfault IN
          /\ pc' = PIdle /\ tmp' = NoTmp /\ cmd' = NoCmd
          /\ dead' = IF n.out = <<"closed">> THEN [newdead EXCEPT ![port] = {}] ELSE newdead
          /\ IF Uncertain(n.out)
             THEN adm' = [adm EXCEPT ![cmd.k] = A \cup After1(A, r) \cup {None}] /\ UNCHANGED bad
             ELSE IF MissOK(r, res, f) THEN UNCHANGED <<adm, bad>>
             \* after a fault the tiers may disagree about an unacknowledged write: a read that is explained
             \* does not settle which of the admissible entries is "the" entry (same rule as OrcaTrace!Narrow)
             \* nor does a refusal (not found, exists, not stored): C10 speaks of writes and deletes that were
             \* ACKNOWLEDGED AS SUCCESSFUL - e.g. after a delete that failed half-way (gone from L2, still in L1) a
             \* second delete answers "not found" and a read still hits L1; no successful acknowledgement was given
             ELSE IF f /\ IsRead(r) /\ Explaining(A, r, res) # {} THEN UNCHANGED <<adm, bad>>
             \* (a refused write may even have been applied to one tier - an add refused by a stale L1 after L2
             \* took it: its value becomes admissible as well)
             \* - explained or not: a faulty backend may answer any request with a refusal status. (Such faults
             \* are placed on the real stack by the thorough tier; the design model has no action for them: the
             \* orchestrator programs of Orca.tla define After only for the results a healthy tier can give.)
             ELSE IF f /\ res = <<"fail">>
                  THEN adm' = [adm EXCEPT ![cmd.k] = A \cup After1(A, r)] /\ UNCHANGED bad
             \* a touch or get-and-touch does not say which entry is the entry either: all of them get the new expiry
             ELSE IF f /\ r.m \in {"touch", "gat"} /\ Explaining(A, r, res) # {}
                  THEN adm' = [adm EXCEPT ![cmd.k] = After1(A, r)] /\ UNCHANGED bad
             ELSE IF Explaining(A, r, res) = {}
                  THEN /\ bad' = <<"Admissible", cmd, n.out, A>> /\ adm' = [adm EXCEPT ![cmd.k] = After1(A, r)]
                  ELSE /\ adm' = [adm EXCEPT ![cmd.k] = After1(Explaining(A, r, res), r)] /\ UNCHANGED bad

Step ==
  /\ pc \in 1..4
  /\ LET call == Call(port, cmd, pc, tmp, 0)
         m == IF call.tier = "l1" THEN l1 ELSE l2
         a == Apply(m, 0, call.r)
         app1 == IF call.tier = "l1" THEN a[1] ELSE l1
         app2 == IF call.tier = "l2" THEN a[1] ELSE l2
         \* the compensating delete of a set (pc 3) failing is the known scenario
         comp == cmd.op = "set" /\ pc = 3
     IN
     IF call.tier \in dead[port]
     THEN \* the backend connection of this tier is gone: the call fails, nothing is applied
          /\ Finish(After(port, cmd, pc, tmp, <<"ioerr">>), l1, l2, dead, FALSE, comp) /\ UNCHANGED faults
     ELSE \/ /\ Finish(After(port, cmd, pc, tmp, a[2]), app1, app2, dead, FALSE, FALSE) /\ UNCHANGED faults
          \/ /\ faults < FaultBudget /\ faults' = faults + 1
             /\ \/ Finish(After(port, cmd, pc, tmp, <<"apperr">>), l1, l2, dead, TRUE, FALSE)
                \/ Finish(After(port, cmd, pc, tmp, <<"ioerr">>), l1, l2, [dead EXCEPT ![port] = @ \cup {call.tier}], TRUE, comp)
                \/ Finish(After(port, cmd, pc, tmp, <<"ioerr">>), app1, app2, [dead EXCEPT ![port] = @ \cup {call.tier}], TRUE, comp)
  /\ UNCHANGED <<port, left>>

AllDone == pc = PIdle /\ left = 0 /\ UNCHANGED vars

Next == (\E p \in Ports, x \in Cmds : Begin(p, x)) \/ Step \/ AllDone
Spec == Init /\ [][Next]_vars
FairSpec == Spec /\ WF_vars(Next)

Admissible == bad = <<>> \/ (KnownSetAck /\ kf)
\* every started command finishes (with a reply, an error reply, or a closed connection)
Terminates == <>[](pc = PIdle /\ left = 0)
=============================================================================
