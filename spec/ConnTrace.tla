------------------------------ MODULE ConnTrace ------------------------------
(***************************************************************************)
(* Validates the reply units observed on real client connections against   *)
(* Conn!Emit.  One event per request:                                      *)
(*   {ev:"x", proto, req:{kind,nk,quiet,noopend}, units:[[type,i],...],    *)
(*    stray: n, closed: bool, id: ...}                                     *)
(* `units` are the reply units the strict decoder attributed to the        *)
(* request (binary: by opaque; text: by position in the stream); `stray`   *)
(* counts units that could not be attributed to any request.  The outcome  *)
(* (which keys hit, whether a store succeeded) is not logged: it is        *)
(* inferred from the units, and the reply must then be exactly what Emit   *)
(* prescribes for that outcome.                                            *)
(***************************************************************************)
EXTENDS Replies, Json

CONSTANT TraceFile
Trace == ndJsonDeserialize(TraceFile)

VARIABLE l
Ev == Trace[l]

Report(kind, want, got) == PrintT("MISMATCH " \o ToJson([l |-> l, kind |-> kind, want |-> want, got |-> got]))

Has(units, t) == \E j \in DOMAIN units : units[j][1] = t

OutOf(req, units) ==
  IF req.kind = "get" THEN [i \in 1..req.nk |-> IF <<"hit", i>> \in Range(units) THEN "hit" ELSE "miss"]
  ELSE IF req.kind = "gat" THEN (IF Has(units, "hit") THEN "ok" ELSE IF Has(units, "nf") THEN "fail" ELSE "err")
  ELSE IF Has(units, "err") THEN "err"
  ELSE IF Has(units, "fail") THEN "fail"
  ELSE "ok"

\* an error reply to a get, or a closed connection, ends the request early: that is C10's business
Aborted == Ev.closed \/ (Ev.req.kind \in {"get", "gat"} /\ Has(Ev.units, "err"))

TInit == l = 1
TNext ==
  /\ l <= Len(Trace) /\ l' = l + 1
  /\ IF Ev.ev # "x" THEN TRUE
     ELSE /\ (IF Ev.stray > 0 THEN Report("Stray", 0, Ev.stray) ELSE TRUE)
          /\ (IF Aborted THEN TRUE
              ELSE LET o == OutOf(Ev.req, Ev.units) IN
                   IF Conforms(Ev.proto, Ev.req, o, Ev.units) THEN TRUE
                   ELSE Report("Units", Emit(Ev.proto, Ev.req, o), Ev.units))

TSpec == TInit /\ [][TNext]_l
=============================================================================
