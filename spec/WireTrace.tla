------------------------------ MODULE WireTrace ------------------------------
(***************************************************************************)
(* Validates what the real parsers (protocol/binprot, protocol/textprot)   *)
(* and the real server loop did against Wire.tla (C07, C11).  One event    *)
(* per line (ndjson), one TLC step per event; a disagreement is printed as *)
(* a MISMATCH line and the run goes on.                                    *)
(*                                                                         *)
(* decode  one request of a pipeline, parsed by the real parser under a    *)
(*         family of segmentations of the byte stream:                     *)
(*         {proto, pipe, idx, n, base, frames, sent, variants}             *)
(*         frames: what the harness's own encoder wrote for the request    *)
(*           binary [{op (opcode), keylen, extlen, total}], text           *)
(*           [{op, nk, linelen, dlen}]; base: offset of the request in the *)
(*           stream; sent: key / data digests, opaques, flags, exptime     *)
(*         variants: the distinct observations over all segmentations of   *)
(*           the family: {got, consumed, nseg, seg}; got has the decoded   *)
(*           op, keys, klens, opq, quiet, noopend, noopopq, flags, exp,    *)
(*           dlen, data (digests), err; consumed = bytes taken from the    *)
(*           stream when Parse returned.                                   *)
(*         The event with idx = n (sent.op = "eof") is the parse after the *)
(*         last request: it must find the end of the stream.               *)
(* mal     one malformed input: {proto, fam, level (parser | server), id,  *)
(*         c (binary case, Wire!Allowed) or t (text case, Wire!TAllowed),  *)
(*         class, read, allockb, ms, alive}                                *)
(*         class "capped": the process asked for allockb KiB in one block  *)
(*         and was stopped by the harness's address-space cap; only the    *)
(*         memory bound is judged (a frame that consistently declares that *)
(*         much may ask for it)                                            *)
(* detect  {byte, answered}: which protocol answered a connection whose    *)
(*         first byte was `byte`                                           *)
(* idle    {cpu_ms, wall_ms}: processor time of the server process while   *)
(*         all connections are idle or closed                              *)
(***************************************************************************)
EXTENDS Wire, Json

CONSTANT TraceFile
Trace == ndJsonDeserialize(TraceFile)

VARIABLE l
Ev == Trace[l]

Report(kind, want, got) == PrintT("MISMATCH " \o ToJson([l |-> l, kind |-> kind, want |-> want, got |-> got]))

RECURSIVE SumBytes(_, _)
SumBytes(hs, j) == IF j = 0 THEN 0 ELSE SumBytes(hs, j - 1) + FrameBytes(hs[j])

TBase(op) == IF op = "stats" THEN "stat" ELSE op

(* ---- decode ---- *)
BinHs == [i \in DOMAIN Ev.frames |->
            Hdr(OpName(Ev.frames[i].op), Ev.frames[i].keylen, Ev.frames[i].extlen,
                Ev.frames[i].total \div 65536, Ev.frames[i].total % 65536)]

IsTail == Ev.sent.op = "eof"

\* the input must be inside the property's quantifier: a harness bug otherwise
InputOK ==
  IF IsTail THEN TRUE
  ELSE IF Ev.proto = "bin"
  THEN Len(BinHs) >= 1 /\ WellGrouped(BinHs) /\ (\A i \in DOMAIN BinHs : Standard(BinHs[i]) /\ BinHs[i].thi <= 1)
  ELSE Len(Ev.frames) = 1 /\ Ev.frames[1].op \in TAllOps /\ Ev.frames[1].linelen >= 3

WantBytes == IF IsTail THEN 0 ELSE IF Ev.proto = "bin" THEN SumBytes(BinHs, Len(BinHs)) ELSE TFrameBytes(Ev.frames[1])

\* [op, quiet, noopend, klens, vlen] as Wire!Decode
WantBin == Decode(BinHs)
GroupOK(g) ==
  IF IsTail THEN g.op = "eof"
  ELSE IF Ev.proto = "bin"
  THEN /\ g.op = WantBin.op /\ g.quiet = WantBin.quiet /\ g.noopend = WantBin.noopend
       /\ g.klens = WantBin.klens /\ g.dlen = WantBin.vlen
  ELSE LET w == TDecode(Ev.frames[1]) IN
       /\ g.op = TBase(w.op) /\ Len(g.keys) = w.nk /\ g.dlen = w.vlen
       /\ g.noopend = FALSE /\ (\A i \in DOMAIN g.quiet : g.quiet[i] = FALSE)
WantGroup == IF IsTail THEN [op |-> "eof"] ELSE IF Ev.proto = "bin" THEN WantBin
             ELSE [op |-> TBase(Ev.frames[1].op), nk |-> Ev.frames[1].nk, vlen |-> TDecode(Ev.frames[1]).vlen]

FieldsOK(g) ==
  IsTail \/ (/\ g.keys = Ev.sent.keys /\ g.opq = Ev.sent.opq /\ g.flags = Ev.sent.flags /\ g.exp = Ev.sent.exp
             /\ g.data = Ev.sent.data /\ g.noopopq = Ev.sent.noopopq)

Brief(v) == [got |-> v.got, consumed |-> v.consumed, nseg |-> v.nseg, seg |-> v.seg]

CheckVariant(v) ==
  /\ (IF v.consumed = Ev.base + WantBytes THEN TRUE
      ELSE Report("Exact", [consumed |-> Ev.base + WantBytes], Brief(v)))
  /\ (IF GroupOK(v.got) THEN TRUE ELSE Report("Group", WantGroup, Brief(v)))
  /\ (IF GroupOK(v.got) /\ ~FieldsOK(v.got) THEN Report("Field", Ev.sent, Brief(v)) ELSE TRUE)

CheckDecode ==
  IF ~InputOK THEN Report("BadInput", "a well-formed request of the supported subset", Ev.frames)
  ELSE \A i \in DOMAIN Ev.variants : CheckVariant(Ev.variants[i])

(* ---- mal ---- *)
\* a request stopped by the cap is reported by the runtime rounded up to its 4 MiB growth unit
Slack == IF Ev.class = "capped" THEN 8192 ELSE 0
BinCase == [Ev.c EXCEPT !.op = OpName(Ev.c.op)]

CheckMalBin ==
  LET c == BinCase
      A == Allowed(c, Ev.level)
      lens == IF c.hdr < HdrLen THEN "short header" ELSE IF ~c.magic THEN "bad magic"
              ELSE IF Contradictory(c) THEN "total<key+ext" ELSE IF c.op \notin KnownOps THEN "unknown opcode"
              ELSE IF Standard(c) THEN "standard" ELSE "consistent, unusual"
      info == [opclass |-> OpClass(c.op), op |-> c.op, lens |-> lens, level |-> Ev.level, pos |-> c.pos, eof |-> c.eof]
  IN
  /\ (IF Ev.class = "capped" THEN TRUE
      ELSE IF Ev.class = "crash" THEN Report("Crash", [allowed |-> A, info |-> info], Ev.class)
      ELSE IF Ev.class \notin A THEN Report("Outcome", [allowed |-> A, info |-> info], Ev.class) ELSE TRUE)
  /\ (IF Ev.allockb > AllocBoundKiB(c) + Slack THEN Report("Alloc", [boundkb |-> AllocBoundKiB(c), info |-> info], Ev.allockb) ELSE TRUE)
  /\ (IF c.hdr = HdrLen /\ c.magic /\ Contradictory(c) /\ Ev.read > ReadBound(c)
      THEN Report("Await", [bound |-> ReadBound(c), info |-> info], Ev.read) ELSE TRUE)
  /\ (IF Ev.alive THEN TRUE ELSE Report("Alive", [info |-> info], Ev.class))

CheckMalText ==
  LET t == Ev.t
      A == TAllowed(t, Ev.level)
      info == [opclass |-> "text", op |-> t.kind, lens |-> t.kind, level |-> Ev.level, pos |-> "first", eof |-> t.eof]
  IN
  /\ (IF Ev.class = "capped" THEN TRUE
      ELSE IF Ev.class = "crash" THEN Report("Crash", [allowed |-> A, info |-> info], Ev.class)
      ELSE IF Ev.class \notin A THEN Report("Outcome", [allowed |-> A, info |-> info], Ev.class) ELSE TRUE)
  /\ (IF Ev.allockb > TAllocBoundKiB(t) + Slack THEN Report("Alloc", [boundkb |-> TAllocBoundKiB(t), info |-> info], Ev.allockb) ELSE TRUE)
  /\ (IF Ev.alive THEN TRUE ELSE Report("Alive", [info |-> info], Ev.class))

(* ---- detect, idle ---- *)
CheckDetect ==
  LET want == FirstByteChoice(Ev.byte) IN
  IF want \in {"bin", "text"} /\ Ev.answered # want THEN Report("Detect", want, Ev.answered) ELSE TRUE

CheckIdle == IF Ev.cpu_ms * 2 > Ev.wall_ms THEN Report("Spin", Ev.wall_ms, Ev.cpu_ms) ELSE TRUE

TInit == l = 1 /\ Parked
TNext ==
  /\ l <= Len(Trace) /\ l' = l + 1
  /\ IF Ev.ev = "decode" THEN CheckDecode
     ELSE IF Ev.ev = "mal" THEN (IF Ev.proto = "bin" THEN CheckMalBin ELSE CheckMalText)
     ELSE IF Ev.ev = "detect" THEN CheckDetect
     ELSE IF Ev.ev = "idle" THEN CheckIdle
     ELSE TRUE
  /\ UNCHANGED vars

TSpec == TInit /\ [][TNext]_<<l, vars>>
=============================================================================
