---------------------------- MODULE MetricsTrace ----------------------------
(***************************************************************************)
(* Validation of what rend's metrics package reported (harness driver      *)
(* "metrics": public API + the real /metrics HTTP handler) against the     *)
(* properties of Metrics.tla and the bucket function of Bucket.tla.        *)
(*                                                                         *)
(* One ndjson line = one event = one TLC step (run with -workers 1):       *)
(*   hist     one reporting period of one histogram, observed              *)
(*            sequentially: {obs: [v..], report: {count, kept, min, max,   *)
(*            pcts: [p0, p5, .., p100, p99, p99.9]}, sampled}              *)
(*   conc     concurrent observers and a polling reader on one histogram:  *)
(*            {bylo: [[[v, hi]..]..], wide: [[v, lo, hi]..], reports:      *)
(*            [report..]} - an observation was made in one of the periods  *)
(*            lo..hi (the number of fetches completed before it started .. *)
(*            started before it returned); reports[p+1] is the report of   *)
(*            period p; bylo[lo+1] groups the brackets of at most 3        *)
(*            periods (so that a period is compared with 3 groups instead  *)
(*            of with every observation)                                   *)
(*   counter  {incs: [[amount, times]..], reported, polled: [..]}          *)
(*   gauge    {set, reported}                                              *)
(*   buckets  {pairs: [[n, bucket, bound]..]} from the real getBucket and  *)
(*            bucketValues, sorted by n, n < 2^30                          *)
(*   bhist    {obsb: [getBucket(v) of every observation], counts:          *)
(*            [[bucket, reported count]..]}                                *)
(*   lz       {pairs: [[x, lzcnt(x)]..]}, x < 2^30                         *)
(* Observed values are ranks (order and equality are kept, nothing else is *)
(* looked at), so that 63-bit observations fit TLC's integers.             *)
(*                                                                         *)
(* A disagreement does not stop the run: it prints                         *)
(*   "MISMATCH {l, kind, want, got}"                                       *)
(* and validation continues; tools/metrics.py turns the lines into         *)
(* verdicts and checks that every line was consumed.                       *)
(***************************************************************************)
EXTENDS Integers, Sequences, FiniteSets, TLC, Json, SequencesExt

CONSTANT TraceFile

B == INSTANCE Bucket WITH n <- 0, m <- 0

Trace == ndJsonDeserialize(TraceFile)

VARIABLE l
Ev == Trace[l]

Report(kind, want, got) == PrintT("MISMATCH " \o ToJson([l |-> l, kind |-> kind, want |-> want, got |-> got]))
Check(ok, kind, want, got) == IF ok THEN TRUE ELSE Report(kind, want, got)

SeqSet(s) == {s[i] : i \in DOMAIN s}

(***************************************************************************)
(* One period observed sequentially                                        *)
(***************************************************************************)
Hist ==
  /\ Ev.ev = "hist"
  /\ LET obs == Ev.obs
         r   == Ev.report
         O   == SeqSet(obs)
         P   == r.pcts
     IN
     /\ Check(r.count = Len(obs), "CountExact", Len(obs), r.count)
     \* a report without percentile lines (nothing was kept in the period) claims nothing about them
     /\ IF r.count > 0 /\ Len(P) > 0
        THEN /\ LET bad == {i \in DOMAIN P : P[i] < r.min \/ P[i] > r.max}
                IN Check(bad = {}, "MinLePctLeMax", {}, bad)
             /\ LET bad == {i \in DOMAIN P : P[i] \notin O}
                IN Check(bad = {}, "PctIsObservation", {}, bad)
             /\ Check(/\ r.min \in O /\ r.max \in O
                      /\ \A v \in O : r.min <= v /\ v <= r.max,
                      "MinMaxExact", "extremes of the observations", <<r.min, r.max>>)
        ELSE TRUE

(***************************************************************************)
(* Concurrent observers, polling reader                                    *)
(***************************************************************************)
SumCounts(rs) == FoldLeft(LAMBDA acc, r : acc + r.count, 0, rs)

Conc ==
  /\ Ev.ev = "conc"
  /\ LET R  == Ev.reports
         G  == Ev.bylo       \* G[lo + 1] = <<v, hi>> of the observations with bracket lo .. hi, hi - lo <= 2
         W  == Ev.wide       \* <<v, lo, hi>> of the few observations with a wider bracket
         InG(lo) == lo >= 0 /\ lo < Len(G)
         \* members of group lo that may belong to period p
         May(lo, p) == IF InG(lo) THEN {i \in DOMAIN G[lo + 1] : G[lo + 1][i][2] >= p} ELSE {}
         MayW(p) == {i \in DOMAIN W : W[i][2] <= p /\ p <= W[i][3]}
         Def(p)  == IF InG(p) THEN {i \in DOMAIN G[p + 1] : G[p + 1][i][2] = p} ELSE {}   \* certainly observed in p
         NPos(p) == Cardinality(May(p - 2, p)) + Cardinality(May(p - 1, p)) + Cardinality(May(p, p)) + Cardinality(MayW(p))
         ValsOf(lo, p) == IF InG(lo) THEN {G[lo + 1][i][1] : i \in May(lo, p)} ELSE {}
         PV(p) == ValsOf(p - 2, p) \cup ValsOf(p - 1, p) \cup ValsOf(p, p) \cup {W[i][1] : i \in MayW(p)}
         DV(p) == IF InG(p) THEN {G[p + 1][i][1] : i \in Def(p)} ELSE {}
         nobs == FoldLeft(LAMBDA acc, g : acc + Len(g), 0, G) + Len(W)
     IN
     \* the event is well formed (a driver problem otherwise)
     /\ Check(/\ Len(G) = Len(R) /\ nobs = Ev.nobs
              /\ \A q \in DOMAIN G : \A i \in DOMAIN G[q] : G[q][i][2] - (q - 1) \in 0 .. 2
              /\ \A i \in DOMAIN W : W[i][2] <= W[i][3] /\ W[i][3] < Len(R),
              "TraceShape", "brackets", l)
     \* no observation lost, none reported twice
     /\ Check(SumCounts(R) = nobs, "CountExact", nobs, [total |-> SumCounts(R)])
     \* nothing is left after the observers have stopped and the remainder was fetched
     /\ Check(R[Len(R)].count = 0, "CountExact", 0, [p |-> Len(R) - 1, count |-> R[Len(R)].count])
     /\ \A q \in DOMAIN R :
          LET p  == q - 1
              r  == R[q]
          IN
          /\ Check(Cardinality(Def(p)) <= r.count /\ r.count <= NPos(p), "CountExact",
                   <<Cardinality(Def(p)), NPos(p)>>, [p |-> p, count |-> r.count])
          /\ IF r.count > 0
             THEN LET pv == PV(p) IN
                  /\ LET bad == {i \in DOMAIN r.pcts : r.pcts[i] < r.min \/ r.pcts[i] > r.max}
                     IN Check(bad = {}, "MinLePctLeMax", {}, [p |-> p, idx |-> bad])
                  /\ LET bad == {i \in DOMAIN r.pcts : r.pcts[i] \notin pv}
                     IN Check(bad = {}, "PctIsObservation", {}, [p |-> p, idx |-> bad])
                  /\ Check(/\ r.min \in pv /\ r.max \in pv
                           /\ \A v \in DV(p) : r.min <= v /\ v <= r.max,
                           "MinMaxExact", "extremes of the period", [p |-> p, min |-> r.min, max |-> r.max])
             ELSE TRUE

(***************************************************************************)
(* Counters and gauges                                                     *)
(***************************************************************************)
SumIncs(s) == FoldLeft(LAMBDA acc, e : acc + e[1] * e[2], 0, s)      \* e = <<amount, times>>

Counter ==
  /\ Ev.ev = "counter"
  /\ LET sum == SumIncs(Ev.incs)  pol == Ev.polled IN
     /\ Check(Ev.reported = sum, "CounterExact", sum, Ev.reported)
     \* what a concurrent reader saw never decreases and never exceeds the final sum
     /\ Check(/\ \A i \in DOMAIN pol : pol[i] <= sum
              /\ \A i \in DOMAIN pol : i > 1 => pol[i - 1] <= pol[i],
              "CounterMonotone", sum, pol)

Gauge ==
  /\ Ev.ev = "gauge"
  /\ Check(Ev.reported = Ev.set, "GaugeLast", Ev.set, Ev.reported)

(***************************************************************************)
(* The bucket a value is counted in, the bit count                         *)
(***************************************************************************)
Buckets ==
  /\ Ev.ev = "buckets"
  /\ LET ps == Ev.pairs IN
     /\ \A i \in DOMAIN ps :
          LET x == ps[i][1]  b == ps[i][2]  bound == ps[i][3] IN
          /\ Check(b = B!GetBucket(x), "BucketConform", B!GetBucket(x), [n |-> x, bucket |-> b])
          /\ Check(b \in 0 .. B!NumBuckets - 1, "InRange", B!NumBuckets, [n |-> x, bucket |-> b])
          /\ IF b + 1 \in DOMAIN B!BucketValues
             THEN Check(bound = B!Bound(b), "BoundConform", B!Bound(b), [n |-> x, bucket |-> b, bound |-> bound])
             ELSE TRUE
          /\ Check(bound >= x, "UpperBound", x, [n |-> x, bucket |-> b, bound |-> bound])
          /\ IF i > 1 /\ ps[i - 1][1] <= x
             THEN Check(ps[i - 1][2] <= b, "Monotone", [n |-> ps[i - 1][1], bucket |-> ps[i - 1][2]], [n |-> x, bucket |-> b])
             ELSE TRUE

BHist ==
  /\ Ev.ev = "bhist"
  /\ LET ob == Ev.obsb  cs == Ev.counts
         total == FoldLeft(LAMBDA acc, e : acc + e[2], 0, cs)
     IN
     /\ \A j \in DOMAIN cs :
          LET want == Cardinality({i \in DOMAIN ob : ob[i] = cs[j][1]})
          IN Check(cs[j][2] = want, "BucketCount", want, [bucket |-> cs[j][1], count |-> cs[j][2]])
     /\ Check(total = Len(ob), "BucketCount", Len(ob), [total |-> total])

Lz ==
  /\ Ev.ev = "lz"
  /\ \A i \in DOMAIN Ev.pairs :
       LET x == Ev.pairs[i][1]
           want == IF x = 0 THEN 64 ELSE 63 - B!FloorLog2(x)
       IN Check(Ev.pairs[i][2] = want, "Lzcnt", want, [x |-> x, lzcnt |-> Ev.pairs[i][2]])

Init == l = 1
Next == l <= Len(Trace) /\ l' = l + 1 /\ (Hist \/ Conc \/ Counter \/ Gauge \/ Buckets \/ BHist \/ Lz)
Spec == Init /\ [][Next]_l
=============================================================================
