-------------------------------- MODULE Conn --------------------------------
(***************************************************************************)
(* Design check of the reply discipline (C08) over pipelines of requests.  *)
(* The rules themselves (Emit, Conforms) are in Replies.tla.               *)
(***************************************************************************)
EXTENDS Replies

(***************************************************************************)
(* Design check: a text client attributes replies by position.  Parsing    *)
(* the concatenated stream of a pipeline request by request (a get owns    *)
(* everything up to and including the first terminator, any other request  *)
(* owns one unit) must give every request exactly its own units.           *)
(***************************************************************************)
CONSTANTS MaxPipe, MaxKeys

Kinds == {"store", "del", "touch", "get", "noop", "version", "unknown", "badnum"}
BoolSeqs(n) == [1..n -> BOOLEAN]
Reqs == {[kind |-> k, nk |-> 0, quiet |-> <<q>>, noopend |-> FALSE] : k \in Kinds \ {"get"}, q \in BOOLEAN} \cup
        {[kind |-> "get", nk |-> n, quiet |-> qs, noopend |-> ne] : n \in 1..MaxKeys, qs \in UNION {BoolSeqs(m) : m \in 1..MaxKeys}, ne \in BOOLEAN}
WF(r) == r.kind = "get" => (Len(r.quiet) = r.nk /\ (~r.noopend => ~r.quiet[r.nk]))
Outs(r) == IF r.kind = "get" THEN [1..r.nk -> {"hit", "miss"}]
           ELSE IF r.kind \in {"unknown", "badnum"} THEN {"err"}
           ELSE IF r.kind \in {"noop", "version"} THEN {"ok"} ELSE {"ok", "fail", "err"}

VARIABLES pipe, stream, owner
\* pipe: requests sent so far with their outcomes; stream: units with the index of the request
\* that produced them; owner: for each unit, the request a positional (text) client attributes it to
vars == <<pipe, stream, owner>>

Init == pipe = <<>> /\ stream = <<>> /\ owner = <<>>

\* positional attribution of a unit sequence to request number n
Attribute(n, units) == [j \in DOMAIN units |-> n]

Send(r, o) ==
  /\ Len(pipe) < MaxPipe /\ WF(r)
  /\ LET n == Len(pipe) + 1
         u == Emit("text", [r EXCEPT !.quiet = [j \in DOMAIN r.quiet |-> FALSE], !.noopend = FALSE], o)
     IN /\ pipe' = Append(pipe, [r |-> r, o |-> o])
        /\ stream' = stream \o [j \in DOMAIN u |-> <<u[j], n>>]
        /\ owner' = owner \o Attribute(n, u)

Next == \E r \in Reqs : \E o \in Outs(r) : Send(r, o)
Spec == Init /\ [][Next]_vars

\* re-parse the whole text stream positionally: request n owns one unit, or for a get all units
\* up to and including the next terminator
RECURSIVE Parse(_, _, _)
Parse(n, pos, acc) ==
  IF n > Len(pipe) THEN acc
  ELSE IF pipe[n].r.kind = "get"
       THEN LET ends == {j \in pos..Len(stream) : stream[j][1][1] = "term"}
                e == IF ends = {} THEN Len(stream) ELSE CHOOSE j \in ends : \A k \in ends : j <= k
            IN Parse(n + 1, e + 1, acc \o [j \in 1..(e - pos + 1) |-> n])
       ELSE Parse(n + 1, pos + 1, acc \o <<n>>)

PositionalOK == Parse(1, 1, <<>>) = [j \in DOMAIN stream |-> stream[j][2]]
OneTermPerGet == \A n \in DOMAIN pipe : pipe[n].r.kind = "get" =>
                   Cardinality({j \in DOMAIN stream : stream[j][2] = n /\ stream[j][1][1] = "term"}) = 1
OneReplyPerNonQuiet == \A n \in DOMAIN pipe : pipe[n].r.kind \in {"store", "del", "touch", "unknown", "badnum", "version"} =>
                   Cardinality({j \in DOMAIN stream : stream[j][2] = n}) = 1
=============================================================================
