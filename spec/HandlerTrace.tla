---------------------------- MODULE HandlerTrace ----------------------------
(***************************************************************************)
(* Validation of SEQUENTIAL call/return traces of any handlers.Handler      *)
(* (the interface every backend of rend implements) against the reference   *)
(* map of Memcache.tla.                                                     *)
(*                                                                         *)
(* The trace is ndjson, one event per line, one TLC step per line:          *)
(*   {"ev":"reset", ...}      a new trace starts: empty map, clock 0        *)
(*   {"ev":"call", "m":method, "k":key, "ks":[keys], "v":[blocks], "f":f,   *)
(*    "t":ttlcode, "res":[...], "post":[...]}                               *)
(*        m    set add replace append prepend delete touch get gete gat,    *)
(*             or mget / mgete: one Get / GetE call for the keys ks         *)
(*        res  the result in the vocabulary of Memcache.tla mapped through  *)
(*             Class:  ["ok"] ["fail"] ["hit",[blocks],f] ["miss"]; for     *)
(*             mget/mgete the sequence of the per-key results; anything    *)
(*             else (["error",..] ["malformed",..]) is a mismatch           *)
(*        post OPTIONAL observation of the key's live content right after   *)
(*             the call, made by the driver outside the trace (inspection  *)
(*             of the backend, or a read that is not itself logged):        *)
(*             ["none"] or ["e",[blocks],f];  [] when it was not observed   *)
(*   {"ev":"tick"}            the clock advanced by one unit                *)
(*   anything else            ignored (one step, no effect)                 *)
(* Every call event carries all the fields (unused ones are "" [] 0).       *)
(*                                                                         *)
(* Compared: ok/fail, hit/miss, value, flags.  NOT compared: the deadline   *)
(* (handlers expose it differently or not at all); expiry is checked by     *)
(* behaviour (tick events).                                                 *)
(*                                                                         *)
(* A disagreement is printed as a line  MISMATCH {json}  and the run        *)
(* CONTINUES: the model is resynchronised from what was observed (post if   *)
(* present, else the reply when it determines the entry), so that one       *)
(* defect is reported where it happens and not again by every later call.   *)
(* kind Reply: the reply is not the reference's; kind State: the reply was  *)
(* right but the entry left behind is not the reference's.                  *)
(***************************************************************************)
EXTENDS Memcache, TLC, Json

CONSTANTS Keys, TraceFile

Trace == ndJsonDeserialize(TraceFile)

VARIABLES l, mem, now
vars == <<l, mem, now>>

Ev == Trace[l]

\* how the key stood in the reference when the call was made
Case(x) == IF x = None THEN "missing key" ELSE IF x.e > now THEN "existing key" ELSE "expired key"

Report(kind, m, key, case, want, got) ==
  PrintT("MISMATCH " \o ToJson([l |-> l, kind |-> kind, m |-> m, key |-> key, case |-> case, want |-> want, got |-> got]))

\* the reference's result as a handler can show it: classes, and no deadline
Shown(res) == IF res[1] = "hit" THEN <<"hit", res[2], res[3]>> ELSE Class(res)

\* deadline given to an entry the model learns about only from an observation
KeepE(x) == IF LiveE(x, now) THEN x.e ELSE Inf

\* the observed post-state, as <<"none">> / <<"e", v, f>>, of a reference entry
PostOf(x) == IF LiveE(x, now) THEN <<"e", x.v, x.f>> ELSE <<"none">>
FromPost(post, x) == IF post[1] = "e" /\ Len(post) >= 3 THEN Entry(post[2], post[3], KeepE(x)) ELSE None

\* the entry a (mismatching) reply implies, when it implies one; else the reference's own successor x1
FromReply(r, x, x1, got) ==
  IF Len(got) = 0 THEN x1
  ELSE IF got[1] = "hit" /\ Len(got) >= 3 THEN Entry(got[2], got[3], KeepE(x1))
  ELSE IF got = <<"miss">> THEN None
  ELSE IF got = <<"ok">> /\ r.m \in {"set", "add", "replace"} THEN ESet(x, now, r.v, r.f, r.t)[1]
  ELSE IF got = <<"ok">> /\ r.m = "delete" THEN None
  ELSE IF got = <<"fail">> /\ r.m \in {"replace", "append", "prepend", "touch", "delete"} THEN None
  ELSE x1

Init == l = 1 /\ mem = [k \in Keys |-> None] /\ now = 0

Reset == mem' = [k \in Keys |-> None] /\ now' = 0

Tick == now' = now + 1 /\ UNCHANGED mem

Skip == UNCHANGED <<mem, now>>

Single ==
  LET k == Ev.k IN
  IF k \notin Keys \/ Ev.m \notin Methods
  THEN Report("BadEvent", Ev.m, k, "", <<>>, Ev.res) /\ Skip
  ELSE
  LET r    == Req(Ev.m, k, Ev.v, Ev.f, Ev.t)
      x    == mem[k]
      o    == EApply(x, now, r)
      x1   == o[1]
      want == Shown(o[2])
      got  == Ev.res
      post == Ev.post
      seen == Len(post) > 0
  IN
  /\ IF want # got THEN Report("Reply", Ev.m, k, Case(x), want, got) ELSE TRUE
  /\ IF want = got /\ seen /\ post # PostOf(x1) THEN Report("State", Ev.m, k, Case(x), PostOf(x1), post) ELSE TRUE
  /\ mem' = [mem EXCEPT ![k] =
               IF seen THEN (IF post = PostOf(x1) THEN x1 ELSE FromPost(post, x1))
               ELSE IF want = got THEN x1 ELSE FromReply(r, x, x1, got)]
  /\ UNCHANGED now

\* one Get / GetE call for several keys (a key may occur twice): a read of each, in order
Multi ==
  LET ks  == Ev.ks
      res == Ev.res
      m   == IF Ev.m = "mget" THEN "get" ELSE "gete"
      Want(i) == Shown(EApply(mem[ks[i]], now, Req(m, ks[i], <<>>, 0, 0))[2])
      Bad(i)  == i > Len(res) \/ (IF i <= Len(res) THEN Want(i) # res[i] ELSE TRUE)
  IN
  IF \E i \in DOMAIN ks : ks[i] \notin Keys
  THEN Report("BadEvent", Ev.m, "", "", <<>>, res) /\ Skip
  ELSE
  /\ IF Len(res) # Len(ks) THEN Report("Reply", Ev.m, "", "count", Len(ks), Len(res)) ELSE TRUE
  /\ \A i \in DOMAIN ks :
       IF i <= Len(res)
       THEN (IF Want(i) # res[i] THEN Report("Reply", Ev.m, ks[i], Case(mem[ks[i]]), Want(i), res[i]) ELSE TRUE)
       ELSE TRUE
  /\ mem' = [k \in Keys |->
               IF \E i \in DOMAIN ks : ks[i] = k /\ i <= Len(res) /\ Bad(i)
               THEN LET i == CHOOSE i \in DOMAIN ks : ks[i] = k /\ i <= Len(res) /\ Bad(i)
                    IN FromReply(Req(m, k, <<>>, 0, 0), mem[k], mem[k], res[i])
               ELSE mem[k]]
  /\ UNCHANGED now

Call == IF Ev.m \in {"mget", "mgete"} THEN Multi ELSE Single

Next ==
  /\ l <= Len(Trace) /\ l' = l + 1
  /\ IF Ev.ev = "reset" THEN Reset
     ELSE IF Ev.ev = "call" THEN Call
     ELSE IF Ev.ev = "tick" THEN Tick
     ELSE Skip

Spec == Init /\ [][Next]_vars
=============================================================================
