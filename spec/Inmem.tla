------------------------------- MODULE Inmem -------------------------------
(***************************************************************************)
(* Design model of the in-memory backend (handlers/inmem): ONE map shared   *)
(* by every connection of the process, protected by ONE read/write lock.    *)
(*                                                                         *)
(* Every handler operation is split into the steps a goroutine takes:      *)
(*    acquire the lock (exclusive for the writers set add replace append    *)
(*    prepend delete touch gat, shared for get and gete; Start),            *)
(*    look the key up        (a map READ access:  look0 -> look1),          *)
(*    store or remove it     (a map WRITE access: mut0 -> mut1),            *)
(*    release the lock.                                                     *)
(* A map access is not atomic (it has a begin and an end step), so that two *)
(* accesses overlapping in time are visible in a state: `reading` and       *)
(* `mutating` hold the goroutines that are inside a map access.  This is    *)
(* exactly what the Go runtime looks at when it terminates the process with *)
(* "fatal error: concurrent map writes" / "concurrent map read and map      *)
(* write", and what the race detector reports.                              *)
(*                                                                         *)
(* The model is the code as it SHOULD be: writers mutate under the          *)
(* exclusive lock, readers never mutate, add leaves an existing entry       *)
(* untouched, delete of an absent or expired key reports not-found.         *)
(* Two switches turn it into the code as it IS today (negative controls     *)
(* that TLC must refute):                                                   *)
(*   ReadersDelete  get/gete remove a missing or expired key from the map   *)
(*                  while holding only the SHARED lock                      *)
(*   AsCoded        add on a key present in the map removes it (and fails), *)
(*                  delete never looks the key up and always reports ok     *)
(*                                                                         *)
(* Refinement of Memcache.tla: `abs` is the reference map, advanced by      *)
(* Memcache!EApply at the linearization point of every operation (its last  *)
(* map access); the result the goroutine computes from what it saw in the   *)
(* concrete map must be the result of the reference (ResultsRefine), and    *)
(* whenever no goroutine is inside a write access the live contents of the  *)
(* concrete map are those of the reference (StateRefines).                  *)
(*                                                                         *)
(* The clock only advances while no goroutine is inside an operation (an    *)
(* operation reads the clock more than once; the skew between those reads   *)
(* is not what this model is about).                                        *)
(***************************************************************************)
EXTENDS Memcache, TLC

CONSTANTS NProcs,          \* number of goroutines (connections)
          Keys,            \* key alphabet
          MaxOps,          \* operations per goroutine
          MaxNow,          \* the clock runs from 0 to MaxNow
          Ms,              \* methods the goroutines may call (subset of Memcache!Methods)
          MultiGet,        \* get/gete may ask for two keys under one lock acquisition
          ReadersDelete,   \* negative control, see above
          AsCoded          \* negative control, see above

Procs  == 1..NProcs
NoProc == 0

VARIABLES data,      \* the concrete map: [Keys -> Entry \cup {None}]; an expired entry may linger
          abs,       \* the reference map (history variable)
          now,
          wlock,     \* holder of the exclusive lock, or NoProc
          rlock,     \* holders of the shared lock
          reading,   \* goroutines inside a map read access
          mutating,  \* goroutines inside a map write access
          pc, req, idx, loc, res, exp, cnt
vars == <<data, abs, now, wlock, rlock, reading, mutating, pc, req, idx, loc, res, exp, cnt>>

ReadMs  == {"get", "gete"}
TTLMs   == {"set", "add", "replace", "touch", "gat"}
PlainMs == {"append", "prepend", "delete"}

NoReq == [m |-> "none", ks |-> <<>>, v |-> <<>>, f |-> 0, t |-> 0]

KeySeqs == {<<k>> : k \in Keys} \cup (IF MultiGet THEN {<<a, b>> : a \in Keys, b \in Keys} ELSE {})

\* what goroutine p may ask for: its values and flags carry its own number
Reqs(p) ==
       {[m |-> m, ks |-> <<k>>, v |-> <<p>>, f |-> p, t |-> t] : m \in TTLMs \cap Ms, k \in Keys, t \in {0, 1}}
  \cup {[m |-> m, ks |-> <<k>>, v |-> <<p>>, f |-> p, t |-> 0] : m \in PlainMs \cap Ms, k \in Keys}
  \cup {[m |-> m, ks |-> s, v |-> <<>>, f |-> 0, t |-> 0] : m \in ReadMs \cap Ms, s \in KeySeqs}

Key(p)  == req[p].ks[idx[p]]
\* the request in the vocabulary of Memcache.tla
AReq(p) == Req(req[p].m, Key(p), req[p].v, req[p].f, req[p].t)

InitEntries == {None, Entry(<<0>>, 0, Inf), Entry(<<0>>, 0, 1)}

Init ==
  /\ data \in [Keys -> InitEntries] /\ abs = data
  /\ now = 0 /\ wlock = NoProc /\ rlock = {} /\ reading = {} /\ mutating = {}
  /\ pc = [p \in Procs |-> "idle"] /\ req = [p \in Procs |-> NoReq] /\ idx = [p \in Procs |-> 1]
  /\ loc = [p \in Procs |-> None] /\ res = [p \in Procs |-> <<>>] /\ exp = [p \in Procs |-> <<>>]
  /\ cnt = [p \in Procs |-> 0]

(***************************************************************************)
(* What the handler computes from the entry x it found in the map:          *)
(* <<new content of the slot (None = removed), result>>.                    *)
(***************************************************************************)
Store(r) == Entry(r.v, r.f, Deadline(now, r.t))
CStep(r, x) ==
  LET live == LiveE(x, now) IN
  CASE r.m = "set"     -> <<Store(r), <<"ok">> >>
    [] r.m = "add"     -> IF AsCoded THEN (IF x # None THEN <<None, <<"exists">> >> ELSE <<Store(r), <<"ok">> >>)
                          ELSE (IF live THEN <<x, <<"exists">> >> ELSE <<Store(r), <<"ok">> >>)
    [] r.m = "replace" -> IF live THEN <<Store(r), <<"ok">> >> ELSE <<None, <<"notfound">> >>
    [] r.m = "append"  -> IF live THEN <<[x EXCEPT !.v = @ \o r.v], <<"ok">> >> ELSE <<None, <<"notstored">> >>
    [] r.m = "prepend" -> IF live THEN <<[x EXCEPT !.v = r.v \o @], <<"ok">> >> ELSE <<None, <<"notstored">> >>
    [] r.m = "delete"  -> IF AsCoded \/ live THEN <<None, <<"ok">> >> ELSE <<None, <<"notfound">> >>
    [] r.m = "touch"   -> IF live THEN <<[x EXCEPT !.e = Deadline(now, r.t)], <<"ok">> >> ELSE <<None, <<"notfound">> >>
    [] r.m = "gat"     -> IF live THEN <<[x EXCEPT !.e = Deadline(now, r.t)], <<"hit", x.v, x.f>> >> ELSE <<None, <<"miss">> >>
    [] r.m = "get"     -> IF live THEN <<x, <<"hit", x.v, x.f>> >> ELSE <<None, <<"miss">> >>
    [] r.m = "gete"    -> IF live THEN <<x, <<"hit", x.v, x.f, x.e>> >> ELSE <<None, <<"miss">> >>

\* operations that go straight to the write access, without looking the key up
NoLookup(r) == r.m = "set" \/ (r.m = "delete" /\ AsCoded)
\* a writer that found x: does it touch the map afterwards?
Mutates(r, x) == IF r.m = "add" /\ ~AsCoded THEN ~LiveE(x, now) ELSE TRUE

\* the linearization point: the reference map takes the step, both results are recorded
Lin(p, x) ==
  LET a == Apply(abs, now, AReq(p)) IN
  /\ abs' = a[1]
  /\ exp' = [exp EXCEPT ![p] = Append(@, a[2])]
  /\ res' = [res EXCEPT ![p] = Append(@, CStep(req[p], x)[2])]

\* the goroutine picks its next request and acquires the lock for it in one step (which request a
\* goroutine is waiting with is invisible to the others; waiting itself is the step not being enabled)
Start(p) ==
  /\ pc[p] = "idle" /\ cnt[p] < MaxOps
  /\ \E r \in Reqs(p) :
       /\ req' = [req EXCEPT ![p] = r]
       /\ IF r.m \in ReadMs
          THEN wlock = NoProc /\ rlock' = rlock \cup {p} /\ UNCHANGED wlock
          ELSE wlock = NoProc /\ rlock = {} /\ wlock' = p /\ UNCHANGED rlock
       /\ pc' = [pc EXCEPT ![p] = IF NoLookup(r) THEN "mut0" ELSE "look0"]
  /\ cnt' = [cnt EXCEPT ![p] = @ + 1]
  /\ UNCHANGED <<data, abs, now, reading, mutating, idx, loc, res, exp>>

LookBegin(p) ==
  /\ pc[p] = "look0"
  /\ reading' = reading \cup {p} /\ pc' = [pc EXCEPT ![p] = "look1"]
  /\ UNCHANGED <<data, abs, now, wlock, rlock, mutating, req, idx, loc, res, exp, cnt>>

LookEnd(p) ==
  /\ pc[p] = "look1"
  /\ LET x == data[Key(p)]  r == req[p] IN
     /\ reading' = reading \ {p}
     /\ loc' = [loc EXCEPT ![p] = x]
     /\ IF r.m \in ReadMs
        THEN /\ Lin(p, x)
             /\ IF ReadersDelete /\ ~LiveE(x, now)
                THEN pc' = [pc EXCEPT ![p] = "mut0"] /\ UNCHANGED idx
                ELSE IF idx[p] < Len(r.ks)
                     THEN pc' = [pc EXCEPT ![p] = "look0"] /\ idx' = [idx EXCEPT ![p] = @ + 1]
                     ELSE pc' = [pc EXCEPT ![p] = "rel"] /\ UNCHANGED idx
        ELSE IF Mutates(r, x)
             THEN pc' = [pc EXCEPT ![p] = "mut0"] /\ UNCHANGED <<abs, exp, res, idx>>
             ELSE Lin(p, x) /\ pc' = [pc EXCEPT ![p] = "rel"] /\ UNCHANGED idx
  /\ UNCHANGED <<data, now, wlock, rlock, mutating, req, cnt>>

MutBegin(p) ==
  /\ pc[p] = "mut0"
  /\ mutating' = mutating \cup {p} /\ pc' = [pc EXCEPT ![p] = "mut1"]
  /\ UNCHANGED <<data, abs, now, wlock, rlock, reading, req, idx, loc, res, exp, cnt>>

MutEnd(p) ==
  /\ pc[p] = "mut1"
  /\ mutating' = mutating \ {p}
  /\ LET r == req[p] IN
     IF r.m \in ReadMs
     THEN \* only with ReadersDelete: the reader removes the key it did not find
          /\ data' = [data EXCEPT ![Key(p)] = None]
          /\ IF idx[p] < Len(r.ks)
             THEN pc' = [pc EXCEPT ![p] = "look0"] /\ idx' = [idx EXCEPT ![p] = @ + 1]
             ELSE pc' = [pc EXCEPT ![p] = "rel"] /\ UNCHANGED idx
          /\ UNCHANGED <<abs, exp, res>>
     ELSE /\ data' = [data EXCEPT ![Key(p)] = CStep(r, loc[p])[1]]
          /\ Lin(p, loc[p])
          /\ pc' = [pc EXCEPT ![p] = "rel"] /\ UNCHANGED idx
  /\ UNCHANGED <<now, wlock, rlock, reading, req, loc, cnt>>

Release(p) ==
  /\ pc[p] = "rel"
  /\ IF req[p].m \in ReadMs THEN rlock' = rlock \ {p} /\ UNCHANGED wlock
                            ELSE wlock' = NoProc /\ UNCHANGED rlock
  /\ pc' = [pc EXCEPT ![p] = "idle"] /\ req' = [req EXCEPT ![p] = NoReq] /\ idx' = [idx EXCEPT ![p] = 1]
  /\ loc' = [loc EXCEPT ![p] = None] /\ res' = [res EXCEPT ![p] = <<>>] /\ exp' = [exp EXCEPT ![p] = <<>>]
  /\ UNCHANGED <<data, abs, now, reading, mutating, cnt>>

Tick ==
  /\ now < MaxNow /\ \A p \in Procs : pc[p] = "idle"
  /\ now' = now + 1
  /\ UNCHANGED <<data, abs, wlock, rlock, reading, mutating, pc, req, idx, loc, res, exp, cnt>>

Done == (\A p \in Procs : pc[p] = "idle" /\ cnt[p] = MaxOps) /\ UNCHANGED vars

Next == Tick \/ Done \/ \E p \in Procs : Start(p) \/ LookBegin(p) \/ LookEnd(p) \/ MutBegin(p) \/ MutEnd(p) \/ Release(p)

Spec == Init /\ [][Next]_vars

(***************************************************************************)
(* Invariants.                                                              *)
(***************************************************************************)
\* the lock itself: exclusive excludes shared (and a second exclusive holder, by construction)
LockDiscipline == wlock # NoProc => rlock = {}

\* no goroutine is inside a map write access without holding the exclusive lock
WritesOnlyUnderWriteLock == \A p \in mutating : wlock = p

\* map accesses happen under some lock at all
AccessUnderLock == \A p \in reading : wlock = p \/ p \in rlock

\* what the Go runtime checks: a write access overlaps with no other access
NoConcurrentMapAccess ==
  /\ Cardinality(mutating) <= 1
  /\ mutating # {} => reading \ mutating = {}

ClassAll(s) == [i \in DOMAIN s |-> Class(s[i])]
\* the operation is complete (about to release): its results are those of the reference map.
\* gete exposes the deadline as well, so the stored deadlines refine too.
ResultsRefine == \A p \in Procs : pc[p] = "rel" => ClassAll(res[p]) = ClassAll(exp[p])

StateRefines == mutating = {} => \A k \in Keys : View(data[k], now) = View(abs[k], now)

\* readers leave the map alone (the design this model stands for; FALSE with ReadersDelete)
ReadersDoNotMutate == \A p \in mutating : req[p].m \notin ReadMs
=============================================================================
