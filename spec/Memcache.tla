------------------------------ MODULE Memcache ------------------------------
(***************************************************************************)
(* The reference: "a single memcached-style key-value map".                *)
(*                                                                         *)
(* Pure operators over a map  m \in [Keys -> Entry \cup {None}]  and a     *)
(* clock value `now`.  Every other module of this specification (the       *)
(* orchestrators, the chunked handler, the pool, the in-memory backend)    *)
(* is stated relative to these operators, and the fake memcached of the    *)
(* harness is itself trace-validated against them.                         *)
(*                                                                         *)
(* Values are sequences of block ids (the harness owns the mapping from    *)
(* block ids to bytes); flags are small integers (concretised to 32-bit    *)
(* corner values); time is counted in abstract units.                      *)
(*                                                                         *)
(* TTL arguments follow memcached:                                         *)
(*    0                      never expires                                 *)
(*    1 .. RelMax            relative, counted from the command            *)
(*    > RelMax               absolute time  t - AbsBase  (may be past)     *)
(* One unit is 1000 s in the harness, so RelMax = 2592 is exactly 30 days. *)
(***************************************************************************)
EXTENDS Integers, Sequences, FiniteSets

None   == [none |-> TRUE]
Inf    == 1000000          \* deadline of an entry that never expires
RelMax == 2592             \* 30 days in units of 1000 s
AbsBase == 10000           \* ttl code of absolute time t is AbsBase + t

Deadline(now, t) == IF t = 0 THEN Inf
                    ELSE IF t <= RelMax THEN now + t
                    ELSE t - AbsBase

Entry(v, f, e) == [v |-> v, f |-> f, e |-> e]

\* an entry (or None) is live iff it exists and its deadline is in the future
LiveE(x, now) == x # None /\ x.e > now
Live(m, k, now) == LiveE(m[k], now)

\* what a reader sees of an entry
View(x, now) == IF LiveE(x, now) THEN x ELSE None

(***************************************************************************)
(* Single-entry semantics: each operator maps the old entry (or None) to   *)
(* <<new entry, result>>.  Results are sequences so that they compare.     *)
(***************************************************************************)
ESet(x, now, v, f, t)     == <<Entry(v, f, Deadline(now, t)), <<"ok">> >>
EAdd(x, now, v, f, t)     == IF LiveE(x, now) THEN <<x, <<"exists">> >> ELSE ESet(x, now, v, f, t)
EReplace(x, now, v, f, t) == IF LiveE(x, now) THEN ESet(x, now, v, f, t) ELSE <<x, <<"notfound">> >>
EAppend(x, now, v)        == IF LiveE(x, now) THEN <<[x EXCEPT !.v = @ \o v], <<"ok">> >> ELSE <<x, <<"notstored">> >>
EPrepend(x, now, v)       == IF LiveE(x, now) THEN <<[x EXCEPT !.v = v \o @], <<"ok">> >> ELSE <<x, <<"notstored">> >>
EDelete(x, now)           == IF LiveE(x, now) THEN <<None, <<"ok">> >> ELSE <<None, <<"notfound">> >>
ETouch(x, now, t)         == IF LiveE(x, now) THEN <<[x EXCEPT !.e = Deadline(now, t)], <<"ok">> >> ELSE <<x, <<"notfound">> >>
EGet(x, now)              == IF LiveE(x, now) THEN <<x, <<"hit", x.v, x.f>> >> ELSE <<x, <<"miss">> >>
\* gete additionally exposes the deadline (the harness converts to remaining seconds)
EGetE(x, now)             == IF LiveE(x, now) THEN <<x, <<"hit", x.v, x.f, x.e>> >> ELSE <<x, <<"miss">> >>
EGat(x, now, t)           == IF LiveE(x, now) THEN <<[x EXCEPT !.e = Deadline(now, t)], <<"hit", x.v, x.f>> >> ELSE <<x, <<"miss">> >>

(***************************************************************************)
(* A request is a record [m, k, v, f, t]; m is the method name.            *)
(***************************************************************************)
Req(m, k, v, f, t) == [m |-> m, k |-> k, v |-> v, f |-> f, t |-> t]

EApply(x, now, r) ==
  CASE r.m = "set"     -> ESet(x, now, r.v, r.f, r.t)
    [] r.m = "add"     -> EAdd(x, now, r.v, r.f, r.t)
    [] r.m = "replace" -> EReplace(x, now, r.v, r.f, r.t)
    [] r.m = "append"  -> EAppend(x, now, r.v)
    [] r.m = "prepend" -> EPrepend(x, now, r.v)
    [] r.m = "delete"  -> EDelete(x, now)
    [] r.m = "touch"   -> ETouch(x, now, r.t)
    [] r.m = "get"     -> EGet(x, now)
    [] r.m = "gete"    -> EGetE(x, now)
    [] r.m = "gat"     -> EGat(x, now, r.t)

\* map-level: <<m', result>>
Apply(m, now, r) == LET o == EApply(m[r.k], now, r) IN <<[m EXCEPT ![r.k] = o[1]], o[2]>>

IsRead(r)  == r.m \in {"get", "gete"}
Methods == {"set", "add", "replace", "append", "prepend", "delete", "touch", "get", "gete", "gat"}

(***************************************************************************)
(* Reply classes.  The wire protocols do not distinguish all negative      *)
(* outcomes the same way memcached does (rend answers a replace of a       *)
(* missing key NOT_FOUND where memcached says NOT_STORED), and the         *)
(* property only says "succeed or fail exactly when the map says so".      *)
(***************************************************************************)
Class(res) == IF res[1] \in {"exists", "notfound", "notstored"} THEN <<"fail">> ELSE res

\* live part of a map, for comparing with observed backend contents
LiveMap(m, now) == [k \in DOMAIN m |-> View(m[k], now)]
=============================================================================
