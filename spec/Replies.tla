------------------------------- MODULE Replies -------------------------------
(***************************************************************************)
(* Reply discipline of one client connection (property C08).               *)
(*                                                                         *)
(* A request is a record                                                   *)
(*   [kind, nk, quiet, noopend]                                            *)
(* kind \in {"store","del","touch","gat","get","noop","version","stats",   *)
(*           "unknown","badnum"};  nk = number of keys (get), quiet = a    *)
(* sequence of booleans (get: one per key; store: <<q>>), noopend = the    *)
(* quiet-get batch is closed by a no-op.  An outcome is "ok"/"fail"/"err"  *)
(* for single commands and a sequence over {"hit","miss"} for a get.       *)
(*                                                                         *)
(* Emit(proto, req, out) is the sequence of reply units the server must    *)
(* send: each unit is <<type, i>>, i the index of the key it answers       *)
(* (0 = the request as a whole).  Types: "ok" "fail" "err" "hit" "nf"      *)
(* (explicit not-found for a non-quiet binary miss) "term" (END / the      *)
(* no-op frame closing a quiet batch) "body" (version / stats payload).    *)
(* The order of per-key units is free (L1 hits are sent before L2          *)
(* results); the terminator, when there is one, comes last and exactly     *)
(* once -- also under the locking wrapper, which serves a multi-key get    *)
(* key by key.                                                             *)
(***************************************************************************)
EXTENDS Integers, Sequences, FiniteSets, TLC

U(t, i) == <<t, i>>

RECURSIVE KeyUnits(_, _, _, _)
KeyUnits(proto, req, out, i) ==
  IF i > req.nk THEN <<>>
  ELSE (IF out[i] = "hit" THEN <<U("hit", i)>>
        ELSE IF proto = "bin" /\ ~req.quiet[i] THEN <<U("nf", i)>>
        ELSE <<>>) \o KeyUnits(proto, req, out, i + 1)

HasTerm(proto, req) == proto = "text" \/ req.noopend

Emit(proto, req, out) ==
  CASE req.kind = "get" ->
         KeyUnits(proto, req, out, 1) \o (IF HasTerm(proto, req) THEN <<U("term", 0)>> ELSE <<>>)
    [] req.kind = "store" ->
         IF out = "ok" THEN (IF proto = "bin" /\ req.quiet[1] THEN <<>> ELSE <<U("ok", 0)>>)
         ELSE <<U(out, 0)>>                       \* failures are reported even for quiet commands
    [] req.kind \in {"del", "touch"} -> <<U(out, 0)>>
    [] req.kind = "gat" -> IF out = "ok" THEN <<U("hit", 1)>> ELSE IF out = "fail" THEN <<U("nf", 1)>> ELSE <<U(out, 0)>>
    [] req.kind = "noop" -> <<U("term", 0)>>
    [] req.kind = "version" -> <<U("body", 0)>>
    [] req.kind = "stats" -> <<U("body", 0), U("term", 0)>>
    [] req.kind \in {"unknown", "badnum"} -> <<U("err", 0)>>

Count(s, x) == Cardinality({j \in DOMAIN s : s[j] = x})
Range(s) == {s[j] : j \in DOMAIN s}
SameBag(a, b) == \A x \in Range(a) \cup Range(b) : Count(a, x) = Count(b, x)

TermLast(s) == \A j \in DOMAIN s : s[j][1] = "term" => j = Len(s)

\* a reply as observed conforms iff it is a permutation of Emit with the terminator last
\* (stats: body units precede the terminator anyway)
Conforms(proto, req, out, units) == SameBag(units, Emit(proto, req, out)) /\ TermLast(units)

=============================================================================
