--------------------------- MODULE ChunkGeomTrace ---------------------------
(***************************************************************************)
(* C16: validates what the real chunking handler wrote to the (fake)       *)
(* backend against the geometry of ChunkGeom.  One event per client        *)
(* command:                                                                *)
(*   {ev:"set", id, op, klen, vlen, err, reqs:[{t,i,c,kl,vl}, ...],        *)
(*    meta:{ok,len,n,cs}}                                                  *)
(* op is the handler call (set add replace append prepend touch gat), klen *)
(* the length of the client key, vlen the length of the value the command  *)
(* stores (for append and prepend: of the joined value).  reqs is the      *)
(* run-length encoded sequence of the SET/ADD/REPLACE requests the backend *)
(* received for the command, in order: a run is c consecutive requests     *)
(* with the same backend key length kl and value length vl whose keys are  *)
(*   t = "meta"  : "<key>-meta"                                            *)
(*   t = "chunk" : "<key>-<j>" for j = i, i+1, ..., i+c-1 (decimal, no     *)
(*                 leading zeros)                                          *)
(*   t = "other" : anything else                                           *)
(* meta is the metadata entry read back from the backend after the command *)
(* (ok = it exists): value length, number of chunks and chunk size it      *)
(* records; of these the number of chunks is compared (CeilMeta).  The     *)
(* number of chunks is measured with the payload the chunks really carry.  *)
(* The variables of ChunkGeom hold the case of the current event: k and    *)
(* len are taken from the event, p and n are what the design derives from  *)
(* them (ChunkGeom!Set), and the requests observed are compared with that. *)
(* A mismatch does not stop the run: it is printed as "MISMATCH {json}".   *)
(***************************************************************************)
EXTENDS ChunkGeom, Sequences, FiniteSets, TLC, Json

CONSTANT TraceFile
Trace == ndJsonDeserialize(TraceFile)

VARIABLE l
\* sizes seen so far: sz[kl] the value length of the data entries written for a key of kl bytes (0 = none
\* seen yet), msz the value length of the metadata entries. The property asks for "the same value length,
\* which depends only on the key's length" and a metadata entry "of constant size" - not for the particular
\* numbers of the design: a consistent size that differs from ChunkGeom's is reported as SizeModel /
\* MetaModel (model drift, counted but not a verdict), an inconsistent one as SameSize / MetaConst.
VARIABLES sz, msz
Ev == Trace[l]

Report(kind, want, got) == PrintT("MISMATCH " \o ToJson([l |-> l, kind |-> kind, want |-> want, got |-> got]))

Runs(t) == SelectSeq(Ev.reqs, LAMBDA r : r.t = t)

RECURSIVE Count(_)
Count(s) == IF s = <<>> THEN 0 ELSE Head(s).c + Count(Tail(s))

Covered(s) == UNION { (s[j].i) .. (s[j].i + s[j].c - 1) : j \in DOMAIN s }

SetMax(S) == CHOOSE x \in S : \A y \in S : y <= x

\* A command that failed before it wrote anything (an append whose reads failed) stored nothing that
\* could have a wrong size; one that failed after it began to write left too few chunks behind.
Wrote  == Ev.err = "" \/ Ev.reqs # <<>>
Stores == Wrote /\ Ev.op \in {"set", "add", "replace", "append", "prepend"}

\* the backend keys are "<key>-meta" once and "<key>-<i>" once for each i = 0..m-1, m the number of chunk writes
NamesOK ==
  LET ch == Runs("chunk") m == Count(ch) IN
  /\ Runs("other") = <<>>
  /\ (Stores => Count(Runs("meta")) = 1)
  /\ Covered(ch) = 0 .. (m - 1)
  /\ \A j \in DOMAIN ch : /\ ch[j].c >= 1
                          /\ ch[j].kl = ChunkKeyLen(k, ch[j].i)
                          /\ ch[j].kl = ChunkKeyLen(k, ch[j].i + ch[j].c - 1)
  /\ \A j \in DOMAIN Ev.reqs : Ev.reqs[j].t = "meta" => Ev.reqs[j].kl = MetaKeyLen(k)

Cost(r) == r.kl + r.vl + ItemOverhead

\* The payload the chunk count is measured with: what the chunks written actually carry when they all have
\* one size (a wrong size is SameSize's business, not Ceil's), the payload of the design otherwise.
ObsPayload == LET ch == Runs("chunk") IN
              IF ch # <<>> /\ ch[1].vl > TokenSize /\ \A j \in DOMAIN ch : ch[j].vl = ch[1].vl
              THEN ch[1].vl - TokenSize ELSE p
ObsChunks == (len + ObsPayload - 1) \div ObsPayload

\* the case of trace line i (beyond the end and for other events: an empty value under a key of one byte)
CaseOf(i) == IF i <= Len(Trace) /\ Trace[i].ev = "set" THEN <<Trace[i].klen, Trace[i].vlen>> ELSE <<1, 0>>

KLens == 1..250
TInit == /\ l = 1 /\ sz = [i \in KLens |-> 0] /\ msz = 0
         /\ k = CaseOf(1)[1] /\ len = CaseOf(1)[2]
         /\ p = Payload(k) /\ n = NumChunks(len, k)
TNext ==
  /\ l <= Len(Trace) /\ l' = l + 1
  /\ Set(CaseOf(l + 1)[1], CaseOf(l + 1)[2])
  /\ IF Ev.ev # "set" THEN UNCHANGED <<sz, msz>>
     ELSE LET ch == Runs("chunk") me == Runs("meta")
              one == ch # <<>> /\ \A j \in DOMAIN ch : ch[j].vl = ch[1].vl
              kin == k \in KLens
              mone == me # <<>> /\ \A j \in DOMAIN me : me[j].vl = me[1].vl IN
          /\ sz' = IF one /\ kin /\ sz[k] = 0 THEN [sz EXCEPT ![k] = ch[1].vl] ELSE sz
          /\ msz' = IF mone /\ msz = 0 THEN me[1].vl ELSE msz
          /\ (IF NamesOK THEN TRUE
              ELSE Report("Names", [meta |-> IF Stores THEN "1" ELSE "any", chunks |-> <<<<0, IF Stores THEN ObsChunks ELSE Count(ch), "k+1+digits">>>>, other |-> 0],
                          [meta |-> Count(me), chunks |-> [j \in DOMAIN ch |-> <<ch[j].i, ch[j].c, ch[j].kl>>],
                           other |-> Count(Runs("other"))]))
          /\ (IF ch = <<>> \/ (one /\ (~kin \/ sz[k] \in {0, ch[1].vl})) THEN TRUE
              ELSE Report("SameSize", IF kin /\ sz[k] # 0 THEN sz[k] ELSE ch[1].vl, [j \in DOMAIN ch |-> <<ch[j].i, ch[j].c, ch[j].vl>>]))
          /\ (IF one /\ ch[1].vl # Full(k) THEN Report("SizeModel", Full(k), ch[1].vl) ELSE TRUE)
          /\ (IF \A j \in DOMAIN Ev.reqs : Cost(Ev.reqs[j]) <= SlabBudget THEN TRUE
              ELSE Report("SlabFit", SlabBudget, SetMax({Cost(Ev.reqs[j]) : j \in DOMAIN Ev.reqs})))
          /\ (IF me = <<>> \/ (mone /\ msz \in {0, me[1].vl}) THEN TRUE
              ELSE Report("MetaConst", IF msz # 0 THEN msz ELSE me[1].vl, [j \in DOMAIN me |-> me[j].vl]))
          /\ (IF mone /\ me[1].vl # MetaSize THEN Report("MetaModel", MetaSize, me[1].vl) ELSE TRUE)
          /\ (IF Stores /\ Count(ch) # ObsChunks THEN Report("Ceil", ObsChunks, Count(ch)) ELSE TRUE)
          /\ (IF Wrote /\ Ev.meta.ok /\ Ev.meta.n # ObsChunks THEN Report("CeilMeta", ObsChunks, Ev.meta.n) ELSE TRUE)

TSpec == TInit /\ [][TNext]_<<l, sz, msz, vars>>
=============================================================================
