------------------------------ MODULE OrcaTrace ------------------------------
(***************************************************************************)
(* Validation of traces recorded from the real rend stack against the      *)
(* reference map (Memcache.tla) and the tier invariants of Orca.tla.       *)
(*                                                                         *)
(* The trace is a sequence of events (ndjson, one JSON object per line):   *)
(*   reset   start of a new trace: {cfg, twotier}                          *)
(*   op      one client command with its observed reply, followed by the   *)
(*           observed live contents of both tiers:                         *)
(*           {port, x: {op,k,v,f,t} | {op:"mget",ks,..}, res, l1, l2}      *)
(*   evict   the harness dropped L1 entries {keys, l1, l2}                 *)
(*   tick    the backends' clock advanced by one unit {l1, l2}             *)
(* One TLC step consumes one event.  The specification keeps, per key, the *)
(* SET of entries the reference map may hold (`adm`): a singleton as long  *)
(* as every command was answered, widened by a command that ended in an    *)
(* error reply or a closed connection (it may or may not have taken        *)
(* effect), narrowed again by every acknowledged reply.  A reply that no   *)
(* admissible entry explains, or a tier content that contradicts the       *)
(* reference, is reported as a MISMATCH line (the run continues so that    *)
(* one finding does not hide the next; the driver turns lines into         *)
(* verdicts).                                                              *)
(***************************************************************************)
EXTENDS Orca, TLC, Json, SequencesExt

CONSTANTS Keys, TraceFile

Trace == ndJsonDeserialize(TraceFile)

VARIABLES l, adm, now, faulted, twotier, retry
vars == <<l, adm, now, faulted, twotier, retry>>

Ev == Trace[l]

Report(kind, key, want, got) == PrintT("MISMATCH " \o ToJson([l |-> l, kind |-> kind, key |-> key, want |-> want, got |-> got]))

\* observed tier contents: a sequence of records [k, v, f, e]
Obs(arr) == [k \in Keys |->
               IF \E i \in DOMAIN arr : arr[i].k = k
               THEN LET i == CHOOSE i \in DOMAIN arr : arr[i].k = k IN Entry(arr[i].v, arr[i].f, arr[i].e)
               ELSE None]
Strays(arr) == {arr[i].k : i \in {j \in DOMAIN arr : arr[j].k \notin Keys}}

ReqOfX(x) == Req(x.op, x.k, x.v, x.f, x.t)

Uncertain(res) == res[1] \in {"error", "closed", "timeout", "malformed"}

\* entries of A that explain the observed reply
Explaining0(A, r, res) == {w \in A : Class(EApply(w, now, r)[2]) = res}
After1(A, r) == {View(EApply(w, now, r)[1], now) : w \in A}

\* A connection pool that re-submits a request after a lost connection gives at-least-once
\* semantics: the request may already have been applied j times (j <= retry) when the attempt
\* whose reply the caller sees is made.  Iter(A, r, j) = worlds after j earlier applications.
RECURSIVE Iter(_, _, _)
Iter(A, r, j) == IF j = 0 THEN A ELSE After1(Iter(A, r, j - 1), r)
Explaining(A, r, res) == UNION {Explaining0(Iter(A, r, j), r, res) : j \in 0..retry}

\* after a backend fault a read may also come back empty (C10: "the correct value or a miss")
MissOK(r, res) == faulted /\ r.m \in {"get", "gat"} /\ res = <<"miss">>

\* new admissible set for one key after request r was answered with res
Narrow(A, r, res) ==
  IF Uncertain(res) THEN UNION {Iter(A, r, j) : j \in 0..(retry + 1)} \cup {None}
  ELSE IF MissOK(r, res) /\ Explaining(A, r, res) = {} THEN A
  \* after a fault the tiers may disagree about an unacknowledged write: a read does not settle it
  \* ... and neither does a refusal: only a write or delete acknowledged as successful does (C10's wording)
  ELSE IF faulted /\ IsRead(r) /\ Explaining(A, r, res) # {} THEN A
  \* (a refused write may have been applied to one tier all the same: its outcome becomes admissible too)
  \* - also when the refusal has no explanation in A: a backend may answer ANY request with "not found",
  \* "exists" or "not stored" (they are memcached statuses too); the client is told the truth, a refusal
  ELSE IF faulted /\ res = <<"fail">> THEN A \cup After1(A, r)
  \* a touch / get-and-touch gives every admissible entry the new expiry and rules none of them out
  ELSE IF faulted /\ r.m \in {"touch", "gat"} /\ Explaining(A, r, res) # {} THEN After1(A, r)
  ELSE LET S == Explaining(A, r, res) IN IF S = {} THEN After1(A, r) ELSE After1(S, r)

ReplyBad(A, r, res) == ~Uncertain(res) /\ ~MissOK(r, res) /\ ~(faulted /\ res = <<"fail">>) /\ Explaining(A, r, res) = {}

\* a multi-key get: the keys are looked up one after the other
RECURSIVE MGetBad(_, _, _)
MGetBad(a, ks, rs) ==
  IF ks = <<>> THEN {}
  ELSE LET r == Req("get", Head(ks), <<>>, 0, 0) IN
       (IF ReplyBad(a[Head(ks)], r, Head(rs)) THEN {Head(ks)} ELSE {}) \cup MGetBad(a, Tail(ks), Tail(rs))

Expected(A, r) == {Class(EApply(w, now, r)[2]) : w \in A}

Init == l = 1 /\ adm = [k \in Keys |-> {None}] /\ now = 0 /\ faulted = FALSE /\ twotier = TRUE /\ retry = 0

(***************************************************************************)
(* Tier checks, on the contents observed after the event.                  *)
(***************************************************************************)
TierChecks(a, t, flt) ==
  LET o1 == Obs(Ev.l1)  o2 == Obs(Ev.l2)
      auth == IF twotier THEN o2 ELSE o1
  IN
  /\ \A s \in Strays(Ev.l1) \cup Strays(Ev.l2) : Report("Stray", s, "", "")
  /\ \A k \in Keys :
       LET A  == a[k]
           g  == View(auth[k], t)
       IN
       \* the authoritative tier holds what the reference map holds
       /\ IF \E w \in A : (IF w = None \/ g = None THEN w = g ELSE w.v = g.v /\ w.f = g.f)
          THEN (IF g # None /\ ~flt /\ \A w \in A : w # None => w.e # g.e
                THEN Report("TTL", k, A, g) ELSE TRUE)
          ELSE Report("RefEq", k, A, g)
       \* L1 is a sub-map of L2
       /\ IF twotier /\ ~flt /\ LiveE(o1[k], t)
          THEN (IF ~LiveE(o2[k], t) \/ o1[k].v # o2[k].v \/ o1[k].f # o2[k].f
                THEN Report("Subset", k, View(o2[k], t), o1[k])
                ELSE IF o1[k].e # o2[k].e THEN Report("TTL1", k, o2[k], o1[k]) ELSE TRUE)
          ELSE TRUE

\* after a mismatch the model continues from what was observed
Resync(a, t, flt) ==
  LET o1 == Obs(Ev.l1)  o2 == Obs(Ev.l2)
      auth == IF twotier THEN o2 ELSE o1
  IN [k \in Keys |-> IF View(auth[k], t) \in a[k] \/ flt THEN a[k] ELSE {View(auth[k], t)}]

Reset ==
  /\ Ev.ev = "reset"
  /\ adm' = [k \in Keys |-> {None}] /\ now' = 0 /\ faulted' = FALSE /\ twotier' = Ev.twotier
  /\ retry' = IF "retry" \in DOMAIN Ev THEN Ev.retry ELSE 0

Op ==
  /\ Ev.ev = "op"
  /\ LET x == Ev.x  res == Ev.res IN
     IF x.op = "mget"
     THEN LET bad == IF Uncertain(res) THEN {} ELSE MGetBad(adm, x.ks, res[2]) IN
          /\ \A k \in bad : Report("ReplyOK", k, Expected(adm[k], Req("get", k, <<>>, 0, 0)), res)
          /\ (IF Uncertain(res) /\ ~faulted /\ retry = 0 THEN Report("ReplyOK", x.ks[1], "a complete reply", res) ELSE TRUE)
          /\ TierChecks(adm, now, faulted)
          /\ adm' = Resync(adm, now, faulted)
          /\ UNCHANGED <<now, faulted, twotier, retry>>
     ELSE LET r == ReqOfX(x)
              a2 == [adm EXCEPT ![x.k] = Narrow(@, r, res)]
              f2 == faulted \/ Uncertain(res)
          IN
          \* without any fault an error reply, a closed connection or no reply at all is itself wrong
          /\ IF ReplyBad(adm[x.k], r, res) \/ (Uncertain(res) /\ ~faulted /\ retry = 0)
             THEN Report("ReplyOK", x.k, Expected(adm[x.k], r), res) ELSE TRUE
          /\ TierChecks(a2, now, f2)
          /\ adm' = Resync(a2, now, f2)
          /\ faulted' = f2
          /\ UNCHANGED <<now, twotier, retry>>

\* the tiers were pre-loaded by the harness: the reference starts as the authoritative tier
InitEv ==
  /\ Ev.ev = "init"
  /\ LET o1 == Obs(Ev.l1)  o2 == Obs(Ev.l2)  auth == IF twotier THEN o2 ELSE o1 IN
     adm' = [k \in Keys |-> {View(auth[k], now)}]
  /\ UNCHANGED <<now, faulted, twotier, retry>>

Evict ==
  /\ Ev.ev = "evict"
  /\ TierChecks(adm, now, faulted)
  /\ UNCHANGED <<adm, now, faulted, twotier, retry>>

Tick ==
  /\ Ev.ev = "tick"
  /\ now' = now + 1
  /\ LET a2 == [k \in Keys |-> {View(w, now + 1) : w \in adm[k]}] IN
     /\ TierChecks(a2, now + 1, faulted)
     /\ adm' = Resync(a2, now + 1, faulted)
  /\ UNCHANGED <<faulted, twotier, retry>>

\* a fault was injected below the orchestrator: from here on the tiers may disagree
FaultEv ==
  /\ Ev.ev = "fault"
  /\ faulted' = TRUE
  /\ UNCHANGED <<adm, now, twotier, retry>>

Next == l <= Len(Trace) /\ l' = l + 1 /\ (Reset \/ InitEv \/ Op \/ Evict \/ Tick \/ FaultEv)

Spec == Init /\ [][Next]_vars

\* every line of the trace was consumed
Accepted == TLCGet("stats").diameter - 1 = Len(Trace)
=============================================================================
