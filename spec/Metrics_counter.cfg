\* 3 goroutines, 6 atomic increments by 1 or 3
\* tlc -config Metrics_counter.cfg Metrics.tla   (tools/metrics.py generates the same text; larger constants in the thorough tier)
SPECIFICATION Spec
CONSTANTS
  Observers = {}
  Vals = {1}
  BufLen = 1
  MaxObs = 0
  MaxReads = 0
  IndexAfterInc = FALSE
  Incs = {"i1", "i2", "i3"}
  Amounts = {1, 3}
  MaxIncs = 6
  AtomicAdd = TRUE
INVARIANTS CounterExact
CHECK_DEADLOCK FALSE
