------------------------------- MODULE Bucket -------------------------------
(***************************************************************************)
(* The "bucketized" histogram of rend's metrics package: the bucket index  *)
(* function getBucket of metrics/histograms.go transcribed line by line,   *)
(* over the tables bucketValues (upper bound of every bucket) and          *)
(* powerOf4Index of the same file.                                         *)
(*                                                                         *)
(* The tables live in module BucketTables, which tools/metrics.py          *)
(* GENERATES from /repo/metrics/histograms.go at every run (the copy in    *)
(* this directory is the output for the tree the framework was built on),  *)
(* together with Pow2 = <<2^0, ..., 2^64>> (the solver behind Apalache     *)
(* gives up on variable exponents; PowTableOK below makes Apalache check   *)
(* the table instead of trusting the generator).                           *)
(*                                                                         *)
(* Checked with Apalache over unbounded integers (TLC's are 32 bit):       *)
(*   apalache-mc check --init=Init --inv=InRange    --length=0 Bucket.tla  *)
(*   apalache-mc check --init=Init --inv=UpperBound --length=0 Bucket.tla  *)
(*   apalache-mc check --init=Init --inv=Monotone   --length=0 Bucket.tla  *)
(*   apalache-mc check --init=Init --inv=TablesOK   --length=0 Bucket.tla  *)
(* i.e. for ALL 0 <= n <= m <= 2^63-1: the index is inside the table, the  *)
(* bound of the bucket n is counted in is not below n, and the index is a  *)
(* non-decreasing function of the value.                                   *)
(*                                                                         *)
(* TLC evaluates GetBucket / FloorLog2 for values below 2^30 when it       *)
(* validates what the real getBucket and lzcnt returned (MetricsTrace);    *)
(* for that run tools/metrics.py supplies a BucketTables module cut off    *)
(* below 2^31 (TLC rejects larger literals even when they are not used).   *)
(***************************************************************************)
EXTENDS Integers, Sequences, BucketTables

VARIABLES
  \* @type: Int;
  n,
  \* @type: Int;
  m

\* 64 - lzcnt(x) - 1 for x > 0: the position of the highest set bit
FloorLog2(x) == CHOOSE k \in 0 .. MaxLog : Pow2[k + 1] <= x /\ x < Pow2[k + 2]       \* MaxLog = Len(Pow2) - 2

\* func getBucket(n uint64) uint64  (sequences are 1-based, hence the + 1 in the subscripts)
GetBucket(x) ==
  IF x <= 15 THEN x
  ELSE LET rshift == FloorLog2(x)                                          \* rshift := 64 - lzcnt(n) - 1
           lshift == IF rshift % 2 = 1 THEN rshift - 1 ELSE rshift         \* if lshift&1 == 1 { lshift-- }
           prevPowerOf4 == Pow2[lshift + 1]                                \* (n >> rshift) << lshift, n >> rshift = 1
           delta  == prevPowerOf4 \div 3
           offset == (x - prevPowerOf4) \div delta
           pos    == offset + PowerOf4Index[(lshift \div 2) + 1]
       IN IF pos >= NumBuckets - 1 THEN NumBuckets - 1 ELSE pos + 1

Bound(b) == BucketValues[b + 1]

Max63 == Pow2[64] - 1                   \* 2^63 - 1

Init == n \in Int /\ m \in Int /\ 0 <= n /\ n <= m /\ m <= Max63
Next == UNCHANGED <<n, m>>

InRange    == GetBucket(n) \in 0 .. NumBuckets - 1
UpperBound == Bound(GetBucket(n)) >= n
Monotone   == GetBucket(n) <= GetBucket(m)

\* the generated power table is the power table, and the shapes are the ones getBucket relies on
PowTableOK == /\ Len(Pow2) = 65 /\ Pow2[1] = 1 /\ MaxLog = 63
              /\ \A i \in 1 .. 64 : Pow2[i + 1] = 2 * Pow2[i]
TablesOK   == /\ PowTableOK
              /\ Len(BucketValues) = NumBuckets
              /\ Len(PowerOf4Index) = 32
=============================================================================
