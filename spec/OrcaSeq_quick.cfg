SPECIFICATION Spec
CONSTANTS
  Keys = {"k1", "k2"}
  Blocks = {1, 2}
  Flags = {0, 1}
  TTLs = {0, 1, 10002, 9999}
  MaxLen = 2
  Ports = {"main", "batch"}
  MaxNow = 2
  Evictions = TRUE
  MGetLen = 2
  Export = FALSE
INVARIANTS ReplyOK Subset RefEq TTLOK
CHECK_DEADLOCK FALSE
