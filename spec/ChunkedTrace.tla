---------------------------- MODULE ChunkedTrace ----------------------------
(***************************************************************************)
(* Replays executions of the real chunked handler, recorded at backend-    *)
(* request granularity by the gated fake backend, through the actions of   *)
(* Chunked.tla: every `breq` event is one action of the specification,     *)
(* every `lose` event an eviction, every `ret` of a reader is compared     *)
(* with the result the specification computes.                             *)
(*   AllOrNothing  the bytes a reader got are not the complete value of a  *)
(*                 single writer (decided on the bytes by the harness)     *)
(*   Model         the reader's result differs from the specification's    *)
(*   Step          the handler issued a backend request the specification  *)
(*                 does not expect at that point (drift, not a verdict)    *)
(***************************************************************************)
EXTENDS Chunked, Json

CONSTANT TraceFile
Trace == ndJsonDeserialize(TraceFile)

VARIABLE l
tvars == <<l, meta, chunk, wpc, rpc, rmeta, rgot, rres, losses, apc, ameta, agot>>
Ev == Trace[l]
Report(kind, want, got) == PrintT("MISMATCH " \o ToJson([l |-> l, kind |-> kind, want |-> want, got |-> got]))

TInit == l = 1 /\ Init

Reset == /\ Ev.ev \in {"reset", "end", "stuck", "foreign"}
         /\ (IF Ev.ev = "stuck" THEN Report("Stuck", "", "") ELSE TRUE)
         /\ (IF Ev.ev = "foreign" THEN Report("ForeignKey", "", Ev.key) ELSE TRUE)
         /\ IF Ev.ev = "reset"
            THEN \* Ev.pre names a writer whose value was stored completely before the race started
                 /\ meta' = IF Ev.pre \in Writers THEN [tok |-> Ev.pre, n |-> N[Ev.pre], by |-> Ev.pre] ELSE None
                 /\ chunk' = [i \in Slots |-> IF Ev.pre \in Writers /\ i < N[Ev.pre] THEN [tok |-> Ev.pre, i |-> i, by |-> Ev.pre] ELSE None]
                 /\ wpc' = [w \in Writers |-> IF w = Ev.pre THEN N[w] ELSE IF Grows(w) THEN -3 ELSE -1] /\ rpc' = [r \in Readers |-> -1]
                 /\ apc' = [w \in Writers |-> -1] /\ ameta' = [w \in Writers |-> None] /\ agot' = [w \in Writers |-> <<>>]
                 /\ rmeta' = [r \in Readers |-> None] /\ rgot' = [r \in Readers |-> <<>>]
                 /\ rres' = [r \in Readers |-> <<"pending">>] /\ losses' = 0
            ELSE UNCHANGED vars

\* a request the specification does not expect here: report and leave the model as it is
Unexpected == Report("Step", "", Ev) /\ UNCHANGED vars

Breq ==
  /\ Ev.ev = "breq"
  /\ LET c == Ev.c  s == Ev.slot IN
     IF c \in Writers
     THEN IF wpc[c] = -3 /\ s = -1 /\ apc[c] = -1 THEN AMeta(c)
          ELSE IF wpc[c] = -3 /\ s = -2 /\ ameta[c] # None /\ apc[c] = ameta[c].n THEN ANoop(c)
          ELSE IF wpc[c] = -3 /\ s >= 0 /\ ameta[c] # None /\ apc[c] = s /\ s < ameta[c].n THEN AGetQ(c)
          ELSE IF s = -1 /\ wpc[c] = -1 THEN WMeta(c)
          ELSE IF s >= 0 /\ wpc[c] = s /\ s < N[c] THEN WChunk(c)
          ELSE Unexpected
     ELSE IF s = -1 /\ rpc[c] = -1 THEN RMeta(c)
          ELSE IF s = -1 /\ rpc[c] = 101 THEN RRefresh(c)
          ELSE IF s = -2 /\ rmeta[c] # None /\ rpc[c] = rmeta[c].n THEN RNoop(c)
          ELSE IF s >= 0 /\ rmeta[c] # None /\ rpc[c] = s /\ s < rmeta[c].n THEN RGetQ(c)
          ELSE Unexpected

Lose ==
  /\ Ev.ev = "lose"
  /\ IF Ev.slot = -1
     THEN meta' = None /\ UNCHANGED <<chunk, wpc, rpc, rmeta, rgot, rres, losses, avars>>
     ELSE chunk' = [chunk EXCEPT ![Ev.slot] = None] /\ UNCHANGED <<meta, wpc, rpc, rmeta, rgot, rres, losses, avars>>

Ret ==
  /\ Ev.ev = "ret"
  /\ LET c == Ev.c  res == Ev.res IN
     IF c \in Readers
     THEN /\ (IF res[1] = "torn" THEN Report("AllOrNothing", "miss or the complete value of one set", res) ELSE TRUE)
          /\ (IF res[1] # "torn" /\ ~(\/ (res[1] = "miss" /\ rres[c] = <<"miss">>)
                                      \/ (res[1] = "hit" /\ rres[c] = FullValue(res[2])))
              THEN Report("Model", rres[c], res) ELSE TRUE)
     ELSE (IF (res[1] = "ok") # (wpc[c] = N[c]) THEN Report("Model", wpc[c], res) ELSE TRUE)
  /\ UNCHANGED vars

TNext == l <= Len(Trace) /\ l' = l + 1 /\ (Reset \/ Breq \/ Lose \/ Ret)
TSpec == TInit /\ [][TNext]_tvars
=============================================================================
