------------------------------- MODULE OrcaSeq -------------------------------
(***************************************************************************)
(* Sequential design model: commands are issued one at a time on any of    *)
(* the configured ports; between commands any L1 entry may be evicted and  *)
(* the clock may advance.  TLC enumerates every reachable (state, command) *)
(* pair and checks                                                         *)
(*   C01  ReplyOK   the reply equals the reference map's                   *)
(*   C02  Subset    L1 is a sub-map of L2 (value, flags)                   *)
(*        RefEq     L2 is the reference map (so evictions are invisible)   *)
(*   C09  TTLOK     every tier entry carries the reference's deadline      *)
(* With Export = TRUE every transition is printed as a JSON line; the      *)
(* harness walks that graph on the real stack (see DESIGN.md, section 5).  *)
(***************************************************************************)
EXTENDS Orca, TLC, Json

CONSTANTS Keys, Blocks, Flags, TTLs, MaxLen, Ports, MaxNow, Evictions, Export, MGetLen

VARIABLES l1, l2, ref, now, err
vars == <<l1, l2, ref, now, err>>

Vals == UNION {[1..n -> Blocks] : n \in 0..MaxLen}
Short == {v \in Vals : Len(v) <= 1}

Cmds ==
  {Cmd(op, k, v, f, t) : op \in {"set", "add", "replace"}, k \in Keys, v \in Short, f \in Flags, t \in TTLs} \cup
  {Cmd(op, k, v, 0, 0) : op \in {"append", "prepend"}, k \in Keys, v \in Short \ {<<>>}} \cup
  {Cmd(op, k, <<>>, 0, 0) : op \in {"delete", "get"}, k \in Keys} \cup
  {Cmd(op, k, <<>>, 0, t) : op \in {"touch", "gat"}, k \in Keys, t \in TTLs}

\* multi-key gets (with repeated keys); quiet flags and the kind of terminator are chosen by the
\* harness when it concretises the command: they do not change what is returned per key
MGets == {[op |-> "mget", ks |-> ks] : ks \in UNION {[1..n -> Keys] : n \in 2..MGetLen}}

Empty == [k \in Keys |-> None]

Init == l1 = Empty /\ l2 = Empty /\ ref = Empty /\ now = 0 /\ err = <<>>

\* keep the value alphabet finite: an append that would exceed MaxLen is not issued
Fits(x) == x.op \in {"append", "prepend"} =>
             (IF ref[x.k] = None THEN TRUE ELSE Len(ref[x.k].v) + Len(x.v) <= MaxLen)

Issue(port, x) ==
  /\ Fits(x)
  /\ LET s == RunCmd(port, x, Start(l1, l2), now)
         r == RefReply(ref, now, x)
     IN  /\ l1' = LiveMap(s.l1, now) /\ l2' = LiveMap(s.l2, now) /\ ref' = LiveMap(r[1], now) /\ now' = now
         /\ err' = IF Class(s.out) = Class(r[2]) THEN <<>> ELSE <<"ReplyOK", port, x, s.out, r[2]>>
         /\ (Export => PrintT(<<"EDGE", ToJson([port |-> port, x |-> x, out |-> s.out,
                                 l1 |-> l1, l2 |-> l2, now |-> now, l1n |-> l1', l2n |-> l2'])>>))

\* the keys of a multi-key get are served one after the other
RECURSIVE RunMGet(_, _, _, _, _)
RunMGet(port, ks, a1, a2, acc) ==
  IF ks = <<>> THEN [l1 |-> a1, l2 |-> a2, out |-> acc]
  ELSE LET s == RunCmd(port, Cmd("get", Head(ks), <<>>, 0, 0), Start(a1, a2), now)
       IN RunMGet(port, Tail(ks), s.l1, s.l2, Append(acc, s.out))

RefMGet(ks) == [i \in DOMAIN ks |-> RefReply(ref, now, Cmd("get", ks[i], <<>>, 0, 0))[2]]

IssueMGet(port, x) ==
  LET s == RunMGet(port, x.ks, l1, l2, <<>>) IN
  /\ l1' = LiveMap(s.l1, now) /\ l2' = LiveMap(s.l2, now) /\ UNCHANGED <<ref, now>>
  /\ err' = IF s.out = RefMGet(x.ks) THEN <<>> ELSE <<"ReplyOK", port, x, s.out, RefMGet(x.ks)>>
  /\ (Export => PrintT(<<"EDGE", ToJson([port |-> port, x |-> x, out |-> <<"multi", s.out>>,
                                 l1 |-> l1, l2 |-> l2, now |-> now, l1n |-> l1', l2n |-> l2'])>>))

Evict(k) == /\ Evictions /\ l1[k] # None
            /\ l1' = [l1 EXCEPT ![k] = None] /\ UNCHANGED <<l2, ref, now, err>>
            /\ (Export => PrintT(<<"EDGE", ToJson([port |-> "evict", x |-> [k |-> k],
                                 l1 |-> l1, l2 |-> l2, now |-> now, l1n |-> l1', l2n |-> l2])>>))

Tick == /\ now < MaxNow /\ now' = now + 1 /\ UNCHANGED err
        /\ l1' = LiveMap(l1, now') /\ l2' = LiveMap(l2, now') /\ ref' = LiveMap(ref, now')
        /\ (Export => PrintT(<<"EDGE", ToJson([port |-> "tick", x |-> [k |-> ""],
                                 l1 |-> l1, l2 |-> l2, now |-> now, l1n |-> l1', l2n |-> l2'])>>))

Next == \/ \E p \in Ports, x \in Cmds : Issue(p, x)
        \/ \E p \in Ports, x \in MGets : IssueMGet(p, x)
        \/ \E k \in Keys : Evict(k)
        \/ Tick

Spec == Init /\ [][Next]_vars

ReplyOK == err = <<>>
TwoTier == Ports # {"l1only"}
Subset  == TwoTier => SubsetVF(l1, l2, now)
RefEq   == IF TwoTier THEN SameLive(l2, ref, now) ELSE SameLive(l1, ref, now)
TTLOK   == TwoTier => SubsetE(l1, l2, now)
\* an expired entry may linger in a tier, but dead entries never differ in a way a client can see
=============================================================================
