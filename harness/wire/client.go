package wire

import (
	"bufio"
	"errors"
	"fmt"
	"io"
	"net"
	"os"
	"strings"
	"sync/atomic"
	"time"
)

// Item is the outcome for one key of a get-family command.
type Item struct {
	Hit   bool
	Value []byte
	Flags uint32
	Exp   uint32
	// Explicit is true when a frame was received for the key (hit, or a not-found frame)
	Explicit bool
}

// Outcome is everything a client observes for one command.
type Outcome struct {
	Class     string   // "ok" "fail" "error" "closed" "timeout" "malformed" ; gets: "ok" when a complete answer arrived
	Status    string   // finer: "notfound" "exists" "notstored" "enomem" ... or text line
	Items     []Item   // get-family: one per requested key
	Terms     int      // terminators seen: END lines / the closing no-op frame
	Frames    int      // reply units received for the command (excluding the barrier)
	Anomalies []string // violations of reply discipline noticed while decoding
	Closed    bool     // the connection was closed by the server
}

// Client is a strict protocol client over one connection.
type Client struct {
	Text    bool
	Conn    net.Conn
	R       *bufio.Reader
	Timeout time.Duration
	barrier uint32
}

func Dial(path string, text bool) (*Client, error) {
	c, err := net.Dial("unix", path)
	if err != nil {
		return nil, err
	}
	return &Client{Text: text, Conn: c, R: bufio.NewReaderSize(c, 1<<16), Timeout: DefaultTimeout(), barrier: 0xBA000000}, nil
}

// timeouts counts the replies this process has waited for in vain.
var timeouts int32

// DefaultTimeout is how long a client waits for a reply unless a driver sets its own deadline: a
// minute - a machine under heavy load can stall a process for seconds, and an answer that is merely
// late is not a missing answer. Once three replies have not come at all the code under test does
// hang, and every further wait is cut to three seconds so that the run still ends.
func DefaultTimeout() time.Duration {
	if atomic.LoadInt32(&timeouts) >= 3 {
		return 3 * time.Second
	}
	return 60 * time.Second
}

func (c *Client) Close() { c.Conn.Close() }

var binStatusName = map[uint16]string{1: "notfound", 2: "exists", 3: "toobig", 4: "einval", 5: "notstored",
	6: "badval", 0x20: "auth", 0x81: "unknown", 0x82: "enomem", 0x83: "notsupported", 0x84: "internal", 0x85: "busy", 0x86: "temp"}

func classOfStatus(st uint16) string {
	switch st {
	case 0:
		return "ok"
	case 1, 2, 5:
		return "fail"
	}
	return "error"
}

func isTimeout(err error) bool {
	var ne net.Error
	return errors.As(err, &ne) && ne.Timeout() || errors.Is(err, os.ErrDeadlineExceeded)
}

// Do sends one command followed by a barrier (a no-op) and collects everything the server sends
// up to the barrier's reply. Every reply unit before the barrier reply belongs to the command.
func (c *Client) Do(cmd Command) Outcome {
	var out Outcome
	var req []byte
	needBarrier := true
	if c.Text {
		req = EncodeText(cmd)
	} else {
		req = EncodeBinary(cmd)
	}
	var barrierOpaque uint32
	switch {
	case cmd.Op == "quit":
		needBarrier = false
	case cmd.Op == "noop":
		needBarrier = false
		barrierOpaque = cmd.Opaque
	case !c.Text && (cmd.Op == "get" || cmd.Op == "gete") && cmd.NoopEnd:
		needBarrier = false
		barrierOpaque = cmd.Opaque + uint32(len(cmd.Keys))
	}
	if needBarrier {
		c.barrier++
		barrierOpaque = c.barrier
		if c.Text {
			req = append(req, "noop\r\n"...)
		} else {
			req = append(req, EncodeBinary(Command{Op: "noop", Opaque: barrierOpaque})...)
		}
	}
	c.Conn.SetDeadline(time.Now().Add(c.Timeout))
	if _, err := c.Conn.Write(req); err != nil {
		out.Class, out.Closed = "closed", true
		return out
	}
	var frames []Frame
	sawBarrier := false
	for {
		var f Frame
		var err error
		if c.Text {
			f, err = ReadTextFrame(c.R)
		} else {
			f, err = ReadBinFrame(c.R)
		}
		if err != nil {
			switch {
			case isTimeout(err):
				out.Class = "timeout"
				atomic.AddInt32(&timeouts, 1)
			case errors.Is(err, ErrMalformed):
				out.Class = "malformed"
				out.Anomalies = append(out.Anomalies, err.Error())
			default:
				out.Class, out.Closed = "closed", true
			}
			break
		}
		if cmd.Op == "quit" {
			frames = append(frames, f)
			continue // read until the server closes
		}
		if c.Text && f.Kind == "line" && f.Line == "Yep, it works." {
			sawBarrier = true
			break
		}
		if !c.Text && f.Opcode == 0x0a && f.Opaque == barrierOpaque && f.Kind == "ok" {
			sawBarrier = true
			break
		}
		frames = append(frames, f)
		if !c.Text && !needBarrier && cmd.NoopEnd && f.Kind == "status" && f.Opaque == barrierOpaque {
			// an error reply attributed to the no-op that closes the batch ends the batch
			sawBarrier = true
			break
		}
	}
	out.Frames = len(frames)
	early := out.Class
	if c.Text {
		c.interpretText(cmd, frames, &out)
	} else {
		c.interpretBin(cmd, frames, &out)
	}
	if early == "timeout" || early == "malformed" {
		out.Class = early
	}
	if !sawBarrier && out.Class != "timeout" && out.Class != "malformed" && cmd.Op != "quit" {
		out.Class, out.Closed = "closed", true
	}
	if (cmd.Op == "noop" || (!c.Text && cmd.NoopEnd)) && sawBarrier {
		out.Terms++
		if cmd.Op == "noop" {
			out.Class = "ok"
		}
	}
	return out
}

func (c *Client) interpretBin(cmd Command, frames []Frame, out *Outcome) {
	anom := func(f string, a ...interface{}) { out.Anomalies = append(out.Anomalies, fmt.Sprintf(f, a...)) }
	switch cmd.Op {
	case "get", "gete":
		out.Items = make([]Item, len(cmd.Keys))
		seen := make([]bool, len(cmd.Keys))
		wantOp := binOps[cmd.Op][0]
		for _, f := range frames {
			idx := int(int64(f.Opaque) - int64(cmd.Opaque))
			if cmd.NoopEnd && idx == len(cmd.Keys) && f.Kind == "status" && f.Opaque >= cmd.Opaque {
				// the error ends the batch in place of the no-op reply
				out.Class, out.Status = classOfStatus(f.Status), binStatusName[f.Status]
				continue
			}
			if idx < 0 || idx >= len(cmd.Keys) || f.Opaque < cmd.Opaque {
				anom("frame with opaque %#x cannot be attributed (status %#x opcode %#x)", f.Opaque, f.Status, f.Opcode)
				if f.Kind == "status" && classOfStatus(f.Status) == "error" {
					out.Class, out.Status = "error", binStatusName[f.Status]
				}
				continue
			}
			if seen[idx] {
				anom("two frames for key %d", idx)
				continue
			}
			seen[idx] = true
			if f.Opcode != wantOp && f.Opcode != binOps[cmd.Op][1] {
				anom("opcode %#x in reply to %s", f.Opcode, cmd.Op)
			}
			switch {
			case f.Kind == "hit":
				out.Items[idx] = Item{Hit: true, Value: f.Value, Flags: f.Flags, Exp: f.Exp, Explicit: true}
			case f.Kind == "status" && f.Status == 1:
				out.Items[idx] = Item{Explicit: true}
				if idx < len(cmd.Quiet) && cmd.Quiet[idx] {
					anom("not-found frame for quiet key %d", idx)
				}
			case f.Kind == "status":
				out.Class, out.Status = classOfStatus(f.Status), binStatusName[f.Status]
			default:
				anom("unexpected frame kind %s for key %d", f.Kind, idx)
			}
		}
		for i := range cmd.Keys {
			q := i < len(cmd.Quiet) && cmd.Quiet[i]
			if !seen[i] && !q && out.Class == "" {
				anom("no frame for non-quiet key %d", i)
			}
		}
		if out.Class == "" {
			out.Class = "ok"
		}
	case "quit":
		out.Class, out.Closed = "closed", true
		if len(frames) > 1 {
			anom("%d frames after quit", len(frames))
		}
	case "noop":
		if len(frames) != 0 {
			anom("%d stray frames before the noop reply", len(frames))
		}
	case "stats":
		// key/value frames then an empty terminator, all with the request's opaque
		if len(frames) == 0 {
			if out.Class == "" {
				anom("no reply to stats")
			}
			return
		}
		for _, f := range frames {
			if f.Opaque != cmd.Opaque {
				anom("stats frame opaque %#x, want %#x", f.Opaque, cmd.Opaque)
			}
			if f.Opcode != 0x10 {
				anom("stats frame opcode %#x", f.Opcode)
			}
		}
		last := frames[len(frames)-1]
		if len(last.Key) != 0 || len(last.Value) != 0 {
			anom("stats not terminated by an empty frame")
		} else {
			out.Terms = 1
		}
		out.Class = "ok"
	default:
		q := cmd.quiet0()
		if len(frames) == 0 {
			if q && out.Class == "" {
				out.Class = "ok" // quiet success is silent
			} else if out.Class == "" {
				anom("no reply to %s", cmd.Op)
			}
			return
		}
		if len(frames) > 1 {
			anom("%d frames in reply to %s", len(frames), cmd.Op)
		}
		f := frames[0]
		if f.Opaque != cmd.Opaque {
			anom("opaque %#x in reply to %s with opaque %#x", f.Opaque, cmd.Op, cmd.Opaque)
		}
		want := binOps[cmd.Op]
		if cmd.Op != "unknown" && f.Opcode != want[0] && f.Opcode != want[1] {
			anom("opcode %#x in reply to %s", f.Opcode, cmd.Op)
		}
		switch f.Kind {
		case "hit":
			if cmd.Op != "gat" {
				anom("value frame in reply to %s", cmd.Op)
			}
			out.Class = "ok"
			out.Items = []Item{{Hit: true, Value: f.Value, Flags: f.Flags, Explicit: true}}
		case "ok":
			out.Class = "ok"
			if q {
				anom("reply to a successful quiet %s", cmd.Op)
			}
			if cmd.Op == "gat" {
				anom("gat answered without value")
			}
		case "status":
			out.Class, out.Status = classOfStatus(f.Status), binStatusName[f.Status]
			if cmd.Op == "gat" && f.Status == 1 {
				out.Class = "ok"
				out.Items = []Item{{Explicit: true}}
			}
		}
	}
}

func (c *Client) interpretText(cmd Command, frames []Frame, out *Outcome) {
	anom := func(f string, a ...interface{}) { out.Anomalies = append(out.Anomalies, fmt.Sprintf(f, a...)) }
	lineClass := func(l string) (string, string) {
		switch {
		case l == "STORED" || l == "DELETED" || l == "TOUCHED":
			return "ok", ""
		case l == "NOT_STORED":
			return "fail", "notstored"
		case l == "NOT_FOUND":
			return "fail", "notfound"
		case l == "EXISTS":
			return "fail", "exists"
		case strings.HasPrefix(l, "ERROR") || strings.HasPrefix(l, "CLIENT_ERROR") || strings.HasPrefix(l, "SERVER_ERROR"):
			return "error", l
		}
		return "malformed", l
	}
	switch cmd.Op {
	case "get":
		out.Items = make([]Item, len(cmd.Keys))
		used := make([]bool, len(cmd.Keys))
		for i, f := range frames {
			if f.Kind == "value" {
				if out.Terms > 0 {
					anom("VALUE after END")
				}
				found := false
				for j, k := range cmd.Keys {
					if !used[j] && string(k) == string(f.Key) {
						used[j], found = true, true
						out.Items[j] = Item{Hit: true, Value: f.Value, Flags: f.Flags, Explicit: true}
						break
					}
				}
				if !found {
					anom("VALUE for key %q that was not requested (or twice)", f.Key)
				}
				continue
			}
			if f.Line == "END" {
				out.Terms++
				if i != len(frames)-1 {
					anom("END before the end of the reply")
				}
				continue
			}
			cl, st := lineClass(f.Line)
			out.Class, out.Status = cl, st
			if cl == "malformed" {
				anom("unexpected line %q in reply to get", f.Line)
			}
		}
		if out.Class == "" {
			if out.Terms == 0 {
				anom("get without END")
			}
			out.Class = "ok"
		}
	case "quit":
		out.Class, out.Closed = "closed", true
	case "noop":
		if len(frames) != 0 {
			anom("%d stray lines before the noop reply", len(frames))
		}
	case "version":
		if len(frames) != 1 || !strings.HasPrefix(frames[0].Line, "VERSION ") {
			anom("bad version reply")
		}
		out.Class = "ok"
	case "stats":
		if len(frames) == 0 || frames[len(frames)-1].Line != "END" {
			anom("stats not terminated by END")
		} else {
			out.Terms = 1
		}
		out.Class = "ok"
	default:
		if len(frames) == 0 {
			if out.Class == "" {
				anom("no reply to %s", cmd.Op)
			}
			return
		}
		if len(frames) > 1 {
			anom("%d lines in reply to %s", len(frames), cmd.Op)
		}
		f := frames[0]
		if f.Kind != "line" {
			anom("VALUE block in reply to %s", cmd.Op)
			out.Class = "malformed"
			return
		}
		out.Class, out.Status = lineClass(f.Line)
		if out.Class == "malformed" {
			anom("unexpected line %q in reply to %s", f.Line, cmd.Op)
		}
	}
}

// ReadAll drains whatever the server still sends until it closes or the deadline passes.
func (c *Client) ReadAll(d time.Duration) ([]byte, error) {
	c.Conn.SetReadDeadline(time.Now().Add(d))
	b, err := io.ReadAll(c.R)
	return b, err
}
