package wire

import (
	"fmt"
	"strings"
	"sync/atomic"
	"time"
)

// Unit is an abstract reply unit as used by spec/Replies.tla: [type, key index].
type Unit [2]interface{}

// ReqShape is the request as spec/Replies.tla sees it.
type ReqShape struct {
	Kind    string `json:"kind"`
	NK      int    `json:"nk"`
	Quiet   []bool `json:"quiet"`
	NoopEnd bool   `json:"noopend"`
}

func Shape(c Command, text bool) ReqShape {
	s := ReqShape{Quiet: []bool{c.quiet0() && !text}}
	switch c.Op {
	case "set", "add", "replace", "append", "prepend":
		s.Kind = "store"
	case "delete":
		s.Kind = "del"
	case "get", "gete":
		s.Kind = "get"
		s.NK = len(c.Keys)
		s.Quiet = make([]bool, len(c.Keys))
		for i := range c.Keys {
			s.Quiet[i] = !text && i < len(c.Quiet) && c.Quiet[i]
		}
		s.NoopEnd = c.NoopEnd && !text
	default:
		s.Kind = c.Op
	}
	return s
}

// binUnits turns the frames that carry one of the request's opaques into units.
func binUnits(c Command, frames []Frame) []Unit {
	us := []Unit{}
	want := binOps[c.Op]
	for _, f := range frames {
		idx := int(f.Opaque - c.Opaque)
		okOp := f.Opcode == want[0] || f.Opcode == want[1]
		switch c.Op {
		case "get", "gete":
			switch {
			case idx == len(c.Keys) && c.NoopEnd && f.Opcode == 0x0a && f.Kind == "ok":
				us = append(us, Unit{"term", 0})
			case idx >= len(c.Keys):
				us = append(us, Unit{"badidx", idx})
			case !okOp:
				us = append(us, Unit{"badop", idx + 1})
			case f.Kind == "hit":
				us = append(us, Unit{"hit", idx + 1})
			case f.Kind == "status" && f.Status == 1:
				us = append(us, Unit{"nf", idx + 1})
			default:
				us = append(us, Unit{"err", 0})
			}
		case "gat":
			switch {
			case !okOp:
				us = append(us, Unit{"badop", 0})
			case f.Kind == "hit":
				us = append(us, Unit{"hit", 1})
			case f.Kind == "status" && f.Status == 1:
				us = append(us, Unit{"nf", 1})
			default:
				us = append(us, Unit{"err", 0})
			}
		case "noop":
			us = append(us, Unit{"term", 0})
		case "version":
			us = append(us, Unit{"body", 0})
		case "stats":
			if len(f.Key) == 0 && len(f.Value) == 0 {
				us = append(us, Unit{"term", 0})
			} else {
				us = append(us, Unit{"body", 0})
			}
		default:
			switch {
			case !okOp && c.Op != "unknown":
				us = append(us, Unit{"badop", 0})
			case f.Kind == "status":
				us = append(us, Unit{classOfStatus(f.Status), 0})
				if classOfStatus(f.Status) == "error" {
					us[len(us)-1][0] = "err"
				}
			case f.Kind == "ok":
				us = append(us, Unit{"ok", 0})
			default:
				us = append(us, Unit{"other", 0})
			}
		}
	}
	return us
}

func textUnit(c Command, f Frame, used []bool) Unit {
	if f.Kind == "value" {
		for j, k := range c.Keys {
			if !used[j] && string(k) == string(f.Key) {
				used[j] = true
				return Unit{"hit", j + 1}
			}
		}
		return Unit{"badkey", 0}
	}
	l := f.Line
	switch {
	case l == "END":
		return Unit{"term", 0}
	case l == "Yep, it works.":
		return Unit{"term", 0}
	case l == "STORED" || l == "DELETED" || l == "TOUCHED":
		return Unit{"ok", 0}
	case l == "NOT_STORED" || l == "NOT_FOUND" || l == "EXISTS":
		return Unit{"fail", 0}
	case strings.HasPrefix(l, "ERROR") || strings.HasPrefix(l, "CLIENT_ERROR") || strings.HasPrefix(l, "SERVER_ERROR"):
		return Unit{"err", 0}
	case strings.HasPrefix(l, "VERSION ") || strings.HasPrefix(l, "STAT "):
		return Unit{"body", 0}
	}
	return Unit{"other", 0}
}

// PipeResult is what was observed for one request of a pipeline.
type PipeResult struct {
	Req    ReqShape `json:"req"`
	Units  []Unit   `json:"units"`
	Stray  int      `json:"stray"`
	Closed bool     `json:"closed"`
	// StrayInfo describes the units nobody asked for (opcode/status/opaque, or the text line)
	StrayInfo []string `json:"strayinfo,omitempty"`
}

// Pipeline writes all commands back to back, then a barrier, and attributes everything received
// to the requests: binary by opaque (commands must use disjoint opaque ranges), text by position.
// Stray units are reported on the last request.
func (c *Client) Pipeline(cmds []Command, raws [][]byte) []PipeResult {
	var req []byte
	for i, cmd := range cmds {
		if raws != nil && raws[i] != nil {
			req = append(req, raws[i]...)
		} else if c.Text {
			req = append(req, EncodeText(cmd)...)
		} else {
			req = append(req, EncodeBinary(cmd)...)
		}
	}
	c.barrier++
	bo := c.barrier
	if c.Text {
		req = append(req, "noop\r\n"...)
	} else {
		req = append(req, EncodeBinary(Command{Op: "noop", Opaque: bo})...)
	}
	res := make([]PipeResult, len(cmds))
	for i, cmd := range cmds {
		res[i].Req = Shape(cmd, c.Text)
		res[i].Units = []Unit{}
	}
	c.Conn.SetDeadline(time.Now().Add(c.Timeout))
	closed := false
	if _, err := c.Conn.Write(req); err != nil {
		closed = true
	}
	var frames []Frame
	sawBarrier := false
	nNoops := 0
	for _, cmd := range cmds {
		if cmd.Op == "noop" {
			nNoops++
		}
	}
	for !closed {
		var f Frame
		var err error
		if c.Text {
			f, err = ReadTextFrame(c.R)
		} else {
			f, err = ReadBinFrame(c.R)
		}
		if err != nil {
			if isTimeout(err) {
				atomic.AddInt32(&timeouts, 1)
			}
			closed = true
			break
		}
		if c.Text && f.Kind == "line" && f.Line == "Yep, it works." {
			if nNoops == 0 {
				sawBarrier = true
				break
			}
			nNoops--
		}
		if !c.Text && f.Opcode == 0x0a && f.Opaque == bo {
			sawBarrier = true
			break
		}
		frames = append(frames, f)
	}
	_ = sawBarrier
	if c.Text {
		pos := 0
		for i, cmd := range cmds {
			used := make([]bool, len(cmd.Keys))
			switch cmd.Op {
			case "get", "stats":
				for pos < len(frames) {
					u := textUnit(cmd, frames[pos], used)
					pos++
					res[i].Units = append(res[i].Units, u)
					if u[0] == "term" || u[0] == "err" {
						break
					}
				}
			default:
				if pos < len(frames) {
					res[i].Units = append(res[i].Units, textUnit(cmd, frames[pos], used))
					pos++
				}
			}
		}
		if len(cmds) > 0 {
			res[len(cmds)-1].Stray = len(frames) - pos
			for _, f := range frames[pos:] {
				if f.Kind == "value" {
					res[len(cmds)-1].StrayInfo = append(res[len(cmds)-1].StrayInfo, "VALUE")
				} else {
					res[len(cmds)-1].StrayInfo = append(res[len(cmds)-1].StrayInfo, strings.SplitN(f.Line, " ", 2)[0])
				}
			}
		}
	} else {
		taken := make([]bool, len(frames))
		for i, cmd := range cmds {
			span := uint32(1)
			if cmd.Op == "get" || cmd.Op == "gete" {
				span = uint32(len(cmd.Keys)) + 1
			}
			var mine []Frame
			for j, f := range frames {
				if !taken[j] && f.Opaque >= cmd.Opaque && f.Opaque < cmd.Opaque+span {
					taken[j] = true
					mine = append(mine, f)
				}
			}
			res[i].Units = binUnits(cmd, mine)
		}
		stray := 0
		var info []string
		for j, f := range frames {
			if !taken[j] {
				stray++
				info = append(info, fmt.Sprintf("opcode=%#x status=%#x opaque=%#x", f.Opcode, f.Status, f.Opaque))
			}
		}
		if len(cmds) > 0 {
			res[len(cmds)-1].Stray = stray
			res[len(cmds)-1].StrayInfo = info
		}
	}
	if closed {
		// requests without any unit were cut off by the close
		for i := range res {
			if len(res[i].Units) == 0 {
				res[i].Closed = true
			}
		}
		if len(res) > 0 {
			res[len(res)-1].Closed = true
		}
	}
	return res
}
