// Package wire is the harness's own, independent and strict client-side codec for the subset of
// the memcached binary and text protocols that rend serves. It never imports rend's protocol
// packages. Decoding is strict on purpose: a malformed frame from rend is an observation.
package wire

import (
	"bufio"
	"bytes"
	"encoding/binary"
	"errors"
	"fmt"
	"io"
	"strconv"
	"strings"
)

// Command is a protocol-independent client command.
type Command struct {
	Op      string   // set add replace append prepend delete touch get gat gete noop version stats quit unknown
	Keys    [][]byte // one key, or several for get/gete
	Quiet   []bool   // get: per key quiet flag (binary); set-family: Quiet[0] = quiet variant
	NoopEnd bool     // get: batch closed by a no-op instead of a plain get
	Data    []byte
	Flags   uint32
	Exptime uint32
	Opaque  uint32 // base opaque; key i of a get uses Opaque+i, the closing no-op Opaque+len(keys)
}

// Frame is one decoded reply unit.
type Frame struct {
	Kind   string // binary: "ok" "hit" "status" ; text: "line" "value"
	Opcode byte
	Status uint16
	Opaque uint32
	Flags  uint32
	Exp    uint32
	Key    []byte
	Value  []byte
	Line   string
}

var binOps = map[string][2]byte{ // normal, quiet
	"set": {0x01, 0x11}, "add": {0x02, 0x12}, "replace": {0x03, 0x13}, "append": {0x0e, 0x19},
	"prepend": {0x0f, 0x1a}, "delete": {0x04, 0x14}, "touch": {0x1c, 0x1c}, "gat": {0x1d, 0x1e},
	"noop": {0x0a, 0x0a}, "version": {0x0b, 0x0b}, "stats": {0x10, 0x10}, "quit": {0x07, 0x17},
	"get": {0x00, 0x09}, "gete": {0x40, 0x41},
}

// BinHeader builds a raw request header.
func BinHeader(op byte, keylen, extlen int, total uint32, opaque uint32) []byte {
	b := make([]byte, 24)
	b[0] = 0x80
	b[1] = op
	binary.BigEndian.PutUint16(b[2:4], uint16(keylen))
	b[4] = byte(extlen)
	binary.BigEndian.PutUint32(b[8:12], total)
	binary.BigEndian.PutUint32(b[12:16], opaque)
	return b
}

func binReq(op byte, extras, key, value []byte, opaque uint32) []byte {
	b := BinHeader(op, len(key), len(extras), uint32(len(extras)+len(key)+len(value)), opaque)
	b = append(b, extras...)
	b = append(b, key...)
	b = append(b, value...)
	return b
}

func u32(v uint32) []byte { b := make([]byte, 4); binary.BigEndian.PutUint32(b, v); return b }

func (c Command) quiet0() bool { return len(c.Quiet) > 0 && c.Quiet[0] }

// EncodeBinary renders the command in the binary protocol.
func EncodeBinary(c Command) []byte {
	pick := func(q bool) byte {
		o := binOps[c.Op]
		if q {
			return o[1]
		}
		return o[0]
	}
	switch c.Op {
	case "set", "add", "replace":
		return binReq(pick(c.quiet0()), append(u32(c.Flags), u32(c.Exptime)...), c.Keys[0], c.Data, c.Opaque)
	case "append", "prepend":
		return binReq(pick(c.quiet0()), nil, c.Keys[0], c.Data, c.Opaque)
	case "delete":
		return binReq(pick(false), nil, c.Keys[0], nil, c.Opaque)
	case "touch", "gat":
		return binReq(pick(false), u32(c.Exptime), c.Keys[0], nil, c.Opaque)
	case "noop", "version", "stats":
		return binReq(pick(false), nil, nil, nil, c.Opaque)
	case "quit":
		return binReq(pick(c.quiet0()), nil, nil, nil, c.Opaque)
	case "get", "gete":
		var out []byte
		for i, k := range c.Keys {
			q := i < len(c.Quiet) && c.Quiet[i]
			out = append(out, binReq(pick(q), nil, k, nil, c.Opaque+uint32(i))...)
		}
		if c.NoopEnd {
			out = append(out, binReq(0x0a, nil, nil, nil, c.Opaque+uint32(len(c.Keys)))...)
		}
		return out
	case "unknown":
		return binReq(0x3f, nil, c.Keys[0], nil, c.Opaque)
	}
	panic("wire: cannot encode " + c.Op)
}

// EncodeText renders the command in the text protocol (no gat, no quiet variants).
func EncodeText(c Command) []byte {
	switch c.Op {
	case "set", "add", "replace", "append", "prepend":
		var b bytes.Buffer
		fmt.Fprintf(&b, "%s %s %d %d %d\r\n", c.Op, c.Keys[0], c.Flags, c.Exptime, len(c.Data))
		b.Write(c.Data)
		b.WriteString("\r\n")
		return b.Bytes()
	case "delete":
		return []byte(fmt.Sprintf("delete %s\r\n", c.Keys[0]))
	case "touch":
		return []byte(fmt.Sprintf("touch %s %d\r\n", c.Keys[0], c.Exptime))
	case "get":
		ks := make([]string, len(c.Keys))
		for i, k := range c.Keys {
			ks[i] = string(k)
		}
		return []byte("get " + strings.Join(ks, " ") + "\r\n")
	case "noop", "version", "stats", "quit":
		return []byte(c.Op + "\r\n")
	case "unknown":
		return []byte("bogus " + string(c.Keys[0]) + "\r\n")
	}
	panic("wire: cannot encode in text " + c.Op)
}

var ErrMalformed = errors.New("malformed reply")

var knownStatus = map[uint16]bool{0: true, 1: true, 2: true, 3: true, 4: true, 5: true, 6: true, 0x20: true,
	0x81: true, 0x82: true, 0x83: true, 0x84: true, 0x85: true, 0x86: true}

// ReadBinFrame reads and strictly checks one binary response frame.
func ReadBinFrame(r *bufio.Reader) (Frame, error) {
	h := make([]byte, 24)
	if _, err := io.ReadFull(r, h); err != nil {
		return Frame{}, err
	}
	if h[0] != 0x81 {
		return Frame{}, fmt.Errorf("%w: magic %#x", ErrMalformed, h[0])
	}
	f := Frame{Opcode: h[1], Status: binary.BigEndian.Uint16(h[6:8]), Opaque: binary.BigEndian.Uint32(h[12:16])}
	keylen := int(binary.BigEndian.Uint16(h[2:4]))
	extlen := int(h[4])
	total := int(binary.BigEndian.Uint32(h[8:12]))
	if total < keylen+extlen {
		return f, fmt.Errorf("%w: total %d < key %d + extras %d", ErrMalformed, total, keylen, extlen)
	}
	if total > 64<<20 {
		return f, fmt.Errorf("%w: absurd total %d", ErrMalformed, total)
	}
	if h[5] != 0 {
		return f, fmt.Errorf("%w: data type %d", ErrMalformed, h[5])
	}
	body := make([]byte, total)
	if _, err := io.ReadFull(r, body); err != nil {
		return f, fmt.Errorf("%w: short body: %v", ErrMalformed, err)
	}
	if !knownStatus[f.Status] {
		return f, fmt.Errorf("%w: status %#x", ErrMalformed, f.Status)
	}
	ext := body[:extlen]
	f.Key = body[extlen : extlen+keylen]
	f.Value = body[extlen+keylen:]
	if f.Status != 0 {
		f.Kind = "status"
		if extlen != 0 || keylen != 0 {
			return f, fmt.Errorf("%w: error frame with extras/key", ErrMalformed)
		}
		return f, nil
	}
	switch f.Opcode {
	case 0x00, 0x09, 0x1d, 0x1e:
		if extlen != 4 {
			return f, fmt.Errorf("%w: get hit with %d extras", ErrMalformed, extlen)
		}
		f.Kind = "hit"
		f.Flags = binary.BigEndian.Uint32(ext)
	case 0x40, 0x41:
		if extlen != 8 {
			return f, fmt.Errorf("%w: gete hit with %d extras", ErrMalformed, extlen)
		}
		f.Kind = "hit"
		f.Flags = binary.BigEndian.Uint32(ext[0:4])
		f.Exp = binary.BigEndian.Uint32(ext[4:8])
	case 0x0b, 0x10:
		f.Kind = "ok"
		if extlen != 0 {
			return f, fmt.Errorf("%w: extras on opcode %#x", ErrMalformed, f.Opcode)
		}
	default:
		f.Kind = "ok"
		if total != 0 {
			return f, fmt.Errorf("%w: body on success opcode %#x", ErrMalformed, f.Opcode)
		}
	}
	return f, nil
}

// ReadTextFrame reads one text reply unit: a line, or a VALUE block.
func ReadTextFrame(r *bufio.Reader) (Frame, error) {
	line, err := r.ReadString('\n')
	if err != nil {
		if line != "" {
			return Frame{}, fmt.Errorf("%w: partial line %q", ErrMalformed, line)
		}
		return Frame{}, err
	}
	if !strings.HasSuffix(line, "\r\n") {
		// rend's stats reply uses a bare \n inside; tolerate exactly that line
		if strings.HasPrefix(line, "STAT ") {
			return Frame{Kind: "line", Line: strings.TrimRight(line, "\n")}, nil
		}
		return Frame{}, fmt.Errorf("%w: line without CRLF %q", ErrMalformed, line)
	}
	line = line[:len(line)-2]
	if strings.HasPrefix(line, "VALUE ") {
		p := strings.Split(line, " ")
		if len(p) != 4 {
			return Frame{}, fmt.Errorf("%w: VALUE line %q", ErrMalformed, line)
		}
		fl, e1 := strconv.ParseUint(p[2], 10, 32)
		n, e2 := strconv.ParseUint(p[3], 10, 31)
		if e1 != nil || e2 != nil {
			return Frame{}, fmt.Errorf("%w: VALUE line %q", ErrMalformed, line)
		}
		data := make([]byte, n+2)
		if _, err := io.ReadFull(r, data); err != nil {
			return Frame{}, fmt.Errorf("%w: short data block", ErrMalformed)
		}
		if data[n] != '\r' || data[n+1] != '\n' {
			return Frame{}, fmt.Errorf("%w: data block not followed by CRLF", ErrMalformed)
		}
		return Frame{Kind: "value", Key: []byte(p[1]), Flags: uint32(fl), Value: data[:n]}, nil
	}
	return Frame{Kind: "line", Line: line}, nil
}
