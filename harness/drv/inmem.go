package drv

// Driver "inmem": conformance of the in-memory backend (handlers/inmem) with the reference map,
// and its safety under concurrent use.
//
//   -mode seq          N random sequential traces of Len calls over keys k1..k3 through every method
//                      of handlers.Handler; each call is logged in model terms (HandlerTrace.tla).
//   -mode seq-ticks=K  the same with K clock ticks per trace made of real sleeps (TTL code 1 = 1 s,
//                      one tick = 2.1 s): all traces run phase by phase so that the sleeps are shared.
//   -mode conc         N rounds; each round re-executes this binary (-mode conc-child) with 2..32
//                      goroutines hammering the shared instance, because a "fatal error: concurrent
//                      map writes" cannot be recovered from: the parent records exit status and
//                      stderr and emits {"ev":"proc",...}. The child logs every goroutine's
//                      private-key calls as a sequential trace of its own.
//
// The backend is a process-wide singleton that cannot be emptied: every trace uses its own key prefix.

import (
	"bytes"
	"context"
	"encoding/json"
	"fmt"
	"math/rand"
	"os"
	"os/exec"
	"reflect"
	"strconv"
	"strings"
	"sync"
	"time"

	"github.com/netflix/rend/common"
	"github.com/netflix/rend/handlers"
	"github.com/netflix/rend/handlers/inmem"

	"verif/harness/absx"
)

func init() { Drivers["inmem"] = Inmem }

// Inmem dispatches on -mode.
func Inmem(a Args) {
	switch {
	case a.Mode == "seq" || a.Mode == "":
		inmemSeq(a, 0)
	case strings.HasPrefix(a.Mode, "seq-ticks"):
		k := 2
		if i := strings.IndexByte(a.Mode, '='); i >= 0 {
			n, err := strconv.Atoi(a.Mode[i+1:])
			must(err)
			k = n
		}
		inmemSeq(a, k)
	case a.Mode == "conc":
		inmemConc(a)
	case a.Mode == "conc-child":
		inmemConcChild(a)
	default:
		must(fmt.Errorf("inmem: unknown mode %q", a.Mode))
	}
}

// ---------------------------------------------------------------------------------------------
// calling a handlers.Handler in model terms

// hCaller concretises model commands for one handler and abstracts what comes back. Nothing in it
// is specific to the in-memory backend.
type hCaller struct {
	h      handlers.Handler
	w      *absx.World // blocks must exist already when used from several goroutines
	prefix string
	ttl    func(code int) uint32
	rng    *rand.Rand
	opq    uint32
}

func (c *hCaller) key(name string) []byte { return []byte(c.prefix + name) }

// data returns a fresh buffer (the handler may keep it), sometimes with spare capacity so that an
// implementation appending in place is exercised.
func (c *hCaller) data(ids []int) []byte {
	b := c.w.Value(ids)
	out := make([]byte, len(b), len(b)+8*c.rng.Intn(3))
	copy(out, b)
	return out
}

func hErrRes(err error) []interface{} {
	switch err {
	case nil:
		return []interface{}{"ok"}
	case common.ErrKeyNotFound, common.ErrKeyExists, common.ErrItemNotStored:
		return []interface{}{"fail"}
	}
	return []interface{}{"error", err.Error()}
}

func (c *hCaller) item(miss bool, data []byte, flags uint32) []interface{} {
	if miss {
		return []interface{}{"miss"}
	}
	return []interface{}{"hit", c.w.ProjectOrCorrupt(data), c.w.FlagsBack(flags)}
}

// call executes one model command; the second result is the absolute expiry GetE reported
// (informational, not compared).
func (c *hCaller) call(m MCmd) (res []interface{}, exps []interface{}) {
	c.opq += 16
	opq := c.opq
	exps = []interface{}{}
	switch m.Op {
	case "set", "add", "replace", "append", "prepend":
		req := common.SetRequest{Key: c.key(m.K), Data: c.data(m.V), Flags: c.w.Flags(m.F), Exptime: c.ttl(m.T), Opaque: opq}
		var err error
		switch m.Op {
		case "set":
			err = c.h.Set(req)
		case "add":
			err = c.h.Add(req)
		case "replace":
			err = c.h.Replace(req)
		case "append":
			err = c.h.Append(req)
		default:
			err = c.h.Prepend(req)
		}
		return hErrRes(err), exps
	case "delete":
		return hErrRes(c.h.Delete(common.DeleteRequest{Key: c.key(m.K), Opaque: opq})), exps
	case "touch":
		return hErrRes(c.h.Touch(common.TouchRequest{Key: c.key(m.K), Exptime: c.ttl(m.T), Opaque: opq})), exps
	case "gat":
		k := c.key(m.K)
		r, err := c.h.GAT(common.GATRequest{Key: k, Exptime: c.ttl(m.T), Opaque: opq})
		if err == common.ErrKeyNotFound {
			return []interface{}{"miss"}, exps
		}
		if err != nil {
			return []interface{}{"error", err.Error()}, exps
		}
		if r.Opaque != opq || !bytes.Equal(r.Key, k) {
			return []interface{}{"malformed", "gat response for another request"}, exps
		}
		return c.item(r.Miss, r.Data, r.Flags), exps
	case "get", "gete":
		names := m.Keys
		multi := len(names) > 0
		if !multi {
			names = []string{m.K}
		}
		req := common.GetRequest{NoopOpaque: opq + 15}
		for i, n := range names {
			req.Keys = append(req.Keys, c.key(n))
			req.Opaques = append(req.Opaques, opq+uint32(i))
			q := false
			if i < len(m.Quiet) {
				q = m.Quiet[i]
			}
			req.Quiet = append(req.Quiet, q)
		}
		items := make([]interface{}, len(names))
		exps = make([]interface{}, len(names))
		for i := range exps {
			exps[i] = "0"
		}
		bad := ""
		put := func(key []byte, o uint32, quiet, miss bool, data []byte, flags, exp uint32) {
			i := int(o - opq)
			switch {
			case o < opq || i >= len(names):
				bad = "response with an opaque that was not sent"
			case items[i] != nil:
				bad = "two responses for one key"
			case !bytes.Equal(key, req.Keys[i]):
				bad = "response key differs from the requested key"
			case quiet != req.Quiet[i]:
				bad = "quiet flag not echoed"
			default:
				items[i] = c.item(miss, data, flags)
				exps[i] = strconv.FormatUint(uint64(exp), 10)
			}
		}
		var errs <-chan error
		var gch <-chan common.GetResponse
		var ech <-chan common.GetEResponse
		if m.Op == "get" {
			gch, errs = c.h.Get(req)
		} else {
			ech, errs = c.h.GetE(req)
		}
		deadline := time.After(20 * time.Second)
		for (gch != nil || ech != nil || errs != nil) && bad == "" {
			select {
			case r, ok := <-gch:
				if !ok {
					gch = nil
				} else {
					put(r.Key, r.Opaque, r.Quiet, r.Miss, r.Data, r.Flags, 0)
				}
			case r, ok := <-ech:
				if !ok {
					ech = nil
				} else {
					put(r.Key, r.Opaque, r.Quiet, r.Miss, r.Data, r.Flags, r.Exptime)
				}
			case err, ok := <-errs:
				if !ok {
					errs = nil
				} else if err != nil {
					return []interface{}{"error", err.Error()}, exps
				}
			case <-deadline:
				bad = "get channels not closed after 20 s"
			}
		}
		for i := range items {
			if items[i] == nil && bad == "" {
				bad = "no response for a key"
			}
		}
		if bad != "" {
			if multi {
				// keep the shape of a multi-key result
				for i := range items {
					items[i] = []interface{}{"malformed", bad}
				}
				return items, exps
			}
			return []interface{}{"malformed", bad}, exps
		}
		if multi {
			return items, exps
		}
		return items[0].([]interface{}), exps
	}
	must(fmt.Errorf("inmem: unknown op %q", m.Op))
	return nil, nil
}

// callEvent renders a call as the event HandlerTrace.tla reads (every field always present).
func callEvent(m MCmd, res, exps, post []interface{}) map[string]interface{} {
	v := m.V
	if v == nil {
		v = []int{}
	}
	ev := map[string]interface{}{"ev": "call", "m": m.Op, "k": m.K, "ks": []string{}, "v": v, "f": m.F, "t": m.T,
		"res": res, "post": post, "exp": exps}
	if len(m.Keys) > 0 {
		ev["m"] = "m" + m.Op
		ev["k"] = ""
		ev["ks"] = m.Keys
	}
	return ev
}

// imPeek reads the singleton's map entry without calling the handler (reflection on the unexported
// fields; read-only). seen is false when the handler does not look as expected.
func imPeek(h handlers.Handler, key []byte) (exists bool, exptime, flags uint32, data []byte, seen bool) {
	defer func() {
		if recover() != nil {
			seen = false
		}
	}()
	v := reflect.ValueOf(h)
	if v.Kind() != reflect.Ptr || v.Elem().Kind() != reflect.Struct {
		return
	}
	m := v.Elem().FieldByName("data")
	if !m.IsValid() || m.Kind() != reflect.Map || m.Type().Key().Kind() != reflect.String {
		return
	}
	e := m.MapIndex(reflect.ValueOf(string(key)))
	if !e.IsValid() {
		return false, 0, 0, nil, true
	}
	return true, uint32(e.FieldByName("exptime").Uint()), uint32(e.FieldByName("flags").Uint()),
		append([]byte{}, e.FieldByName("data").Bytes()...), true
}

// ---------------------------------------------------------------------------------------------
// sequential differential

type imTrace struct {
	id     int
	c      *hCaller
	phases [][]MCmd
	events []map[string]interface{}
	slow   bool
}

func imRandomOps(rng *rand.Rand, keys []string, n int, ttl func() int, next *int) []MCmd {
	blk := func() []int {
		b := *next
		*next++
		if *next > 200 {
			*next = 1
		}
		return []int{b}
	}
	var ops []MCmd
	for i := 0; i < n; i++ {
		k := keys[rng.Intn(len(keys))]
		var c MCmd
		switch rng.Intn(17) {
		case 0, 1:
			c = MCmd{Op: "set", K: k, V: blk(), F: rng.Intn(8), T: ttl()}
		case 2, 3:
			c = MCmd{Op: "add", K: k, V: blk(), F: rng.Intn(8), T: ttl()}
		case 4:
			c = MCmd{Op: "replace", K: k, V: blk(), F: rng.Intn(8), T: ttl()}
		case 5:
			c = MCmd{Op: "append", K: k, V: blk()}
		case 6:
			c = MCmd{Op: "prepend", K: k, V: blk()}
		case 7, 8:
			c = MCmd{Op: "delete", K: k}
		case 9:
			c = MCmd{Op: "touch", K: k, T: ttl()}
		case 10:
			c = MCmd{Op: "gat", K: k, T: ttl()}
		case 11, 12:
			c = MCmd{Op: "get", K: k}
		case 13:
			c = MCmd{Op: "gete", K: k}
		case 14:
			c = MCmd{Op: "set", K: k, V: []int{}, F: rng.Intn(8), T: ttl()} // empty value
		default:
			op := "get"
			if rng.Intn(3) == 0 {
				op = "gete"
			}
			c = MCmd{Op: op}
			for j, m := 0, 1+rng.Intn(3); j < m; j++ {
				c.Keys = append(c.Keys, keys[rng.Intn(len(keys))])
				c.Quiet = append(c.Quiet, rng.Intn(2) == 0)
			}
		}
		ops = append(ops, c)
	}
	return ops
}

// inmemSeq: ticks = 0: TTL codes 0 and 2..5 in units of 1000 s (nothing expires during a trace);
// ticks > 0: TTL codes 0, 1 (one second) and 1000..1004 (seconds), a tick is a sleep of 2.1 s.
// An entry stored with one second at time s carries expiry floor(s)+1: it is alive for every clock
// reading before s+1 and gone for every reading from s+2 on. A phase that takes longer than 0.9 s
// (a stalled machine) could see it either way: such a trace is discarded, not judged.
func inmemSeq(a Args, ticks int) {
	rec, err := NewRec(a.Out)
	must(err)
	defer rec.Close()
	h, err := inmem.New()
	must(err)
	rng := rand.New(rand.NewSource(a.Seed))
	keys := []string{"k1", "k2", "k3"}
	mode := "seq"
	if ticks > 0 {
		mode = fmt.Sprintf("seq-ticks=%d", ticks)
	}
	traces := make([]*imTrace, a.N)
	for i := range traces {
		w := absx.NewWorld(a.Seed*100000+int64(i), absx.SizesSmall(), false)
		var ttlc func(int) uint32
		var ttl func() int
		if ticks == 0 {
			ttlc = w.TTL
			ttl = func() int {
				if rng.Intn(2) == 0 {
					return 0
				}
				return 2 + rng.Intn(4)
			}
		} else {
			ttlc = func(code int) uint32 { return uint32(code) }
			ttl = func() int {
				switch rng.Intn(5) {
				case 0, 1:
					return 1
				case 2:
					return 1000 + rng.Intn(5)
				}
				return 0
			}
		}
		t := &imTrace{id: i, c: &hCaller{h: h, w: w, prefix: fmt.Sprintf("%s/%d/%d/", mode, a.Seed, i), ttl: ttlc,
			rng: rand.New(rand.NewSource(a.Seed*7919 + int64(i)))}}
		nk := 1 + rng.Intn(3)
		next := 1
		left := a.Len
		for p := 0; p <= ticks; p++ {
			n := left
			if p < ticks {
				n = left / (ticks + 1 - p)
				if n > 1 {
					n = n/2 + rng.Intn(n)
				}
				if n > left {
					n = left
				}
			}
			left -= n
			t.phases = append(t.phases, imRandomOps(rng, keys[:nk], n, ttl, &next))
		}
		t.events = append(t.events, map[string]interface{}{"ev": "reset", "trace": i, "seed": a.Seed, "mode": mode,
			"prefix": t.c.prefix, "keys": nk})
		traces[i] = t
	}
	for p := 0; p <= ticks; p++ {
		for _, t := range traces {
			start := time.Now()
			floor := start.Unix()
			for _, m := range t.phases[p] {
				res, exps := t.c.call(m)
				post := []interface{}{}
				if len(m.Keys) == 0 {
					if exists, exp, flags, data, seen := imPeek(h, t.c.key(m.K)); seen {
						if exists && (exp == 0 || int64(exp) >= floor+1) {
							post = []interface{}{"e", t.c.w.ProjectOrCorrupt(data), t.c.w.FlagsBack(flags)}
						} else {
							post = []interface{}{"none"}
						}
					}
				}
				t.events = append(t.events, callEvent(m, res, exps, post))
			}
			if ticks > 0 && time.Since(start) > 900*time.Millisecond {
				t.slow = true
			}
		}
		if p < ticks {
			time.Sleep(2100 * time.Millisecond)
			for _, t := range traces {
				t.events = append(t.events, map[string]interface{}{"ev": "tick"})
			}
		}
	}
	discarded := 0
	for _, t := range traces {
		if t.slow {
			discarded++
			rec.Emit(map[string]interface{}{"ev": "discarded", "trace": t.id, "why": "a phase took longer than 0.9 s"})
			continue
		}
		for _, ev := range t.events {
			rec.Emit(ev)
		}
	}
	fmt.Printf("{\"events\": %d, \"traces\": %d, \"discarded\": %d}\n", rec.N, a.N-discarded, discarded)
}

// ---------------------------------------------------------------------------------------------
// concurrent use of the shared instance

type cappedBuf struct {
	b   bytes.Buffer
	max int
}

func (c *cappedBuf) Write(p []byte) (int, error) {
	if room := c.max - c.b.Len(); room > 0 {
		if len(p) > room {
			c.b.Write(p[:room])
		} else {
			c.b.Write(p)
		}
	}
	return len(p), nil
}

func inmemConc(a Args) {
	rec, err := NewRec(a.Out)
	must(err)
	defer rec.Close()
	exe, err := os.Executable()
	must(err)
	var gs []int
	for _, g := range []int{2, 32, 8, 3, 16, 4, 24} {
		if g <= a.Workers || g == 2 {
			gs = append(gs, g)
		}
	}
	died := 0
	for r := 0; r < a.N; r++ {
		g := gs[r%len(gs)]
		childOut := fmt.Sprintf("%s.child%d", a.Out, r)
		errPath := fmt.Sprintf("%s.stderr%d", a.Out, r)
		ctx, cancel := context.WithTimeout(context.Background(), 180*time.Second)
		cmd := exec.CommandContext(ctx, exe, "inmem", "-mode", "conc-child", "-out", childOut, "-dir", a.Dir,
			"-seed", strconv.FormatInt(a.Seed*1000+int64(r), 10), "-workers", strconv.Itoa(g), "-len", strconv.Itoa(a.Len), "-sizes", a.Sizes)
		stderr := &cappedBuf{max: 2 << 20}
		cmd.Stderr = stderr
		t0 := time.Now()
		runErr := cmd.Run()
		timedOut := ctx.Err() != nil
		cancel()
		code := -1
		if cmd.ProcessState != nil {
			code = cmd.ProcessState.ExitCode()
		}
		if runErr != nil && cmd.ProcessState == nil {
			must(fmt.Errorf("inmem conc: cannot run child: %v", runErr))
		}
		must(os.WriteFile(errPath, stderr.b.Bytes(), 0o644))
		fatal := ""
		races := 0
		var head []string
		for _, line := range strings.Split(stderr.b.String(), "\n") {
			if len(head) < 12 && strings.TrimSpace(line) != "" {
				head = append(head, strings.TrimRight(line, "\r"))
			}
			if fatal == "" && (strings.HasPrefix(line, "fatal error:") || strings.HasPrefix(line, "panic:") || strings.HasPrefix(line, "harness error:")) {
				fatal = line
			}
			if strings.HasPrefix(line, "WARNING: DATA RACE") {
				races++
			}
		}
		if timedOut {
			fatal = "timeout: child killed after 180 s"
		}
		// the child writes its traces only when it survives
		complete := false
		if b, err := os.ReadFile(childOut); err == nil {
			complete = true
			for _, line := range bytes.Split(b, []byte("\n")) {
				if len(line) == 0 {
					continue
				}
				var ev map[string]interface{}
				must(json.Unmarshal(line, &ev))
				ev["round"] = r
				rec.Emit(ev)
			}
			os.Remove(childOut)
		}
		if code != 0 && !complete {
			died++
		}
		if head == nil {
			head = []string{}
		}
		rec.Emit(map[string]interface{}{"ev": "proc", "round": r, "g": g, "len": a.Len, "seed": a.Seed*1000 + int64(r),
			"exit": code, "fatal": fatal, "races": races, "complete": complete, "head": head, "stderr": errPath,
			"ms": time.Since(t0).Milliseconds()})
	}
	fmt.Printf("{\"events\": %d, \"rounds\": %d, \"died\": %d}\n", rec.N, a.N, died)
}

// inmemConcExpireChild: expired keys are "missing keys" too. Every owner goroutine stores keys with
// a 1 s TTL, all sleep past the expiry, then the owners write fresh values (and read them back)
// while sweeper goroutines keep reading everybody's keys in wide multi-key gets.
func inmemConcExpireChild(a Args) {
	h, err := inmem.New()
	must(err)
	G := a.Workers
	owners := (G + 1) / 2
	nkeys := a.Len
	if nkeys > 400 {
		nkeys = 400
	}
	w := absx.NewWorld(a.Seed, absx.SizesSmall(), false)
	for id := 1; id <= 8; id++ {
		w.Block(id)
	}
	pfx := fmt.Sprintf("expire/%d/", a.Seed)
	raw := func(code int) uint32 { return uint32(code) }
	// one caller (key prefix) and one little trace per key: the model key is always k1
	callers := make([][]*hCaller, owners)
	events := make([][][]map[string]interface{}, owners)
	for g := 0; g < owners; g++ {
		callers[g] = make([]*hCaller, nkeys)
		events[g] = make([][]map[string]interface{}, nkeys)
		for i := 0; i < nkeys; i++ {
			c := &hCaller{h: h, w: w, prefix: fmt.Sprintf("%so%d/%d/", pfx, g, i), ttl: raw, rng: rand.New(rand.NewSource(a.Seed*100 + int64(g))), opq: uint32(g) << 20}
			callers[g][i] = c
			events[g][i] = append(events[g][i], map[string]interface{}{"ev": "reset", "trace": fmt.Sprintf("expire-g%d-key%d", g, i), "mode": "conc-expire", "g": g, "G": G, "seed": a.Seed})
			m := MCmd{Op: "set", K: "k1", V: []int{1}, F: 1, T: 1}
			res, exps := c.call(m)
			events[g][i] = append(events[g][i], callEvent(m, res, exps, []interface{}{}))
		}
	}
	time.Sleep(2100 * time.Millisecond)
	for g := 0; g < owners; g++ {
		for i := 0; i < nkeys; i++ {
			events[g][i] = append(events[g][i], map[string]interface{}{"ev": "tick"})
		}
	}
	var wg sync.WaitGroup
	stop := make(chan struct{})
	var swg sync.WaitGroup
	for sIdx := owners; sIdx < G || sIdx == owners; sIdx++ {
		swg.Add(1)
		go func(sIdx int) {
			defer swg.Done()
			rng := rand.New(rand.NewSource(a.Seed*977 + int64(sIdx)))
			for {
				select {
				case <-stop:
					return
				default:
				}
				o := rng.Intn(owners)
				req := common.GetRequest{}
				for i := 0; i < nkeys; i++ {
					req.Keys = append(req.Keys, callers[o][i].key("k1"))
					req.Opaques = append(req.Opaques, uint32(i))
					req.Quiet = append(req.Quiet, false)
				}
				if rng.Intn(2) == 0 {
					rc, ec := h.Get(req)
					for range rc {
					}
					for range ec {
					}
				} else {
					rc, ec := h.GetE(req)
					for range rc {
					}
					for range ec {
					}
				}
			}
		}(sIdx)
	}
	for g := 0; g < owners; g++ {
		wg.Add(1)
		go func(g int) {
			defer wg.Done()
			for i := 0; i < nkeys; i++ {
				c := callers[g][i]
				m := MCmd{Op: "set", K: "k1", V: []int{2 + i%6}, F: 2, T: 0}
				res, exps := c.call(m)
				post := []interface{}{}
				if pr, _ := c.call(MCmd{Op: "gete", K: m.K}); pr[0] == "miss" {
					post = []interface{}{"none"}
				} else if pr[0] == "hit" {
					post = []interface{}{"e", pr[1], pr[2]}
				}
				events[g][i] = append(events[g][i], callEvent(m, res, exps, post))
			}
			time.Sleep(20 * time.Millisecond)
			for i := 0; i < nkeys; i++ {
				m := MCmd{Op: "get", K: "k1"}
				res, exps := callers[g][i].call(m)
				events[g][i] = append(events[g][i], callEvent(m, res, exps, []interface{}{}))
			}
		}(g)
	}
	wg.Wait()
	close(stop)
	swg.Wait()
	rec, err := NewRec(a.Out)
	must(err)
	defer rec.Close()
	for g := range events {
		for i := range events[g] {
			for _, ev := range events[g][i] {
				rec.Emit(ev)
			}
		}
	}
}

func inmemConcChild(a Args) {
	if a.Sizes == "expire" {
		inmemConcExpireChild(a)
		return
	}
	h, err := inmem.New()
	must(err)
	G, L := a.Workers, a.Len
	w := absx.NewWorld(a.Seed, absx.SizesSmall(), false)
	const nblocks = 96
	for id := 1; id <= nblocks; id++ {
		w.Block(id) // create every block now: the World is only read from here on
	}
	shared := []string{"s1", "s2"}
	missing := []string{"m1", "m2", "m3", "m4"}
	pfx := fmt.Sprintf("conc/%d/", a.Seed)
	type glog struct {
		events  []map[string]interface{}
		corrupt []map[string]interface{}
		calls   int
	}
	logs := make([]*glog, G)
	start := make(chan struct{})
	var wg sync.WaitGroup
	for g := 0; g < G; g++ {
		logs[g] = &glog{}
		wg.Add(1)
		go func(g int) {
			defer wg.Done()
			lg := logs[g]
			rng := rand.New(rand.NewSource(a.Seed*1000 + int64(g)))
			ttl := func() int {
				if rng.Intn(3) > 0 {
					return 0
				}
				return 2 + rng.Intn(4)
			}
			mk := func(prefix string) *hCaller {
				return &hCaller{h: h, w: w, prefix: prefix, ttl: w.TTL, rng: rng, opq: uint32(g) << 20}
			}
			priv := mk(fmt.Sprintf("%sp%d/", pfx, g))
			pub := mk(pfx)
			next := 1 + rng.Intn(nblocks)
			blk := func() []int {
				next = next%nblocks + 1
				return []int{next}
			}
			privKeys := []string{"k1", "k2"}
			// a quarter of the goroutines do almost nothing but look for keys nobody ever stores
			readerBias := 30
			if g%4 == 1 {
				readerBias = 85
			}
			checkHit := func(what string, m MCmd, res []interface{}) {
				items := [][]interface{}{res}
				if len(m.Keys) > 0 {
					items = nil
					for _, it := range res {
						items = append(items, it.([]interface{}))
					}
				}
				for _, it := range items {
					bad := ""
					switch it[0] {
					case "miss", "ok", "fail":
					case "hit":
						if ids := it[1].([]int); len(ids) > 0 && ids[0] == -1 {
							bad = "value is not a concatenation of stored blocks"
						} else if it[2].(int) < 0 {
							bad = "flags nobody stored"
						} else if what == "missing" {
							bad = "hit on a key nobody ever stored"
						}
					default:
						bad = fmt.Sprint(it...)
					}
					if bad != "" && len(lg.corrupt) < 5 {
						lg.corrupt = append(lg.corrupt, map[string]interface{}{"ev": "corrupt", "g": g, "G": G, "what": bad,
							"keys": what, "m": m.Op, "res": it})
					}
				}
			}
			<-start
			for i := 0; i < L; i++ {
				lg.calls++
				r := rng.Intn(100)
				switch {
				case r < readerBias:
					m := MCmd{Op: "get"}
					if rng.Intn(4) == 0 {
						m.Op = "gete"
					}
					if rng.Intn(2) == 0 {
						m.K = missing[rng.Intn(len(missing))]
					} else {
						for j, n := 0, 1+rng.Intn(3); j < n; j++ {
							m.Keys = append(m.Keys, missing[rng.Intn(len(missing))])
						}
					}
					res, _ := pub.call(m)
					checkHit("missing", m, res)
				case r < readerBias+(100-readerBias)/2:
					k := shared[rng.Intn(len(shared))]
					var m MCmd
					switch rng.Intn(10) {
					case 0, 1:
						m = MCmd{Op: "set", K: k, V: blk(), F: rng.Intn(8), T: ttl()}
					case 2:
						m = MCmd{Op: "add", K: k, V: blk(), F: rng.Intn(8), T: ttl()}
					case 3:
						m = MCmd{Op: "delete", K: k}
					case 4:
						m = MCmd{Op: "append", K: k, V: blk()}
					case 5:
						m = MCmd{Op: "prepend", K: k, V: blk()}
					case 6:
						m = MCmd{Op: "gat", K: k, T: ttl()}
					case 7:
						m = MCmd{Op: "replace", K: k, V: blk(), F: rng.Intn(8), T: ttl()}
					case 8:
						m = MCmd{Op: "get", Keys: []string{shared[0], shared[1]}}
					default:
						m = MCmd{Op: "get", K: k}
					}
					res, _ := pub.call(m)
					checkHit("shared", m, res)
				default:
					// the values of a private key stay short: a set now and then
					ops := imRandomOps(rng, privKeys, 1, ttl, &next)
					if next > nblocks {
						next = 1
					}
					m := ops[0]
					res, exps := priv.call(m)
					// what the call left behind: only this goroutine uses the key, so a read of its
					// own right after the call shows it (the map itself cannot be inspected while
					// other goroutines use it)
					post := []interface{}{}
					if len(m.Keys) == 0 {
						if pr, _ := priv.call(MCmd{Op: "gete", K: m.K}); pr[0] == "miss" {
							post = []interface{}{"none"}
						} else if pr[0] == "hit" {
							post = []interface{}{"e", pr[1], pr[2]}
						}
					}
					lg.events = append(lg.events, callEvent(m, res, exps, post))
				}
			}
		}(g)
	}
	close(start)
	wg.Wait()
	rec, err := NewRec(a.Out)
	must(err)
	defer rec.Close()
	for g, lg := range logs {
		rec.Emit(map[string]interface{}{"ev": "reset", "trace": fmt.Sprintf("conc-g%d", g), "mode": "conc", "g": g, "G": G,
			"seed": a.Seed, "calls": lg.calls})
		for _, ev := range lg.events {
			rec.Emit(ev)
		}
		for _, ev := range lg.corrupt {
			rec.Emit(ev)
		}
	}
}
