package drv

// ketama: conformance driver of C19 (cluster routing is a stable function of the key and the
// node set).  It drives the real consistent-hash ring of handlers/memcached/cluster
// (cluster.New, Continuum.Reset, Continuum.Hash, Continuum.Bucket and, end to end over loopback
// TCP, cluster.NewHandler / Handler.Set / Handler.Get) and records what the real code answered
// as ndjson events validated by spec/KetamaTrace.tla:
//
//	{"ev":"ring","id":..,"n":..,"labels":[..],"points":[[rank,label],..],"ties":[[rank,[label,..]],..]}
//	    the ring of one label SET, recomputed here independently of the code under test (MD5 of
//	    "<label>-<k>", k < 40, four little-endian words each), sorted by (point, label); labels
//	    are 1-based indices into the sorted label set; points are rank-compressed: the r-th
//	    distinct point value becomes 2r, a hash value strictly between two points the odd
//	    number between them (TLC integers are 32 bit)
//	{"ev":"queries","kind":"sample|boundary|e2e","sample":bool,"rm":bool,"hs":[..]}
//	    compressed hash values asked next
//	{"ev":"route","via":"hash|bucket|set|get","n":..,"who":[[order,instance],..],"order":[..],"labels":[..]}
//	    the answers of the real code, one per query; every (listing order, instance) pair that
//	    answered with exactly this vector is listed in who (n of them, the first few spelled
//	    out); order = the listing order of who[0]
//	{"ev":"remove","x":label}
//	    the following route events were answered by rings built from the list without node x
//	{"ev":"note","msg":..}
//
// A side file <out>.raw holds the raw 32-bit hash values / keys of every queries event (same
// line numbers) for the reports.
import (
	"bufio"
	"crypto/md5"
	"encoding/binary"
	"encoding/json"
	"fmt"
	"math/rand"
	"net"
	"os"
	"sort"
	"strconv"
	"strings"
	"sync"
	"time"

	"github.com/netflix/rend/common"
	"github.com/netflix/rend/handlers/memcached/cluster"

	"verif/harness/fakemc"
)

func init() { Drivers["ketama"] = Ketama }

// kBucket is a cluster.Bucket with equal weight.
type kBucket struct {
	label string
	idx   uint8 // 1-based index in the sorted label set
}

func (b kBucket) Label() string  { return b.label }
func (b kBucket) Weight() uint32 { return 1 }

// ---- independent recomputation of the ring -------------------------------------------------

func kPoints(label string) []uint32 {
	out := make([]uint32, 0, 160)
	for k := 0; k < 40; k++ {
		d := md5.Sum([]byte(label + "-" + strconv.Itoa(k)))
		for w := 0; w < 4; w++ {
			out = append(out, binary.LittleEndian.Uint32(d[4*w:4*w+4]))
		}
	}
	return out
}

func kHash(key string) uint32 {
	d := md5.Sum([]byte(key))
	return binary.LittleEndian.Uint32(d[0:4])
}

type kPair struct {
	v   uint32
	idx int
}

type kRing struct {
	labels []string // sorted
	pairs  []kPair  // sorted by (v, idx)
	vals   []uint32 // distinct point values, ascending
}

func newKRing(labels []string) *kRing {
	ls := append([]string(nil), labels...)
	sort.Strings(ls)
	r := &kRing{labels: ls}
	for i, l := range ls {
		for _, v := range kPoints(l) {
			r.pairs = append(r.pairs, kPair{v, i + 1})
		}
	}
	sort.Slice(r.pairs, func(i, j int) bool {
		if r.pairs[i].v != r.pairs[j].v {
			return r.pairs[i].v < r.pairs[j].v
		}
		return r.pairs[i].idx < r.pairs[j].idx
	})
	// a label colliding with itself contributes one pair (the ring is a set)
	dedup := r.pairs[:0]
	for i, p := range r.pairs {
		if i > 0 && p == r.pairs[i-1] {
			continue
		}
		dedup = append(dedup, p)
	}
	r.pairs = dedup
	for i, p := range r.pairs {
		if i == 0 || p.v != r.pairs[i-1].v {
			r.vals = append(r.vals, p.v)
		}
	}
	return r
}

// rank compresses a 32-bit ring location: 2j for the j-th distinct point, else the odd number
// between its neighbours.
func (r *kRing) rank(v uint32) int {
	j := sort.Search(len(r.vals), func(i int) bool { return r.vals[i] >= v })
	if j < len(r.vals) && r.vals[j] == v {
		return 2 * (j + 1)
	}
	return 2*j + 1
}

// ---- label universes and colliding labels --------------------------------------------------

type kCollision struct {
	A, B string
	V    uint32
}

// kCollisions finds pairs of distinct labels of the universe that share a ring point.
func kCollisions(universe []string) []kCollision {
	type pv struct {
		v uint32
		l int32
	}
	all := make([]pv, 0, len(universe)*160)
	for i, l := range universe {
		for _, v := range kPoints(l) {
			all = append(all, pv{v, int32(i)})
		}
	}
	sort.Slice(all, func(i, j int) bool {
		if all[i].v != all[j].v {
			return all[i].v < all[j].v
		}
		return all[i].l < all[j].l
	})
	var out []kCollision
	for i := 1; i < len(all); i++ {
		if all[i].v == all[i-1].v && all[i].l != all[i-1].l {
			out = append(out, kCollision{universe[all[i-1].l], universe[all[i].l], all[i].v})
		}
	}
	return out
}

func kUniverse(prefix string, n int) []string {
	out := make([]string, n)
	for i := range out {
		out[i] = fmt.Sprintf("%s.%d.%d:11211", prefix, i/256, i%256)
	}
	return out
}

// ---- listing orders ------------------------------------------------------------------------

func kAllPerms(n int) [][]int {
	var out [][]int
	cur := make([]int, 0, n)
	used := make([]bool, n)
	var rec func()
	rec = func() {
		if len(cur) == n {
			out = append(out, append([]int(nil), cur...))
			return
		}
		for i := 0; i < n; i++ {
			if !used[i] {
				used[i] = true
				cur = append(cur, i)
				rec()
				cur = cur[:len(cur)-1]
				used[i] = false
			}
		}
	}
	rec()
	return out
}

// kOrders: every permutation up to permLimit elements, else sorted, reversed, rotated and
// `shuffles` seeded shuffles.  The first order is always the sorted one.
func kOrders(n, permLimit, shuffles int, rng *rand.Rand) [][]int {
	if n <= permLimit {
		return kAllPerms(n)
	}
	id := make([]int, n)
	rev := make([]int, n)
	rot := make([]int, n)
	for i := range id {
		id[i] = i
		rev[i] = n - 1 - i
		rot[i] = (i + n/2) % n
	}
	out := [][]int{id, rev, rot}
	for s := 0; s < shuffles; s++ {
		out = append(out, rng.Perm(n))
	}
	return out
}

// ---- query sets ----------------------------------------------------------------------------

type kQSet struct {
	kind   string
	sample bool     // part of the random key sample (share is checked on it)
	rm     bool     // also asked on the rings with one node removed
	few    bool     // asked on every listing order (the others only on the first `fullOrders`)
	raw    []uint32 // ring locations
	keys   []string // sample: the keys (raw = their hash), else nil
}

func kBoundary(r *kRing) []uint32 {
	out := []uint32{0, 1, 1<<32 - 1, 1<<32 - 2, 1 << 31}
	for _, v := range r.vals {
		out = append(out, v)
		if v > 0 {
			out = append(out, v-1)
		}
		if v < 1<<32-1 {
			out = append(out, v+1)
		}
	}
	return out
}

// ---- asking the real code ------------------------------------------------------------------

type kWho struct{ order, inst int }

type kGroup struct {
	vec []uint8
	who []kWho
}

type kAnswers struct {
	mu     sync.Mutex
	groups map[string]*kGroup
}

func (a *kAnswers) add(vec []uint8, w kWho) {
	a.mu.Lock()
	defer a.mu.Unlock()
	if a.groups == nil {
		a.groups = map[string]*kGroup{}
	}
	g := a.groups[string(vec)]
	if g == nil {
		g = &kGroup{vec: vec}
		a.groups[string(vec)] = g
	}
	g.who = append(g.who, w)
}

func (a *kAnswers) sorted() []*kGroup {
	var out []*kGroup
	for _, g := range a.groups {
		sort.Slice(g.who, func(i, j int) bool {
			if g.who[i].order != g.who[j].order {
				return g.who[i].order < g.who[j].order
			}
			return g.who[i].inst < g.who[j].inst
		})
		out = append(out, g)
	}
	sort.Slice(out, func(i, j int) bool {
		a, b := out[i].who[0], out[j].who[0]
		if a.order != b.order {
			return a.order < b.order
		}
		return a.inst < b.inst
	})
	return out
}

func kAsk(c *cluster.Continuum, q *kQSet) []uint8 {
	vec := make([]uint8, len(q.raw))
	for i := range q.raw {
		var b cluster.Bucket
		if q.keys != nil {
			b = c.Hash([]byte(q.keys[i]))
		} else {
			b = c.Bucket(q.raw[i])
		}
		if kb, ok := b.(kBucket); ok {
			vec[i] = kb.idx
		} // else 0: no node
	}
	return vec
}

func kBuckets(labels []string, order []int, skip int) []cluster.Bucket {
	out := make([]cluster.Bucket, 0, len(order))
	for _, i := range order {
		if i == skip {
			continue
		}
		out = append(out, kBucket{labels[i], uint8(i + 1)})
	}
	return out
}

// ---- trace output --------------------------------------------------------------------------

type kOut struct {
	base     string
	part     int
	f, fr    *os.File
	w, wr    *bufio.Writer
	line     int
	answers  int
	limit    int
	Files    []string `json:"files"`
	Raws     []string `json:"raws"`
	Events   int      `json:"events"`
	Answers  int      `json:"answers"`
	Rings    int      `json:"rings"`
	Derived  int      `json:"derived_rings"`
	Builds   int64    `json:"continuums_built"`
	Lookups  int64    `json:"lookups"`
	Orders   int      `json:"listing_orders"`
	MaxPerms int      `json:"all_permutations_up_to"`
	Sets     []string `json:"set_sizes"`
	Collide  []string `json:"colliding_pairs"`
	E2E      string   `json:"e2e"`
	Split    int      `json:"answer_vectors_that_differ_by_order"`
}

func (o *kOut) open() {
	o.part++
	name := o.base
	if o.part > 1 {
		name = fmt.Sprintf("%s.%d", o.base, o.part)
	}
	var err error
	o.f, err = os.Create(name)
	must(err)
	o.fr, err = os.Create(name + ".raw")
	must(err)
	o.w = bufio.NewWriterSize(o.f, 1<<20)
	o.wr = bufio.NewWriterSize(o.fr, 1<<20)
	o.line = 0
	o.answers = 0
	o.Files = append(o.Files, name)
	o.Raws = append(o.Raws, name+".raw")
}

func (o *kOut) close() {
	if o.f == nil {
		return
	}
	must(o.w.Flush())
	must(o.wr.Flush())
	must(o.f.Close())
	must(o.fr.Close())
	o.f = nil
}

// setBoundary starts a new part when the current one is full (only between label sets).
func (o *kOut) setBoundary() {
	if o.f == nil {
		o.open()
		return
	}
	if o.limit > 0 && o.answers >= o.limit {
		o.close()
		o.open()
	}
}

func (o *kOut) emit(s string) {
	o.w.WriteString(s)
	o.w.WriteByte('\n')
	o.line++
	o.Events++
}

func kInts(b *strings.Builder, xs []int) {
	b.WriteByte('[')
	for i, x := range xs {
		if i > 0 {
			b.WriteByte(',')
		}
		b.WriteString(strconv.Itoa(x))
	}
	b.WriteByte(']')
}

func kJSON(v interface{}) string {
	b, err := json.Marshal(v)
	must(err)
	return string(b)
}

func (o *kOut) ring(id int, r *kRing) {
	var b strings.Builder
	fmt.Fprintf(&b, `{"ev":"ring","id":%d,"n":%d,"labels":%s,"points":[`, id, len(r.labels), kJSON(r.labels))
	for i, p := range r.pairs {
		if i > 0 {
			b.WriteByte(',')
		}
		fmt.Fprintf(&b, "[%d,%d]", r.rank(p.v), p.idx)
	}
	b.WriteString(`],"ties":[`)
	first := true
	for i := 0; i < len(r.pairs); {
		j := i
		for j < len(r.pairs) && r.pairs[j].v == r.pairs[i].v {
			j++
		}
		if j-i > 1 {
			if !first {
				b.WriteByte(',')
			}
			first = false
			ids := []int{}
			for _, p := range r.pairs[i:j] {
				ids = append(ids, p.idx)
			}
			fmt.Fprintf(&b, "[%d,", r.rank(r.pairs[i].v))
			kInts(&b, ids)
			b.WriteByte(']')
		}
		i = j
	}
	b.WriteString("]}")
	o.emit(b.String())
	o.Rings++
}

func (o *kOut) queries(r *kRing, q *kQSet) {
	var b strings.Builder
	fmt.Fprintf(&b, `{"ev":"queries","kind":%q,"sample":%v,"rm":%v,"hs":[`, q.kind, q.sample, q.rm)
	for i, v := range q.raw {
		if i > 0 {
			b.WriteByte(',')
		}
		b.WriteString(strconv.Itoa(r.rank(v)))
	}
	b.WriteString("]}")
	o.emit(b.String())
	// raw side file: line number of the queries event, raw locations, keys
	var rb strings.Builder
	fmt.Fprintf(&rb, `{"l":%d,"kind":%q,"raw":[`, o.line, q.kind)
	for i, v := range q.raw {
		if i > 0 {
			rb.WriteByte(',')
		}
		rb.WriteString(strconv.FormatUint(uint64(v), 10))
	}
	rb.WriteString("]")
	if q.keys != nil {
		if len(q.keys) > 0 && strings.HasPrefix(q.keys[0], "key:") && q.kind == "sample" {
			fmt.Fprintf(&rb, `,"keyfmt":%q`, q.keys[0][:strings.LastIndex(q.keys[0], ":")+1]+"<i>")
			fmt.Fprintf(&rb, `,"key0":%q`, q.keys[0])
		} else {
			fmt.Fprintf(&rb, `,"keys":%s`, kJSON(q.keys))
		}
	}
	rb.WriteString("}\n")
	o.wr.WriteString(rb.String())
}

func (o *kOut) route(via string, g *kGroup, orders [][]int, skip int) {
	var b strings.Builder
	fmt.Fprintf(&b, `{"ev":"route","via":%q,"n":%d,"who":[`, via, len(g.who))
	for i, w := range g.who {
		if i >= 6 {
			break
		}
		if i > 0 {
			b.WriteByte(',')
		}
		fmt.Fprintf(&b, "[%d,%d]", w.order, w.inst)
	}
	b.WriteString(`],"order":`)
	ord := []int{}
	for _, i := range orders[g.who[0].order] {
		if i != skip {
			ord = append(ord, i+1)
		}
	}
	kInts(&b, ord)
	b.WriteString(`,"labels":[`)
	for i, x := range g.vec {
		if i > 0 {
			b.WriteByte(',')
		}
		b.WriteString(strconv.Itoa(int(x)))
	}
	b.WriteString("]}")
	o.emit(b.String())
	o.answers += len(g.vec)
	o.Answers += len(g.vec)
}

// ---- one label set -------------------------------------------------------------------------

type kPlan struct {
	permLimit   int // all permutations up to this many labels
	shuffles    int // seeded shuffles beyond
	fullOrders  int // listing orders that are asked the whole sample
	removal     bool
	rmPermLimit int
	rmShuffles  int
	workers     int
}

func parallel(n, workers int, fn func(i int)) {
	if workers < 1 {
		workers = 1
	}
	var wg sync.WaitGroup
	ch := make(chan int)
	for w := 0; w < workers; w++ {
		wg.Add(1)
		go func() {
			defer wg.Done()
			for i := range ch {
				fn(i)
			}
		}()
	}
	for i := 0; i < n; i++ {
		ch <- i
	}
	close(ch)
	wg.Wait()
}

func kDoSet(o *kOut, id int, labels []string, sample []*kQSet, plan kPlan, rng *rand.Rand) {
	o.setBoundary()
	r := newKRing(labels)
	n := len(r.labels)
	o.ring(id, r)
	qsets := []*kQSet{{kind: "boundary", rm: true, few: true, raw: kBoundary(r)}}
	qsets = append(qsets, sample...)
	orders := kOrders(n, plan.permLimit, plan.shuffles, rng)
	o.Orders += len(orders)
	if n <= plan.permLimit && n > o.MaxPerms {
		o.MaxPerms = n
	}
	// base rings: every order, three instances: two fresh ones (two connections of the proxy
	// build their own handler from the same list) and one that was Reset from another order
	base := make([]kAnswers, len(qsets))
	var builds, lookups int64
	var cmu sync.Mutex
	parallel(len(orders), plan.workers, func(oi int) {
		ord := orders[oi]
		insts := []*cluster.Continuum{cluster.New(kBuckets(r.labels, ord, -1)), cluster.New(kBuckets(r.labels, ord, -1))}
		other := cluster.New(kBuckets(r.labels, orders[(oi+1)%len(orders)], -1))
		other.Reset(kBuckets(r.labels, ord, -1))
		insts = append(insts, other)
		var lk int64
		for qi, q := range qsets {
			if !q.few && oi >= plan.fullOrders {
				continue
			}
			for ii, c := range insts {
				if ii == 1 {
					// the second connection asks concurrently with nobody: it is a separate
					// value; asked from its own goroutine to cover "which connection asks"
					done := make(chan []uint8)
					go func() { done <- kAsk(c, q) }()
					base[qi].add(<-done, kWho{oi, ii})
				} else {
					base[qi].add(kAsk(c, q), kWho{oi, ii})
				}
				lk += int64(len(q.raw))
			}
		}
		cmu.Lock()
		builds += 4
		lookups += lk
		cmu.Unlock()
	})
	// rings with one node removed
	type dres struct {
		orders [][]int
		ans    []kAnswers
	}
	var derived []dres
	if plan.removal && n >= 2 {
		derived = make([]dres, n)
		for x := 0; x < n; x++ {
			// orders of the remaining n-1 labels, expressed as orders of all n with x skipped
			sub := kOrders(n-1, plan.rmPermLimit, plan.rmShuffles, rng)
			rest := []int{}
			for i := 0; i < n; i++ {
				if i != x {
					rest = append(rest, i)
				}
			}
			ords := make([][]int, len(sub))
			for k, s := range sub {
				ords[k] = make([]int, len(s))
				for j, e := range s {
					ords[k][j] = rest[e]
				}
			}
			derived[x] = dres{ords, make([]kAnswers, len(qsets))}
		}
		type task struct{ x, oi int }
		var tasks []task
		for x := range derived {
			for oi := range derived[x].orders {
				tasks = append(tasks, task{x, oi})
			}
		}
		parallel(len(tasks), plan.workers, func(ti int) {
			t := tasks[ti]
			c := cluster.New(kBuckets(r.labels, derived[t.x].orders[t.oi], -1))
			var lk int64
			for qi, q := range qsets {
				if !q.rm {
					continue
				}
				derived[t.x].ans[qi].add(kAsk(c, q), kWho{t.oi, 0})
				lk += int64(len(q.raw))
			}
			cmu.Lock()
			builds++
			lookups += lk
			cmu.Unlock()
		})
	}
	o.Builds += builds
	o.Lookups += lookups
	for qi, q := range qsets {
		o.queries(r, q)
		via := "bucket"
		if q.keys != nil {
			via = "hash"
		}
		gs := base[qi].sorted()
		if len(gs) > 1 {
			o.Split++
		}
		for _, g := range gs {
			o.route(via, g, orders, -1)
		}
		if !q.rm {
			continue
		}
		for x := range derived {
			o.emit(fmt.Sprintf(`{"ev":"remove","x":%d,"label":%q}`, x+1, r.labels[x]))
			o.Derived++
			gs := derived[x].ans[qi].sorted()
			if len(gs) > 1 {
				o.Split++
			}
			for _, g := range gs {
				o.route(via, g, derived[x].orders, -1)
			}
		}
	}
}

// ---- end to end: cluster.NewHandler over loopback TCP ----------------------------------------

type kNode struct {
	addr  string
	store *fakemc.Store
	l     net.Listener
}

func kListen(addr string) (*kNode, error) {
	l, err := net.Listen("tcp", addr)
	if err != nil {
		return nil, err
	}
	nd := &kNode{addr: addr, store: fakemc.New(addr, &fakemc.Clock{}), l: l}
	nd.store.SetLogging(true)
	go func() {
		for {
			c, err := l.Accept()
			if err != nil {
				return
			}
			go nd.store.Serve(c)
		}
	}()
	return nd, nil
}

// kReached returns the 1-based index of the only node that logged a request with opcode op for
// key since the last call (0: none or several).
func kReached(nodes []*kNode, op byte, key string) uint8 {
	var hit uint8
	cnt := 0
	for i, nd := range nodes {
		for _, rec := range nd.store.TakeLog() {
			if rec.Op == op && rec.Key == key {
				hit = uint8(i + 1)
				cnt++
			}
		}
	}
	if cnt != 1 {
		return 0
	}
	return hit
}

func kGet(h cluster.Handler, key string) error {
	data, errs := h.Get(common.GetRequest{Keys: [][]byte{[]byte(key)}, Opaques: []uint32{7}, Quiet: []bool{false}, NoopEnd: false})
	var err error
	deadline := time.After(5 * time.Second)
	for data != nil || errs != nil {
		select {
		case _, ok := <-data:
			if !ok {
				data = nil
			}
		case e, ok := <-errs:
			if !ok {
				errs = nil
			} else if e != nil {
				err = e
			}
		case <-deadline:
			return fmt.Errorf("get timed out")
		}
	}
	return err
}

// kE2E builds one cluster handler per listing order (as every connection of the cluster proxy
// does) over real TCP connections to fake memcached nodes on loopback addresses, sets every key
// through every handler and reads it through every handler, and logs which node each request
// reached.
func kE2E(o *kOut, id int, labels []string, nkeys int, seed int64) error {
	o.setBoundary()
	r := newKRing(labels)
	n := len(r.labels)
	nodes := make([]*kNode, n)
	defer func() {
		for _, nd := range nodes {
			if nd != nil {
				nd.l.Close()
				nd.store.CutAll()
			}
		}
	}()
	for i, l := range r.labels {
		nd, err := kListen(l)
		if err != nil {
			return err
		}
		nodes[i] = nd
	}
	orders := kAllPerms(n)
	handlers := make([]cluster.Handler, len(orders))
	for oi, ord := range orders {
		addrs := make([]string, n)
		for j, i := range ord {
			addrs[j] = r.labels[i]
		}
		h, err := cluster.NewHandler(addrs, "verif")
		if err != nil {
			return err
		}
		defer h.Close()
		// the label the code derives must be the address that was listed
		for _, b := range h.Continuum.Buckets() {
			found := false
			for _, l := range r.labels {
				if l == b.Label() {
					found = true
				}
			}
			if !found {
				return fmt.Errorf("node label %q is not a listed address", b.Label())
			}
		}
		handlers[oi] = h
	}
	// keys: a seeded sample, plus keys that land on / just below every shared point
	q := &kQSet{kind: "e2e"}
	for i := 0; i < nkeys; i++ {
		k := fmt.Sprintf("e2e:%d:%d", seed, i)
		q.keys = append(q.keys, k)
	}
	want := map[int]int{}
	for i := 0; i+1 < len(r.pairs); i++ {
		if r.pairs[i].v == r.pairs[i+1].v {
			want[r.rank(r.pairs[i].v)-1] = 3
		}
	}
	for i := 0; len(want) > 0 && i < 4000000; i++ {
		k := fmt.Sprintf("e2e:%d:t%d", seed, i)
		rk := r.rank(kHash(k))
		if want[rk] > 0 {
			q.keys = append(q.keys, k)
			want[rk]--
			if want[rk] == 0 {
				delete(want, rk)
			}
		}
	}
	for _, k := range q.keys {
		q.raw = append(q.raw, kHash(k))
	}
	var sets, gets kAnswers
	for oi, h := range handlers {
		sv := make([]uint8, len(q.keys))
		for ki, k := range q.keys {
			if err := h.Set(common.SetRequest{Key: []byte(k), Data: []byte("v"), Opaque: 5}); err != nil {
				return fmt.Errorf("set %s: %v", k, err)
			}
			sv[ki] = kReached(nodes, fakemc.OpSet, k)
		}
		sets.add(sv, kWho{oi, 0})
	}
	for oi, h := range handlers {
		gv := make([]uint8, len(q.keys))
		for ki, k := range q.keys {
			if err := kGet(h, k); err != nil {
				return fmt.Errorf("get %s: %v", k, err)
			}
			gv[ki] = kReached(nodes, fakemc.OpGet, k)
		}
		gets.add(gv, kWho{oi, 1})
	}
	o.ring(id, r)
	o.queries(r, q)
	split := 0
	for _, g := range sets.sorted() {
		o.route("set", g, orders, -1)
		split++
	}
	for _, g := range gets.sorted() {
		o.route("get", g, orders, -1)
		split++
	}
	if split > 2 {
		o.Split++
	}
	o.Orders += len(orders)
	o.Builds += int64(len(orders))
	o.Lookups += int64(2 * len(orders) * len(q.keys))
	return nil
}

// ---- the driver ----------------------------------------------------------------------------

// Ketama: -seed, -mode quick|thorough, -out trace, -n answers per trace part (0 = one part),
// -workers.
func Ketama(a Args) {
	thorough := a.Mode == "thorough"
	rng := rand.New(rand.NewSource(a.Seed*1000003 + 19))
	o := &kOut{base: a.Out, limit: 0}
	if a.Out == "" {
		fmt.Fprintln(os.Stderr, "ketama: -out required")
		os.Exit(2)
	}
	if a.N > 1000 {
		o.limit = a.N
	}
	nsample := 10000
	if thorough {
		nsample = 100000
	}
	const chunk = 10000
	var sample []*kQSet
	for c := 0; c*chunk < nsample; c++ {
		q := &kQSet{kind: "sample", sample: true, rm: c == 0, few: c == 0}
		for i := c * chunk; i < (c+1)*chunk && i < nsample; i++ {
			k := fmt.Sprintf("key:%d:%d", a.Seed, i)
			q.keys = append(q.keys, k)
			q.raw = append(q.raw, kHash(k))
		}
		sample = append(sample, q)
	}
	plan := kPlan{permLimit: 5, shuffles: 5, fullOrders: 12, removal: true, rmPermLimit: 4, rmShuffles: 1, workers: a.Workers}
	cplan := plan
	rmSizes := map[int]bool{2: true, 3: true, 4: true, 5: true, 6: true, 8: true, 16: true}
	csizes := []int{2, 3, 4, 5, 8, 17, 32}
	crm := map[int]bool{2: true, 3: true, 4: true}
	npairs := 6
	if thorough {
		plan = kPlan{permLimit: 7, shuffles: 24, fullOrders: 12, removal: true, rmPermLimit: 5, rmShuffles: 4, workers: a.Workers}
		cplan = plan
		cplan.permLimit = 6
		rmSizes = nil
		csizes = []int{2, 3, 4, 5, 6, 8, 12, 17, 24, 32}
		crm = map[int]bool{2: true, 3: true, 4: true, 5: true, 6: true, 8: true, 12: true, 17: true}
		npairs = 12
	}
	id := 0
	// A. seeded label sets of every size 1..32
	uni := kUniverse("10.1", 16384)
	for n := 1; n <= 32; n++ {
		labels := []string{}
		for _, i := range rng.Perm(len(uni))[:n] {
			labels = append(labels, uni[i])
		}
		p := plan
		p.removal = rmSizes == nil || rmSizes[n]
		id++
		kDoSet(o, id, labels, sample, p, rng)
		o.Sets = append(o.Sets, strconv.Itoa(n))
	}
	// B. label sets that contain two labels sharing a ring point
	cuni := kUniverse("10.0", 16384)
	cols := kCollisions(cuni)
	rng.Shuffle(len(cols), func(i, j int) { cols[i], cols[j] = cols[j], cols[i] })
	if len(cols) > npairs {
		cols = cols[:npairs]
	}
	for _, c := range cols {
		o.Collide = append(o.Collide, c.A+"|"+c.B)
		for _, n := range csizes {
			labels := []string{c.A, c.B}
			for _, i := range rng.Perm(len(cuni)) {
				if len(labels) >= n {
					break
				}
				if cuni[i] != c.A && cuni[i] != c.B {
					labels = append(labels, cuni[i])
				}
			}
			p := cplan
			p.removal = crm[n]
			id++
			kDoSet(o, id, labels, sample[:1], p, rng)
			o.Sets = append(o.Sets, fmt.Sprintf("%dc", n))
		}
	}
	// C. end to end over loopback TCP, with colliding loopback addresses
	luni := kUniverse(fmt.Sprintf("127.%d", 70+a.Seed%100), 16384)
	lcols := kCollisions(luni)
	rng.Shuffle(len(lcols), func(i, j int) { lcols[i], lcols[j] = lcols[j], lcols[i] })
	ne2e := 2
	if thorough {
		ne2e = 6
	}
	if len(lcols) > ne2e {
		lcols = lcols[:ne2e]
	}
	done := 0
	var e2eErr error
	for _, c := range lcols {
		for _, n := range []int{2, 3} {
			labels := []string{c.A, c.B}
			for _, i := range rng.Perm(len(luni)) {
				if len(labels) >= n {
					break
				}
				if luni[i] != c.A && luni[i] != c.B {
					labels = append(labels, luni[i])
				}
			}
			id++
			if err := kE2E(o, id, labels, 200, a.Seed); err != nil {
				e2eErr = err
				o.setBoundary()
				o.emit(fmt.Sprintf(`{"ev":"note","msg":%q}`, "end-to-end part skipped: "+err.Error()))
				break
			}
			done++
			o.Sets = append(o.Sets, fmt.Sprintf("%de", n))
		}
		if e2eErr != nil {
			break
		}
	}
	if e2eErr != nil {
		o.E2E = "skipped: " + e2eErr.Error()
	} else {
		o.E2E = fmt.Sprintf("%d label sets over loopback TCP", done)
	}
	o.close()
	fmt.Println(kJSON(o))
}
