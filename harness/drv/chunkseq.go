package drv

import (
	"bytes"
	"fmt"
	"math/rand"
	"net"
	"os"
	"path/filepath"
	"sync"
	"time"

	"github.com/netflix/rend/common"
	"github.com/netflix/rend/handlers"
	"github.com/netflix/rend/handlers/memcached/batched"
	"github.com/netflix/rend/handlers/memcached/chunked"
	"github.com/netflix/rend/handlers/memcached/std"

	"verif/harness/absx"
	"verif/harness/chunkfmt"
	"verif/harness/fakemc"
	"verif/harness/stack"
)

func init() { Drivers["handler-seq"] = HandlerSeq }

// handlerRes maps a handler-level outcome to the model vocabulary.
func handlerRes(err error) []interface{} {
	switch err {
	case nil:
		return []interface{}{"ok"}
	case common.ErrKeyNotFound, common.ErrKeyExists, common.ErrItemNotStored:
		return []interface{}{"fail"}
	}
	if common.IsAppError(err) {
		return []interface{}{"error"}
	}
	return []interface{}{"closed"}
}

// keySlice returns the key bytes either exactly sized or as a sub-slice of a larger buffer whose
// spare capacity is filled with a canary (the text protocol parser hands out such slices).
func keySlice(k []byte, spare bool) (key []byte, whole []byte) {
	if !spare {
		key = make([]byte, len(k), len(k))
		copy(key, k)
		return key, key
	}
	whole = bytes.Repeat([]byte{0xA5}, len(k)+48)
	copy(whole, k)
	return whole[:len(k)], whole
}

func canaryIntact(whole []byte, n int) bool {
	for _, b := range whole[n:] {
		if b != 0xA5 {
			return false
		}
	}
	return true
}

// HandlerSeq drives one real handler (chunked by default, -mode std for the direct one) directly,
// with sequential random histories over a small key alphabet, every value length class around the
// multiples of the chunk payload, key lengths 1..250 and key slices with and without spare
// capacity. After every call the backend table is projected and recorded (same event format as
// orca-rand, one tier).
func HandlerSeq(a Args) {
	rec, err := NewRec(a.Out)
	must(err)
	defer rec.Close()
	clock := &fakemc.Clock{}
	st := fakemc.New("l1", clock)
	sock := filepath.Join(a.Dir, "b.sock")
	must(st.ListenUnix(sock))
	rng := rand.New(rand.NewSource(a.Seed))
	kind := "chunked"
	if a.Mode == "std" || a.Mode == "batched" {
		kind = a.Mode
	}
	mk := func() handlers.Handler {
		if kind == "batched" {
			return batched.NewHandler(sock, batched.Opts{BatchSize: uint32(1 + a.Seed%3), BatchDelayMicros: 50})
		}
		c, err := net.Dial("unix", sock)
		must(err)
		if kind == "std" {
			return std.NewHandler(c)
		}
		return chunked.NewHandler(c)
	}
	keylens := []int{1, 2, 3, 5, 8, 16, 32, 64, 100, 128, 200, 249, 250}
	damaged := 0
	// a handler call that does not come back is an outcome, not trouble of the driver: after 60 s
	// the call in progress is recorded as a hang and the process ends with status 7
	var wmu sync.Mutex
	var cur map[string]interface{}
	var since time.Time
	begin := func(c map[string]interface{}) {
		wmu.Lock()
		cur, since = c, time.Now()
		wmu.Unlock()
	}
	go func() {
		for {
			time.Sleep(time.Second)
			wmu.Lock()
			c, t := cur, since
			wmu.Unlock()
			if c != nil && time.Since(t) > 60*time.Second {
				rec.Emit(map[string]interface{}{"ev": "hang", "x": c, "secs": time.Since(t).Seconds(), "kind": kind})
				rec.Close()
				fmt.Printf("{\"hang\": true}\n")
				os.Exit(7)
			}
		}
	}()
	for tr := 0; tr < a.N; tr++ {
		w := absx.NewWorld(a.Seed*100000+int64(tr), nil, false)
		w.KeyLen = keylens[tr%len(keylens)]
		if a.KeyLen > 0 {
			w.KeyLen = a.KeyLen
		}
		if a.KeyLen < 0 {
			w.KeyLen = 1 + rng.Intn(250)
		}
		keys := []string{"k1", "k2", "k3"}[:1+rng.Intn(3)]
		kl := 0
		for _, k := range keys {
			if n := len(w.Key(k)); n > kl {
				kl = n
			}
		}
		// adversarial shapes: a key that looks like another key's chunk or metadata name
		if tr%7 == 3 && w.KeyLen <= 240 {
			base := w.Key("k1")
			w.SetKey("k2", append(append([]byte{}, base...), []byte("-1")...))
			if len(keys) < 2 {
				keys = []string{"k1", "k2"}
			}
			if tr%14 == 3 {
				w.SetKey("k3", append(append([]byte{}, base...), []byte("-meta")...))
				keys = []string{"k1", "k2", "k3"}
			}
		}
		p := chunkfmt.Payload(kl)
		sizes := []int{1, p - 1, p, p + 1, 2*p - 1, 2 * p, 2*p + 1, 3*p + 1, 4 * p, 7, 300}
		if tr%5 == 0 {
			sizes = append(sizes, 10*p, 10*p+1)
		}
		if tr%5 == 2 {
			sizes = []int{65*p + 1, 1, p, 130 * p, 64 * p}
		}
		if a.Sizes == "huge" && tr%3 == 0 {
			sizes = []int{999 * p, 999*p - 1, 998*p + 1, p}
		}
		if a.Sizes == "big" && tr%4 == 1 {
			// beyond one read of a 64 KiB reader, and straddling it
			sizes = []int{70000, 12345, 4096, 300, 1}
		}
		w = reworld(w, sizes)
		st.Clear()
		h := mk()
		spare := tr%2 == 1
		rec.Emit(map[string]interface{}{"ev": "reset", "cfg": "handler/" + kind, "proto": "call", "twotier": false, "trace": tr, "seed": a.Seed,
			"keylen": kl, "spare": spare})
		project := func() []interface{} {
			t := st.LiveSnapshot()
			out := stack.MMap{}
			if kind != "chunked" {
				for _, k := range keys {
					if e, ok := t[string(w.Key(k))]; ok {
						out[k] = stack.MEntry{V: w.ProjectOrCorrupt(e.Data), F: w.FlagsBack(e.Flags), E: w.DeadlineUnits(e.Exp)}
					}
				}
				return tierJSON(out)
			}
			owned := map[string]bool{}
			// ownership by forward derivation from the client keys in use
			for _, k := range keys {
				v := chunkfmt.Decode(t, w.Key(k))
				owned[chunkfmt.MetaKey(w.Key(k))] = true
				for i := 0; i < 1100; i++ {
					ck := chunkfmt.ChunkKey(w.Key(k), i)
					if _, ok := t[ck]; ok {
						owned[ck] = true
					}
				}
				// appends to a huge value go beyond any fixed index: every canonical chunk name of the key
				for _, ck := range chunkfmt.Owned(t, w.Key(k)) {
					owned[ck] = true
				}
				if !v.Present || !v.Complete {
					continue
				}
				e := stack.MEntry{V: w.ProjectOrCorrupt(v.Value), F: w.FlagsBack(v.Flags), E: w.DeadlineUnits(v.Exps[0])}
				for _, x := range v.Exps {
					if w.DeadlineUnits(x) != e.E {
						e.E = -7
					}
				}
				out[k] = e
			}
			for rk := range t {
				if !owned[rk] {
					out[fmt.Sprintf("?%x", rk)] = stack.MEntry{V: []int{-2}}
				}
			}
			return tierJSON(out)
		}
		nextBlock := 1
		ttl := func() int {
			switch rng.Intn(8) {
			case 0, 1, 2, 3:
				return 0
			case 4:
				return 1 + rng.Intn(3)
			case 5:
				return absx.RelMax
			case 6:
				if rng.Intn(2) == 0 {
					return absx.AbsBase + 3000 + rng.Intn(3) // an absolute time more than 30 days ahead
				}
				return absx.AbsBase + 1 + rng.Intn(3)
			default:
				return absx.AbsBase - 1
			}
		}
		for i := 0; i < a.Len; i++ {
			k := keys[rng.Intn(len(keys))]
			key, whole := keySlice(w.Key(k), spare)
			var c MCmd
			var res []interface{}
			blk := func() []int {
				b := []int{nextBlock}
				nextBlock++
				if nextBlock > 200 {
					nextBlock = 1
				}
				return b
			}
			item := func(miss bool, data []byte, flags uint32) []interface{} {
				if miss {
					return []interface{}{"miss"}
				}
				return []interface{}{"hit", w.ProjectOrCorrupt(data), w.FlagsBack(flags)}
			}
			nops := 14
			if kind != "chunked" {
				nops = 16 // the chunked handler does not implement gete
			}
			op := rng.Intn(nops)
			if rng.Intn(8) == 0 {
				op = 99 // multi-key get
			}
			begin(map[string]interface{}{"trace": tr, "call": i, "opcode": op, "k": k, "next_block": nextBlock})
			switch op {
			case 99:
				// a get of several keys (repeats allowed); every response is KEPT until the handler has
				// closed its channels and only then looked at, the way a consumer that gathers a batch
				// does: a response must not change after it was handed over
				n := 2 + rng.Intn(3)
				c = MCmd{Op: "get"}
				req := common.GetRequest{}
				for j := 0; j < n; j++ {
					kk := keys[rng.Intn(len(keys))]
					c.Keys = append(c.Keys, kk)
					c.Quiet = append(c.Quiet, false)
					ks, _ := keySlice(w.Key(kk), spare)
					req.Keys = append(req.Keys, ks)
					req.Opaques = append(req.Opaques, uint32(100+j))
					req.Quiet = append(req.Quiet, false)
				}
				// every other one like the text parser's requests: opaque 0 for every key
				textlike := rng.Intn(2) == 0
				if textlike {
					for j := range req.Opaques {
						req.Opaques[j] = 0
					}
				}
				rc, ec := h.Get(req)
				var got []common.GetResponse
				var gerr error
				for rc != nil || ec != nil {
					select {
					case r, ok := <-rc:
						if !ok {
							rc = nil
						} else {
							got = append(got, r)
						}
					case e, ok := <-ec:
						if !ok {
							ec = nil
						} else {
							gerr = e
						}
					}
				}
				if gerr != nil {
					res = handlerRes(gerr)
				} else {
					items := make([]interface{}, len(c.Keys))
					for j := range items {
						items[j] = []interface{}{"malformed"}
					}
					used := make([]bool, len(items))
					surplus := 0
					for _, r := range got {
						j := int(r.Opaque) - 100
						if textlike {
							j = -1
							for x := range items {
								if !used[x] && bytes.Equal(r.Key, req.Keys[x]) {
									j = x
									break
								}
							}
						}
						if j >= 0 && j < len(items) && !used[j] {
							used[j] = true
							items[j] = item(r.Miss, r.Data, r.Flags)
						} else {
							surplus++
						}
					}
					res = []interface{}{"multi", items}
					if surplus > 0 {
						res = []interface{}{"malformed", fmt.Sprintf("%d responses more than keys asked for", surplus)}
					}
				}
			case 14, 15:
				c = MCmd{Op: "gete", K: k}
				rc, ec := h.GetE(common.GetRequest{Keys: [][]byte{key}, Opaques: []uint32{7}, Quiet: []bool{false}})
				for rc != nil || ec != nil {
					select {
					case r, ok := <-rc:
						if !ok {
							rc = nil
						} else if r.Miss {
							res = []interface{}{"miss"}
						} else {
							// remaining lifetime -> deadline in units (no clock ticks in this driver: now = 0)
							e := absx.Inf
							if r.Exptime != 0 {
								e = w.DeadlineUnits(w.Base + int64(r.Exptime))
								if int64(r.Exptime) > 30*24*3600 {
									e = w.DeadlineUnits(int64(r.Exptime))
								}
							}
							res = []interface{}{"hit", w.ProjectOrCorrupt(r.Data), w.FlagsBack(r.Flags), e}
						}
					case e, ok := <-ec:
						if !ok {
							ec = nil
						} else {
							res = handlerRes(e)
						}
					}
				}
			case 0, 1, 2:
				c = MCmd{Op: "set", K: k, V: blk(), F: rng.Intn(8), T: ttl()}
				res = handlerRes(h.Set(common.SetRequest{Key: key, Data: w.Value(c.V), Flags: w.Flags(c.F), Exptime: w.TTL(c.T)}))
			case 3:
				c = MCmd{Op: "add", K: k, V: blk(), F: rng.Intn(8), T: ttl()}
				res = handlerRes(h.Add(common.SetRequest{Key: key, Data: w.Value(c.V), Flags: w.Flags(c.F), Exptime: w.TTL(c.T)}))
			case 4:
				c = MCmd{Op: "replace", K: k, V: blk(), F: rng.Intn(8), T: ttl()}
				res = handlerRes(h.Replace(common.SetRequest{Key: key, Data: w.Value(c.V), Flags: w.Flags(c.F), Exptime: w.TTL(c.T)}))
			case 5:
				c = MCmd{Op: "append", K: k, V: blk()}
				res = handlerRes(h.Append(common.SetRequest{Key: key, Data: w.Value(c.V)}))
			case 6:
				c = MCmd{Op: "prepend", K: k, V: blk()}
				res = handlerRes(h.Prepend(common.SetRequest{Key: key, Data: w.Value(c.V)}))
			case 7:
				c = MCmd{Op: "delete", K: k}
				res = handlerRes(h.Delete(common.DeleteRequest{Key: key}))
			case 8:
				c = MCmd{Op: "touch", K: k, T: ttl()}
				res = handlerRes(h.Touch(common.TouchRequest{Key: key, Exptime: w.TTL(c.T)}))
			case 9:
				c = MCmd{Op: "gat", K: k, T: ttl()}
				r, err := h.GAT(common.GATRequest{Key: key, Exptime: w.TTL(c.T)})
				if err != nil {
					res = handlerRes(err)
				} else {
					res = item(r.Miss, r.Data, r.Flags)
				}
			case 10:
				c = MCmd{Op: "set", K: k, V: []int{}, F: rng.Intn(8), T: ttl()}
				res = handlerRes(h.Set(common.SetRequest{Key: key, Data: []byte{}, Flags: w.Flags(c.F), Exptime: w.TTL(c.T)}))
			default:
				c = MCmd{Op: "get", K: k}
				rc, ec := h.Get(common.GetRequest{Keys: [][]byte{key}, Opaques: []uint32{7}, Quiet: []bool{false}})
				for rc != nil || ec != nil {
					select {
					case r, ok := <-rc:
						if !ok {
							rc = nil
						} else {
							res = item(r.Miss, r.Data, r.Flags)
						}
					case e, ok := <-ec:
						if !ok {
							ec = nil
						} else {
							res = handlerRes(e)
						}
					}
				}
			}
			begin(nil)
			ev := map[string]interface{}{"ev": "op", "port": "handler", "x": xJSON(c), "res": res, "l1": project(), "l2": []interface{}{}}
			if spare && (!canaryIntact(whole, len(w.Key(k))) || !bytes.Equal(key, w.Key(k))) {
				ev["keybuf_damaged"] = true
				damaged++
			}
			rec.Emit(ev)
			if res[0] == "closed" {
				h.Close()
				h = mk()
			}
		}
		h.Close()
	}
	fmt.Printf("{\"traces\": %d, \"events\": %d, \"keybuf_damaged\": %d}\n", a.N, rec.N, damaged)
}
