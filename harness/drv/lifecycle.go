package drv

import (
	"bytes"
	"fmt"
	"net"
	"runtime"
	"runtime/debug"
	"sync"
	"time"

	"verif/harness/absx"
	"verif/harness/fakemc"
	"verif/harness/stack"
	"verif/harness/wire"
)

func init() { Drivers["lifecycle"] = Lifecycle }

// Lifecycle sends, for each representative request stream, every prefix of it (0..len bytes, or a
// seeded sample of the offsets with -n) and closes the connection; it then waits for the server to
// settle and records what is still held for the connection.
func Lifecycle(a Args) {
	rec, err := NewRec(a.Out)
	must(err)
	defer rec.Close()
	st, err := stack.Build(a.Cfg, a.Dir, nil)
	must(err)
	text := a.Proto == "text"
	w := absx.NewWorld(a.Seed, absx.SizesSmall(), text)
	keys := []string{"k1", "k2"}
	must(st.Load(w, stack.MMap{"k1": {V: []int{9}, F: 1, E: absx.Inf}}, stack.MMap{"k1": {V: []int{9}, F: 1, E: absx.Inf}, "k2": {V: []int{8}, F: 0, E: absx.Inf}}, 0, keys))
	port := a.Cfg.Ports()[0]
	enc := func(c MCmd, opq uint32) []byte {
		wc := Concretise(w, c, opq)
		if text {
			return wire.EncodeText(wc)
		}
		return wire.EncodeBinary(wc)
	}
	type stream struct {
		name  string
		parts [][]byte
		only  []int // when set: exactly these prefix lengths (a very long stream)
	}
	big := MCmd{Op: "set", K: "k1", V: []int{1, 2, 3, 4}, F: 2}
	var streams []stream
	add := func(name string, cmds ...MCmd) {
		s := stream{name: name}
		for i, c := range cmds {
			s.parts = append(s.parts, enc(c, uint32(100*(i+1))))
		}
		streams = append(streams, s)
	}
	add("set", big)
	add("get-hit", MCmd{Op: "get", K: "k1"})
	add("get-l2", MCmd{Op: "get", K: "k2"})
	add("delete", MCmd{Op: "delete", K: "k1"})
	add("touch", MCmd{Op: "touch", K: "k1", T: 2})
	add("append", MCmd{Op: "append", K: "k1", V: []int{5}})
	add("add", MCmd{Op: "add", K: "k2", V: []int{6}})
	add("replace", MCmd{Op: "replace", K: "k1", V: []int{7}})
	add("pipeline", big, MCmd{Op: "get", K: "k1"}, MCmd{Op: "delete", K: "k2"}, MCmd{Op: "get", Keys: []string{"k1", "k2"}, Quiet: []bool{false, false}})
	add("quit", MCmd{Op: "get", K: "k1"}, MCmd{Op: "quit"})
	if !text {
		add("gat", MCmd{Op: "gat", K: "k1", T: 3})
		add("quiet-batch-noop", MCmd{Op: "get", Keys: []string{"k1", "k2", "k1"}, Quiet: []bool{true, true, true}, NoopEnd: true})
		add("quiet-batch-get", MCmd{Op: "get", Keys: []string{"k2", "k1"}, Quiet: []bool{true, false}})
		add("quiet-set", MCmd{Op: "set", K: "k2", V: []int{3}, Quiet: []bool{true}}, MCmd{Op: "noop"})
	}
	if text {
		// a command line longer than the parser accepts (64 KiB), never terminated: the client leaves inside it,
		// right at the limit, and beyond it
		long := append([]byte("get "), bytes.Repeat([]byte("k"), 70000)...)
		streams = append(streams, stream{name: "overlong-line", parts: [][]byte{long}, only: []int{4, 4096, 65535, 65536, 65537, 65600, len(long)}})
	}
	// all hits: the server has several values to relay after the last request byte
	add("mget-hits", MCmd{Op: "get", Keys: []string{"k1", "k1", "k1", "k1", "k1", "k1"}, Quiet: []bool{false, false, false, false, false, false}})
	if !text {
		add("quiet-batch-hits", MCmd{Op: "get", Keys: []string{"k1", "k1", "k1", "k1", "k1"}, Quiet: []bool{true, true, true, true, false}})
	}
	pooled := a.Cfg.L1 == "batched" || a.Cfg.L2 == "batched"
	// the backends can be held at their next request: the client then leaves while the server is
	// in the middle of executing / relaying, which no byte offset alone can arrange
	var hmu sync.Mutex
	var holding bool
	var arrived, release chan struct{}
	gate := func(conn int, r *fakemc.Request) {
		hmu.Lock()
		h, ar, rl := holding, arrived, release
		if h {
			holding = false
		}
		hmu.Unlock()
		if h {
			close(ar)
			<-rl
		}
	}
	st.L1.Gate = gate
	if st.L2 != nil {
		st.L2.Gate = gate
	}
	// warm up, then take the baseline
	for i := 0; i < 3; i++ {
		c, err := wire.Dial(st.Socks[port], text)
		must(err)
		c.Do(Concretise(w, MCmd{Op: "get", K: "k1"}, 1))
		c.Close()
	}
	settle := func(baseG int, d time.Duration) (int64, int64, int) {
		deadline := time.Now().Add(d)
		for {
			o1, o2 := st.L1.Open(), int64(0)
			if st.L2 != nil {
				o2 = st.L2.Open()
			}
			g := runtime.NumGoroutine() - baseG
			if pooled {
				o1, o2 = 0, 0
			}
			if (o1 == 0 && o2 == 0 && g <= 0) || time.Now().After(deadline) {
				return o1, o2, g
			}
			time.Sleep(2 * time.Millisecond)
		}
	}
	time.Sleep(50 * time.Millisecond)
	_, _, _ = settle(runtime.NumGoroutine(), 500*time.Millisecond)
	baseG := runtime.NumGoroutine()
	if pooled {
		time.Sleep(300 * time.Millisecond)
		baseG = runtime.NumGoroutine()
	}
	// The garbage collector's finalizers close sockets nobody closed: a leaked backend connection would
	// look released a little later. The collector is off while an experiment settles; it runs between
	// experiments (so that memory stays bounded and a leak does not spill into the next experiment).
	debug.SetGCPercent(-1)
	n, bad := 0, 0
	for _, s := range streams {
		if bad >= 12 {
			break // every further experiment would wait out its deadline as well; a dozen are evidence enough
		}
		var all []byte
		bounds := map[int]bool{}
		for _, p := range s.parts {
			all = append(all, p...)
			bounds[len(all)] = true
		}
		for k := 0; k <= len(all)+1; k++ {
			held := k == len(all)+1
			if held {
				// the whole stream again; this time the first backend request is held until the client has left
				k = len(all)
				hmu.Lock()
				holding, arrived, release = true, make(chan struct{}), make(chan struct{})
				hmu.Unlock()
			}
			if s.only != nil {
				keep := held
				for _, o := range s.only {
					keep = keep || o == k
				}
				if !keep {
					continue
				}
			} else if a.N > 0 && k != 0 && k != len(all) && !bounds[k] && (k*7919+int(a.Seed)*104729)%a.N != 0 {
				continue
			}
			conn, err := net.Dial("unix", st.Socks[port])
			must(err)
			if k > 0 {
				conn.Write(all[:k])
			}
			if held {
				select {
				case <-arrived:
				case <-time.After(300 * time.Millisecond): // the stream causes no backend request
				}
				conn.Close()
				time.Sleep(2 * time.Millisecond)
				hmu.Lock()
				holding = false
				hmu.Unlock()
				close(release)
			} else if k == len(all) {
				// give the server the chance to be anywhere in its processing, then leave without reading
				time.Sleep(time.Duration(k%3) * time.Millisecond)
			}
			conn.Close()
			o1, o2, g := settle(baseG, 3*time.Second)
			at := "inside"
			switch {
			case k == 0:
				at = "start"
			case held:
				at = "held"
			case k == len(all) && s.name == "quit":
				at = "afterquit"
			case k == len(all):
				at = "end"
			case bounds[k]:
				at = "between"
			}
			// a fresh client must be able to work on the same keys, and new connections are served
			fresh := "ok"
			fc, err := wire.Dial(st.Socks[port], text)
			accepting := err == nil
			if accepting {
				fc.Timeout = 3 * time.Second
				for _, kk := range keys {
					o := fc.Do(Concretise(w, MCmd{Op: "touch", K: kk, T: 0}, 7))
					if o.Class == "timeout" || o.Class == "closed" || o.Class == "malformed" {
						fresh = o.Class + " on " + kk
					}
				}
				fc.Close()
			}
			// put the data back for the next experiment
			must(st.Load(w, stack.MMap{"k1": {V: []int{9}, F: 1, E: absx.Inf}}, stack.MMap{"k1": {V: []int{9}, F: 1, E: absx.Inf}, "k2": {V: []int{8}, F: 0, E: absx.Inf}}, 0, keys))
			_, _, _ = settle(baseG, 500*time.Millisecond)
			runtime.GC()
			rec.Emit(map[string]interface{}{"ev": "prefix", "cfg": a.Cfg.String(), "proto": a.Proto, "stream": s.name, "n": k, "len": len(all), "at": at,
				"open_l1": o1, "open_l2": o2, "gor": g, "fresh_ok": fresh == "ok", "fresh": fresh, "accepting": accepting})
			n++
			if o1 != 0 || o2 != 0 || g > 0 || fresh != "ok" || !accepting {
				bad++
			}
			if held || bad >= 12 {
				break
			}
		}
	}
	fmt.Printf("{\"experiments\": %d, \"streams\": %d, \"not_released\": %d, \"stopped_early\": %v}\n", n, len(streams), bad, bad >= 12)
}
