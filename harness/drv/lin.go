package drv

import (
	"encoding/json"
	"fmt"
	"hash/fnv"
	"math/rand"
	"net"
	"os"
	"path/filepath"
	"sync"

	"github.com/netflix/rend/common"
	"github.com/netflix/rend/handlers"
	"github.com/netflix/rend/handlers/memcached/std"
	"github.com/netflix/rend/orcas"

	"verif/harness/absx"
	"verif/harness/fakemc"
	"verif/harness/gate"
	"verif/harness/stack"
)

func init() { Drivers["lin"] = Lin }

// recResponder records what the orchestrator tells the responder for the current command.
type recResponder struct {
	w     *absx.World
	items []interface{}
	ok    bool
	ends  int
	errc  string
}

func (r *recResponder) reset()                                  { *r = recResponder{w: r.w} }
func (r *recResponder) Set(opaque uint32, quiet bool) error     { r.ok = true; return nil }
func (r *recResponder) Add(opaque uint32, quiet bool) error     { r.ok = true; return nil }
func (r *recResponder) Replace(opaque uint32, quiet bool) error { r.ok = true; return nil }
func (r *recResponder) Append(opaque uint32, quiet bool) error  { r.ok = true; return nil }
func (r *recResponder) Prepend(opaque uint32, quiet bool) error { r.ok = true; return nil }
func (r *recResponder) Delete(opaque uint32) error              { r.ok = true; return nil }
func (r *recResponder) Touch(opaque uint32) error               { r.ok = true; return nil }
func (r *recResponder) Noop(opaque uint32) error                { r.ok = true; return nil }
func (r *recResponder) Quit(opaque uint32, quiet bool) error    { r.ok = true; return nil }
func (r *recResponder) Version(opaque uint32) error             { r.ok = true; return nil }
func (r *recResponder) Stat(opaque uint32) error                { r.ok = true; return nil }
func (r *recResponder) GetEnd(opaque uint32, noopEnd bool) error {
	r.ends++
	return nil
}
func (r *recResponder) item(miss bool, data []byte, flags uint32) {
	if miss {
		r.items = append(r.items, []interface{}{"miss"})
	} else {
		r.items = append(r.items, []interface{}{"hit", r.w.ProjectOrCorrupt(data), r.w.FlagsBack(flags)})
	}
}
func (r *recResponder) Get(g common.GetResponse) error   { r.item(g.Miss, g.Data, g.Flags); return nil }
func (r *recResponder) GAT(g common.GetResponse) error   { r.item(g.Miss, g.Data, g.Flags); return nil }
func (r *recResponder) GetE(g common.GetEResponse) error { r.item(g.Miss, g.Data, g.Flags); return nil }
func (r *recResponder) Error(opaque uint32, reqType common.RequestType, err error, quiet bool) error {
	switch err {
	case common.ErrKeyNotFound, common.ErrKeyExists, common.ErrItemNotStored:
		r.errc = "fail"
	default:
		r.errc = "error"
	}
	return nil
}

// linClient is one simulated connection: an orchestrator per port, its own handlers.
type linClient struct {
	id    int
	resp  *recResponder
	orca  map[string]orcas.Orca
	conns []net.Conn
}

// callOrca runs one command the way server/default.go does, including its panic handling.
func callOrca(o orcas.Orca, w *absx.World, c MCmd, resp *recResponder) (res []interface{}) {
	resp.reset()
	defer func() {
		if r := recover(); r != nil {
			res = []interface{}{"closed"} // DefaultServer.Loop recovers and closes the connection
		}
	}()
	key := append([]byte(nil), w.Key(c.K)...)
	var err error
	var rt common.RequestType
	var req common.Request
	switch c.Op {
	case "set", "add", "replace", "append", "prepend":
		sr := common.SetRequest{Key: key, Data: w.Value(c.V), Flags: w.Flags(c.F), Exptime: w.TTL(c.T)}
		req = sr
		switch c.Op {
		case "set":
			rt, err = common.RequestSet, o.Set(sr)
		case "add":
			rt, err = common.RequestAdd, o.Add(sr)
		case "replace":
			rt, err = common.RequestReplace, o.Replace(sr)
		case "append":
			rt, err = common.RequestAppend, o.Append(sr)
		case "prepend":
			rt, err = common.RequestPrepend, o.Prepend(sr)
		}
	case "delete":
		dr := common.DeleteRequest{Key: key}
		req, rt, err = dr, common.RequestDelete, o.Delete(dr)
	case "touch":
		tr := common.TouchRequest{Key: key, Exptime: w.TTL(c.T)}
		req, rt, err = tr, common.RequestTouch, o.Touch(tr)
	case "gat":
		gr := common.GATRequest{Key: key, Exptime: w.TTL(c.T)}
		req, rt, err = gr, common.RequestGat, o.Gat(gr)
	case "get":
		keys := [][]byte{key}
		if len(c.Keys) > 0 {
			keys = nil
			for _, k := range c.Keys {
				keys = append(keys, append([]byte(nil), w.Key(k)...))
			}
		}
		gr := common.GetRequest{Keys: keys, Opaques: make([]uint32, len(keys)), Quiet: make([]bool, len(keys))}
		req, rt, err = gr, common.RequestGet, o.Get(gr)
	default:
		panic("lin: op " + c.Op)
	}
	if err != nil {
		if common.IsAppError(err) {
			o.Error(req, rt, err)
		} else {
			return []interface{}{"closed"}
		}
	}
	switch {
	case resp.errc != "":
		if c.Op == "gat" && resp.errc == "fail" {
			return []interface{}{"miss"}
		}
		return []interface{}{resp.errc}
	case c.Op == "get" && len(c.Keys) > 0:
		return []interface{}{"multi", resp.items, resp.ends}
	case c.Op == "get" || c.Op == "gat":
		if len(resp.items) == 1 {
			return resp.items[0].([]interface{})
		}
		return []interface{}{"malformed", len(resp.items)}
	case resp.ok:
		return []interface{}{"ok"}
	}
	return []interface{}{"noreply"}
}

// LinProg is one concurrent program.
type LinProg struct {
	ID      int          `json:"id"`
	Init    string       `json:"init"` // empty | both | l2only
	Clients []LinClientP `json:"clients"`
	Fault   *gate.Fault  `json:"fault,omitempty"`
}
type LinClientP struct {
	Port string `json:"port"`
	Cmds []MCmd `json:"cmds"`
}

func bucketOf(key []byte, stripes int) int {
	h := fnv.New32a()
	h.Write(key)
	return int(h.Sum32()) & (stripes - 1)
}

// Lin explores schedules of concurrent programs on the real LockedOrca + L1L2/L1L2Batch
// orchestrators over real std handlers and records every execution.
//
//	-mode multi|single (reader mode)  -len <log2 stripes>  -in programs.json  -n max schedules per program
func Lin(a Args) {
	rec, err := NewRec(a.Out)
	must(err)
	defer rec.Close()
	multi := a.Mode != "single"
	conc := uint8(a.Len)
	if a.Len > 8 {
		conc = 0
	}
	stripes := 1 << conc
	var progs []LinProg
	b, err := os.ReadFile(a.In)
	must(err)
	must(json.Unmarshal(b, &progs))

	clock := &fakemc.Clock{}
	l1 := fakemc.New("l1", clock)
	l2 := fakemc.New("l2", clock)
	must(os.MkdirAll(a.Dir, 0o755))
	s1, s2 := filepath.Join(a.Dir, "l1.sock"), filepath.Join(a.Dir, "l2.sock")
	must(l1.ListenUnix(s1))
	must(l2.ListenUnix(s2))

	var emu sync.Mutex
	var events []map[string]interface{}
	emit := func(ev map[string]interface{}) {
		emu.Lock()
		events = append(events, ev)
		emu.Unlock()
	}
	sched := gate.New(emit)
	var lockedMain, lockedBatch orcas.OrcaConst
	if a.Mode == "none" {
		// no locking wrapper: the orchestrators interleave freely at handler-call granularity. Executions are not
		// expected to be linearizable then; what is checked is the reply discipline (C08) under interleaving
		lockedMain, lockedBatch = orcas.L1L2, orcas.L1L2Batch
	} else {
		var slot uint32
		lockedMain, slot = orcas.Locked(orcas.L1L2, multi, conc)
		lockedBatch = orcas.LockedWithExisting(orcas.L1L2Batch, slot)
		orcas.VerifWrapLockers(slot, func(i int, w, r sync.Locker) (sync.Locker, sync.Locker) { return gate.WrapPair(sched, i, w, r) })
	}

	w := absx.NewWorld(a.Seed, absx.SizesSmall(), false)
	// keys k1, k2: same stripe iff the lock set has one stripe; with more stripes k2 lives elsewhere, k3 shares k1's
	rng := rand.New(rand.NewSource(a.Seed))
	pick := func(name string, want int) {
		for {
			k := make([]byte, 1+rng.Intn(8))
			rng.Read(k)
			if bucketOf(k, stripes) == want {
				w.SetKey(name, k)
				return
			}
		}
	}
	pick("k1", 0)
	pick("k2", (stripes-1)&1)
	pick("k3", 0)
	keys := []string{"k1", "k2", "k3"}
	keyOf := func(k []byte) string { return w.KeyName(k) }

	calls := map[int]int{}
	var fault *gate.Fault
	const nClients = 3
	cls := make([]*linClient, nClients)
	for c := 0; c < nClients; c++ {
		lc := &linClient{id: c, resp: &recResponder{w: w}, orca: map[string]orcas.Orca{}}
		for _, port := range []string{"main", "batch"} {
			c1, err := net.Dial("unix", s1)
			must(err)
			c2, err := net.Dial("unix", s2)
			must(err)
			lc.conns = append(lc.conns, c1, c2)
			g1 := gate.Handler{S: sched, Tier: "l1", H: std.NewHandler(c1), KeyOf: keyOf, Calls: &calls, Log: true}
			g2 := gate.Handler{S: sched, Tier: "l2", H: std.NewHandler(c2), KeyOf: keyOf, Calls: &calls, Log: true}
			var h1, h2 handlers.Handler = faultable{g1, &fault}, faultable{g2, &fault}
			if port == "main" {
				lc.orca[port] = lockedMain(h1, h2, lc.resp)
			} else {
				lc.orca[port] = lockedBatch(h1, h2, lc.resp)
			}
		}
		cls[c] = lc
	}

	initState := func(kind string) (stack.MMap, stack.MMap) {
		e := stack.MEntry{V: []int{9}, F: 1, E: absx.Inf}
		switch kind {
		case "both":
			return stack.MMap{"k1": e}, stack.MMap{"k1": e}
		case "l2only":
			return stack.MMap{}, stack.MMap{"k1": e}
		}
		return stack.MMap{}, stack.MMap{}
	}
	raw := func(m stack.MMap) map[string]fakemc.Entry {
		t := map[string]fakemc.Entry{}
		for k, e := range m {
			t[string(w.Key(k))] = fakemc.Entry{Data: w.Value(e.V), Flags: w.Flags(e.F), Exp: w.ExpFor(e.E)}
		}
		return t
	}
	project := func(st *fakemc.Store) []interface{} {
		out := stack.MMap{}
		t := st.LiveSnapshot()
		for _, k := range keys {
			if e, ok := t[string(w.Key(k))]; ok {
				out[k] = stack.MEntry{V: w.ProjectOrCorrupt(e.Data), F: w.FlagsBack(e.Flags), E: w.DeadlineUnits(e.Exp)}
			}
		}
		return tierJSON(out)
	}

	nexec, nsched := 0, 0
	stopped := ""
	for _, p := range progs {
		prefix := []int{}
		count := 0
		for {
			// fresh state
			m1, m2 := initState(p.Init)
			l1.Restore(raw(m1))
			l2.Restore(raw(m2))
			for k := range calls {
				delete(calls, k)
			}
			fault = p.Fault
			events = events[:0]
			pm := map[int]func(){}
			for ci, cp := range p.Clients {
				ci, cp := ci, cp
				lc := cls[ci]
				pm[ci] = func() {
					for _, cmd := range cp.Cmds {
						emit(map[string]interface{}{"ev": "inv", "c": ci, "port": cp.Port, "x": xJSON(cmd)})
						res := callOrca(lc.orca[cp.Port], w, cmd, lc.resp)
						emit(map[string]interface{}{"ev": "ret", "c": ci, "res": res})
					}
				}
			}
			r := sched.Run(pm, func(step int, enabled []int) int {
				if step < len(prefix) && prefix[step] < len(enabled) {
					return enabled[prefix[step]]
				}
				return enabled[0]
			})
			nexec++
			count++
			idx := make([]int, len(r.Choices))
			for i, ch := range r.Choices {
				for j, e := range ch.Enabled {
					if e == ch.Picked {
						idx[i] = j
					}
				}
			}
			lines := []map[string]interface{}{{"ev": "reset", "prog": p.ID, "sched": count, "mode": a.Mode, "stripes": stripes,
				"init": p.Init, "l1": tierJSON(m1), "l2": tierJSON(m2), "choices": idx, "program": p}}
			for _, ev := range events {
				cp := map[string]interface{}{}
				for k, v := range ev {
					cp[k] = v
				}
				lines = append(lines, cp)
			}
			if r.Deadlock || r.Hung {
				lines = append(lines, map[string]interface{}{"ev": "stuck", "deadlock": r.Deadlock, "hung": r.Hung, "at": fmt.Sprint(r.Stuck)})
				stopped = fmt.Sprintf("program %d schedule %d: deadlock=%v hung=%v at %v", p.ID, count, r.Deadlock, r.Hung, r.Stuck)
			} else {
				lines = append(lines, map[string]interface{}{"ev": "quiesce", "l1": project(l1), "l2": project(l2)})
			}
			lines = append(lines, map[string]interface{}{"ev": "end", "prog": p.ID, "sched": count})
			for i, ln := range lines {
				ln["rem"] = len(lines) - 1 - i
				rec.Emit(ln)
			}
			if stopped != "" {
				break
			}
			// next schedule in depth-first order
			i := len(r.Choices) - 1
			for ; i >= 0; i-- {
				if idx[i]+1 < len(r.Choices[i].Enabled) {
					break
				}
			}
			if i < 0 || (a.N > 0 && count >= a.N) {
				break
			}
			prefix = append(append([]int{}, idx[:i]...), idx[i]+1)
		}
		nsched += count
		if stopped != "" {
			break // goroutines of the stuck execution still hold real locks: this process is done
		}
	}
	fmt.Printf("{\"programs\": %d, \"executions\": %d, \"stopped\": %q}\n", len(progs), nexec, stopped)
}

// faultable lets the fault plan be switched per program without rebuilding the orchestrators.
type faultable struct {
	gate.Handler
	f **gate.Fault
}

func (h faultable) with() gate.Handler { g := h.Handler; g.Fault = *h.f; return g }

func (h faultable) Set(c common.SetRequest) error                       { return h.with().Set(c) }
func (h faultable) Add(c common.SetRequest) error                       { return h.with().Add(c) }
func (h faultable) Replace(c common.SetRequest) error                   { return h.with().Replace(c) }
func (h faultable) Append(c common.SetRequest) error                    { return h.with().Append(c) }
func (h faultable) Prepend(c common.SetRequest) error                   { return h.with().Prepend(c) }
func (h faultable) Delete(c common.DeleteRequest) error                 { return h.with().Delete(c) }
func (h faultable) Touch(c common.TouchRequest) error                   { return h.with().Touch(c) }
func (h faultable) GAT(c common.GATRequest) (common.GetResponse, error) { return h.with().GAT(c) }
func (h faultable) Get(c common.GetRequest) (<-chan common.GetResponse, <-chan error) {
	return h.with().Get(c)
}
func (h faultable) GetE(c common.GetRequest) (<-chan common.GetEResponse, <-chan error) {
	return h.with().GetE(c)
}
