package drv

import (
	"bytes"
	"encoding/json"
	"fmt"
	"math/rand"
	"net"
	"os"
	"path/filepath"
	"sort"
	"strconv"
	"strings"
	"time"

	"github.com/netflix/rend/common"
	"github.com/netflix/rend/handlers/memcached/chunked"

	"verif/harness/chunkfmt"
	"verif/harness/fakemc"
)

func init() { Drivers["chunk-conc"] = ChunkConc }

// ChunkProg: writers (name -> chunk count, kind) and readers (name -> get|gat) on one key.
type ChunkProg struct {
	ID      int               `json:"id"`
	N       map[string]int    `json:"n"`
	Kind    map[string]string `json:"kind"`
	Readers map[string]string `json:"readers"`
	Losses  int               `json:"losses"`
	Pre     string            `json:"pre"`     // "" or the name of a writer whose value is stored before the race starts
	PreSame bool              `json:"presame"` // the pre-stored value is written through the first active writer's own connection
}

type ccEvent struct {
	kind   string // pending | done
	client string
	conn   int
	req    *fakemc.Request
	res    []interface{}
}

var opNames = map[byte]string{fakemc.OpGet: "get", fakemc.OpGetQ: "getq", fakemc.OpSet: "set", fakemc.OpAdd: "add", fakemc.OpReplace: "replace",
	fakemc.OpGat: "gat", fakemc.OpGatQ: "gatq", fakemc.OpNoop: "noop", fakemc.OpDelete: "delete", fakemc.OpTouch: "touch"}

func slotOf(raw string, key []byte) (int, bool) {
	p := string(key) + "-"
	if !strings.HasPrefix(raw, p) {
		return 0, false
	}
	s := raw[len(p):]
	if s == "meta" {
		return -1, true
	}
	n, err := strconv.Atoi(s)
	if err != nil || n < 0 {
		return 0, false
	}
	return n, true
}

// ChunkConc runs writers and readers of one key through separate real chunked handlers against a
// gated fake backend: the scheduler decides which connection's next backend request is processed
// (or which entry the backend loses) and enumerates the schedules depth-first.
//
//	-mode interleave|subsets   -in programs.json   -n max schedules per program
func ChunkConc(a Args) {
	rec, err := NewRec(a.Out)
	must(err)
	defer rec.Close()
	var progs []ChunkProg
	b, err := os.ReadFile(a.In)
	must(err)
	must(json.Unmarshal(b, &progs))
	clock := &fakemc.Clock{}
	st := fakemc.New("l1", clock)
	sock := filepath.Join(a.Dir, "b.sock")
	must(st.ListenUnix(sock))
	rng := rand.New(rand.NewSource(a.Seed))
	key := []byte(fmt.Sprintf("key%d", a.Seed%1000))
	pay := chunkfmt.Payload(len(key))

	evc := make(chan ccEvent, 64)
	grants := map[int]chan struct{}{}
	connClient := map[int]string{}
	gated := false
	st.Gate = func(conn int, r *fakemc.Request) {
		if !gated {
			return
		}
		g, ok := grants[conn]
		if !ok {
			return
		}
		evc <- ccEvent{kind: "pending", client: connClient[conn], conn: conn, req: r}
		<-g
	}
	value := func(w string, n int) []byte {
		if n == 0 {
			return []byte{}
		}
		r := rand.New(rand.NewSource(int64(len(w))*7919 + int64(w[len(w)-1])*104729 + int64(n)))
		v := make([]byte, n*pay-1-r.Intn(3))
		r.Read(v)
		return v
	}
	flagsOf := func(w string) uint32 { return uint32(w[len(w)-1]) }
	nexec := 0
	for _, p := range progs {
		writers := []string{}
		allWriters := []string{}
		for w := range p.N {
			allWriters = append(allWriters, w)
			if w != p.Pre {
				writers = append(writers, w)
			}
		}
		sort.Strings(writers)
		sort.Strings(allWriters)
		readers := []string{}
		for r := range p.Readers {
			readers = append(readers, r)
		}
		sort.Strings(readers)
		// an appender's piece: the grown value has N[w] chunks (one byte more when the count stays the same)
		piece := func(w string) []byte {
			d := p.N[w] - p.N[p.Pre]
			n := 1
			if d > 0 {
				n = d*pay - 3
			}
			r := rand.New(rand.NewSource(int64(w[len(w)-1])*31337 + int64(n)))
			b := make([]byte, n)
			r.Read(b)
			return b
		}
		// the complete value a writer leaves behind, and the flags it has
		full := func(w string) ([]byte, uint32) {
			switch p.Kind[w] {
			case "append":
				return append(append([]byte{}, value(p.Pre, p.N[p.Pre])...), piece(w)...), flagsOf(p.Pre)
			case "prepend":
				return append(append([]byte{}, piece(w)...), value(p.Pre, p.N[p.Pre])...), flagsOf(p.Pre)
			}
			return value(w, p.N[w]), flagsOf(w)
		}
		classify := func(miss bool, data []byte, flags uint32) []interface{} {
			if miss {
				return []interface{}{"miss"}
			}
			for _, w := range allWriters {
				fv, ff := full(w)
				if bytes.Equal(data, fv) {
					if flags != ff {
						return []interface{}{"torn", "value of " + w + " with foreign flags"}
					}
					return []interface{}{"hit", w}
				}
			}
			z := 0
			for _, c := range data {
				if c == 0 {
					z++
				}
			}
			return []interface{}{"torn", fmt.Sprintf("%d bytes (%d zero) that no single set wrote", len(data), z)}
		}
		prefix := []int{}
		count := 0
		for {
			st.Clear()
			gated = false
			if p.Pre != "" && !p.PreSame {
				c, err := net.Dial("unix", sock)
				must(err)
				h := chunked.NewHandler(c)
				must(h.Set(common.SetRequest{Key: append([]byte(nil), key...), Data: value(p.Pre, p.N[p.Pre]), Flags: flagsOf(p.Pre)}))
				h.Close()
			}
			// one handler connection per client, ids recorded as they are accepted
			type cl struct {
				name string
				h    chunked.Handler
				conn int
			}
			var cls []cl
			grants = map[int]chan struct{}{}
			connClient = map[int]string{}
			for _, name := range append(append([]string{}, writers...), readers...) {
				before := st.NextConnID()
				c, err := net.Dial("unix", sock)
				must(err)
				for st.NextConnID() == before {
					time.Sleep(50 * time.Microsecond)
				}
				id := st.NextConnID()
				cls = append(cls, cl{name: name, h: chunked.NewHandler(c), conn: id})
				grants[id] = make(chan struct{})
				connClient[id] = name
			}
			if p.Pre != "" && p.PreSame {
				// two writes of one key through ONE connection: whatever a handler keeps per connection
				// (its token source, say) is shared by the stored value and the racing write
				must(cls[0].h.Set(common.SetRequest{Key: append([]byte(nil), key...), Data: value(p.Pre, p.N[p.Pre]), Flags: flagsOf(p.Pre)}))
			}
			gated = true
			var lines []map[string]interface{}
			for _, c := range cls {
				c := c
				go func() {
					k := append([]byte(nil), key...)
					var res []interface{}
					if n, ok := p.N[c.name]; ok && c.name != p.Pre {
						req := common.SetRequest{Key: k, Data: value(c.name, n), Flags: flagsOf(c.name)}
						var err error
						switch p.Kind[c.name] {
						case "append":
							err = c.h.Append(common.SetRequest{Key: k, Data: piece(c.name)})
						case "prepend":
							err = c.h.Prepend(common.SetRequest{Key: k, Data: piece(c.name)})
						case "add":
							err = c.h.Add(req)
						case "replace":
							err = c.h.Replace(req)
						default:
							err = c.h.Set(req)
						}
						res = handlerRes(err)
					} else if p.Readers[c.name] == "gat" {
						r, err := c.h.GAT(common.GATRequest{Key: k, Exptime: 0})
						if err != nil {
							res = handlerRes(err)
						} else {
							res = classify(r.Miss, r.Data, r.Flags)
						}
					} else {
						rc, ec := c.h.Get(common.GetRequest{Keys: [][]byte{k}, Opaques: []uint32{1}, Quiet: []bool{false}})
						for rc != nil || ec != nil {
							select {
							case r, ok := <-rc:
								if !ok {
									rc = nil
								} else {
									res = classify(r.Miss, r.Data, r.Flags)
								}
							case e, ok := <-ec:
								if !ok {
									ec = nil
								} else {
									res = handlerRes(e)
								}
							}
						}
					}
					evc <- ccEvent{kind: "done", client: c.name, res: res}
				}()
			}
			pending := map[string]ccEvent{}
			done := map[string]bool{}
			waitOne := func() bool {
				select {
				case e := <-evc:
					if e.kind == "pending" {
						pending[e.client] = e
					} else {
						done[e.client] = true
						lines = append(lines, map[string]interface{}{"ev": "ret", "c": e.client, "res": e.res})
					}
					return true
				case <-time.After(10 * time.Second):
					return false
				}
			}
			hung := false
			for i := 0; i < len(cls); i++ {
				if !waitOne() {
					hung = true
				}
			}
			lossesLeft := p.Losses
			var idx []int
			var nopts []int
			step := 0
			for !hung && len(done) < len(cls) {
				// options: the pending connections in client-name order, then the entries that can be lost
				var opts []string
				names := []string{}
				for n := range pending {
					names = append(names, n)
				}
				// writers before readers: the all-zero schedule lets the writers finish first, and
				// depth-first order then varies the reader's position from the end backwards
				sort.Slice(names, func(i, j int) bool {
					_, wi := p.N[names[i]]
					_, wj := p.N[names[j]]
					if wi != wj {
						return wi
					}
					return names[i] < names[j]
				})
				opts = append(opts, names...)
				if lossesLeft > 0 {
					raws := st.Keys()
					for _, rk := range raws {
						if _, ok := slotOf(rk, key); ok {
							opts = append(opts, "lose:"+rk)
						}
					}
				}
				if len(opts) == 0 {
					hung = true
					break
				}
				ch := 0
				if step < len(prefix) && prefix[step] < len(opts) {
					ch = prefix[step]
				}
				idx = append(idx, ch)
				nopts = append(nopts, len(opts))
				step++
				o := opts[ch]
				if strings.HasPrefix(o, "lose:") {
					rk := o[5:]
					s, _ := slotOf(rk, key)
					st.Drop(rk)
					lossesLeft--
					lines = append(lines, map[string]interface{}{"ev": "lose", "slot": s})
					continue
				}
				e := pending[o]
				delete(pending, o)
				s, ok := slotOf(string(e.req.Key), key)
				if e.req.Op == fakemc.OpNoop {
					s, ok = -2, true
				}
				if !ok {
					lines = append(lines, map[string]interface{}{"ev": "foreign", "c": o, "key": fmt.Sprintf("%x", e.req.Key)})
				} else {
					lines = append(lines, map[string]interface{}{"ev": "breq", "c": o, "op": opNames[e.req.Op], "slot": s})
				}
				grants[e.conn] <- struct{}{}
				if !waitOne() {
					hung = true
				}
			}
			gated = false
			nexec++
			count++
			head := map[string]interface{}{"ev": "reset", "prog": p.ID, "sched": count, "n": p.N, "kind": p.Kind, "readers": p.Readers,
				"pre": p.Pre, "choices": idx, "losses": p.Losses}
			all := append([]map[string]interface{}{head}, lines...)
			if hung {
				all = append(all, map[string]interface{}{"ev": "stuck"})
			}
			all = append(all, map[string]interface{}{"ev": "end", "prog": p.ID, "sched": count})
			for _, ln := range all {
				rec.Emit(ln)
			}
			for _, c := range cls {
				c.h.Close()
			}
			if hung {
				fmt.Printf("{\"programs\": %d, \"executions\": %d, \"stopped\": \"hung in program %d\"}\n", len(progs), nexec, p.ID)
				return
			}
			// next schedule
			i := len(idx) - 1
			for ; i >= 0; i-- {
				if idx[i]+1 < nopts[i] {
					break
				}
			}
			if i < 0 || (a.N > 0 && count >= a.N) {
				break
			}
			if a.N > 0 && count > a.N/2 {
				// beyond half the budget, continue with random schedules instead of depth-first order
				prefix = make([]int, len(idx)+4)
				for j := range prefix {
					prefix[j] = rng.Intn(4)
				}
				continue
			}
			prefix = append(append([]int{}, idx[:i]...), idx[i]+1)
		}
	}
	fmt.Printf("{\"programs\": %d, \"executions\": %d, \"stopped\": \"\"}\n", len(progs), nexec)
}
