package drv

// Driver "wire" (C07, C11): feeds the REAL request parsers of rend (protocol/binprot and
// protocol/textprot, through their Parse method) and the real server loop, and records what they
// did as ndjson events for spec/WireTrace.tla.
//
//   -mode c07-quick | c07-thorough   well-formed pipelines x segmentations of the byte stream, and
//                                    protocol detection through the real accept path
//   -mode c11-quick | c11-thorough   malformed input: header grid, mutations of valid requests,
//                                    text protocol cases; executed by child processes
//   -mode c11-worker                 (internal) one child process of the above
//
// Request bytes come from the harness's own encoder (package wire), never from rend's.

import (
	"bufio"
	"bytes"
	"context"
	"crypto/sha1"
	"encoding/binary"
	"encoding/hex"
	"encoding/json"
	"fmt"
	"io"
	"math/rand"
	"net"
	"os"
	"os/exec"
	"path/filepath"
	"runtime"
	"sort"
	"strconv"
	"strings"
	"sync"
	"syscall"
	"time"

	"github.com/netflix/rend/common"
	"github.com/netflix/rend/protocol/binprot"
	"github.com/netflix/rend/protocol/textprot"

	"verif/harness/fakemc"
	"verif/harness/stack"
	"verif/harness/wire"
)

func init() { Drivers["wire"] = Wire }

// Wire is the entry point of the driver.
func Wire(a Args) {
	// rend prints every header with a bad magic byte to standard output
	if devnull, err := os.OpenFile(os.DevNull, os.O_WRONLY, 0); err == nil {
		os.Stdout = devnull
	}
	switch a.Mode {
	case "c07-quick":
		wdC07(a, false)
	case "c07-thorough":
		wdC07(a, true)
	case "c11-quick":
		wdC11(a, "quick")
	case "c11-thorough":
		wdC11(a, "thorough")
	case "c11-worker":
		wdC11Worker(a)
	default:
		fmt.Fprintln(os.Stderr, "wire: unknown -mode", a.Mode)
		os.Exit(2)
	}
}

// =====================================================================================
// C07: decoding of well-formed pipelines under segmentation
// =====================================================================================

// wdSegReader hands out the stream cut at the prescribed offsets (or in reads of `step` bytes).
type wdSegReader struct {
	data []byte
	cuts []int // ascending
	step int
	pos  int
	ci   int
}

func (s *wdSegReader) Read(p []byte) (int, error) {
	if s.pos >= len(s.data) {
		return 0, io.EOF
	}
	end := len(s.data)
	if s.step > 0 {
		if s.pos+s.step < end {
			end = s.pos + s.step
		}
	} else {
		for s.ci < len(s.cuts) && s.cuts[s.ci] <= s.pos {
			s.ci++
		}
		if s.ci < len(s.cuts) && s.cuts[s.ci] < end {
			end = s.cuts[s.ci]
		}
	}
	n := copy(p, s.data[s.pos:end])
	s.pos += n
	return n, nil
}

// wdGot is what one Parse call returned.
type wdGot struct {
	Op       string
	Err      string
	Keys     [][]byte
	Opq      []uint32
	Quiet    []bool
	NoopEnd  bool
	NoopOpq  uint32
	Flags    uint32
	Exp      uint32
	Data     []byte
	Consumed int
}

var wdTypeName = map[common.RequestType]string{
	common.RequestUnknown: "unknown", common.RequestGet: "get", common.RequestGat: "gat", common.RequestGetE: "gete",
	common.RequestSet: "set", common.RequestAdd: "add", common.RequestReplace: "replace", common.RequestAppend: "append",
	common.RequestPrepend: "prepend", common.RequestDelete: "delete", common.RequestTouch: "touch",
	common.RequestNoop: "noop", common.RequestQuit: "quit", common.RequestVersion: "version", common.RequestStat: "stat",
}

func wdExtract(req common.Request, typ common.RequestType, err error) wdGot {
	if err != nil {
		if err == io.EOF {
			return wdGot{Op: "eof"}
		}
		return wdGot{Op: "error", Err: err.Error()}
	}
	g := wdGot{Op: wdTypeName[typ]}
	bad := func(want string) wdGot {
		return wdGot{Op: "typemismatch", Err: fmt.Sprintf("type %s with a %T", want, req)}
	}
	q1 := func(q bool) []bool {
		if q {
			return []bool{true}
		}
		return nil
	}
	switch typ {
	case common.RequestSet, common.RequestAdd, common.RequestReplace, common.RequestAppend, common.RequestPrepend:
		r, ok := req.(common.SetRequest)
		if !ok {
			return bad(g.Op)
		}
		g.Keys, g.Opq, g.Quiet, g.Flags, g.Exp, g.Data = [][]byte{r.Key}, []uint32{r.Opaque}, []bool{r.Quiet}, r.Flags, r.Exptime, r.Data
	case common.RequestGet, common.RequestGetE:
		r, ok := req.(common.GetRequest)
		if !ok {
			return bad(g.Op)
		}
		g.Keys, g.Opq, g.Quiet, g.NoopEnd, g.NoopOpq = r.Keys, r.Opaques, r.Quiet, r.NoopEnd, r.NoopOpaque
	case common.RequestGat:
		r, ok := req.(common.GATRequest)
		if !ok {
			return bad(g.Op)
		}
		g.Keys, g.Opq, g.Exp, g.Quiet = [][]byte{r.Key}, []uint32{r.Opaque}, r.Exptime, q1(r.Quiet)
	case common.RequestDelete:
		r, ok := req.(common.DeleteRequest)
		if !ok {
			return bad(g.Op)
		}
		g.Keys, g.Opq, g.Quiet = [][]byte{r.Key}, []uint32{r.Opaque}, q1(r.Quiet)
	case common.RequestTouch:
		r, ok := req.(common.TouchRequest)
		if !ok {
			return bad(g.Op)
		}
		g.Keys, g.Opq, g.Exp, g.Quiet = [][]byte{r.Key}, []uint32{r.Opaque}, r.Exptime, q1(r.Quiet)
	case common.RequestNoop:
		r, ok := req.(common.NoopRequest)
		if !ok {
			return bad(g.Op)
		}
		g.Opq = []uint32{r.Opaque}
	case common.RequestQuit:
		r, ok := req.(common.QuitRequest)
		if !ok {
			return bad(g.Op)
		}
		g.Opq, g.Quiet = []uint32{r.Opaque}, []bool{r.Quiet}
	case common.RequestVersion:
		r, ok := req.(common.VersionRequest)
		if !ok {
			return bad(g.Op)
		}
		g.Opq = []uint32{r.Opaque}
	case common.RequestStat:
		r, ok := req.(common.StatRequest)
		if !ok {
			return bad(g.Op)
		}
		g.Opq = []uint32{r.Opaque}
	default:
		g.Op = "unknown"
	}
	return g
}

func (g *wdGot) equal(h *wdGot) bool {
	if g.Op != h.Op || g.Err != h.Err || g.NoopEnd != h.NoopEnd || g.NoopOpq != h.NoopOpq || g.Flags != h.Flags ||
		g.Exp != h.Exp || g.Consumed != h.Consumed || len(g.Keys) != len(h.Keys) || len(g.Opq) != len(h.Opq) ||
		len(g.Quiet) != len(h.Quiet) || !bytes.Equal(g.Data, h.Data) {
		return false
	}
	for i := range g.Keys {
		if !bytes.Equal(g.Keys[i], h.Keys[i]) {
			return false
		}
	}
	for i := range g.Opq {
		if g.Opq[i] != h.Opq[i] {
			return false
		}
	}
	for i := range g.Quiet {
		if g.Quiet[i] != h.Quiet[i] {
			return false
		}
	}
	return true
}

// wdDigest identifies a byte string: length and a prefix of its SHA-1.
func wdDigest(b []byte) string {
	h := sha1.Sum(b)
	return strconv.Itoa(len(b)) + ":" + hex.EncodeToString(h[:6])
}

func wdU32s(v []uint32) []string {
	out := make([]string, len(v))
	for i, x := range v {
		out[i] = strconv.FormatUint(uint64(x), 10)
	}
	return out
}

func wdKeyDigests(ks [][]byte) ([]string, []int) {
	d, l := make([]string, len(ks)), make([]int, len(ks))
	for i, k := range ks {
		d[i], l[i] = wdDigest(k), len(k)
	}
	return d, l
}

func (g *wdGot) json() map[string]interface{} {
	kd, kl := wdKeyDigests(g.Keys)
	q := g.Quiet
	if q == nil {
		q = []bool{}
	}
	return map[string]interface{}{"op": g.Op, "err": g.Err, "keys": kd, "klens": kl, "opq": wdU32s(g.Opq), "quiet": q,
		"noopend": g.NoopEnd, "noopopq": strconv.FormatUint(uint64(g.NoopOpq), 10),
		"flags": strconv.FormatUint(uint64(g.Flags), 10), "exp": strconv.FormatUint(uint64(g.Exp), 10),
		"dlen": len(g.Data), "data": wdDigest(g.Data)}
}

// wdParseAll parses n requests (and once more, to meet the end of the stream) from the stream
// delivered in the given segments, with a fresh real parser.
func wdParseAll(proto string, stream []byte, cuts []int, step int, n int) (out []wdGot) {
	sr := &wdSegReader{data: stream, cuts: cuts, step: step}
	br := bufio.NewReader(sr)
	var parse func() (common.Request, common.RequestType, uint64, error)
	if proto == "bin" {
		parse = binprot.NewBinaryParser(br).Parse
	} else {
		parse = textprot.NewTextParser(br).Parse
	}
	out = make([]wdGot, 0, n+1)
	defer func() {
		if r := recover(); r != nil {
			out = append(out, wdGot{Op: "panic", Err: fmt.Sprint(r), Consumed: sr.pos - br.Buffered()})
		}
		for len(out) < n+1 {
			out = append(out, wdGot{Op: "notreached", Consumed: -1})
		}
	}()
	for i := 0; i <= n; i++ {
		req, typ, _, err := parse()
		g := wdExtract(req, typ, err)
		g.Consumed = sr.pos - br.Buffered()
		out = append(out, g)
		if err != nil {
			break
		}
	}
	return out
}

// ---- generation of well-formed pipelines ----

type wdPipe struct {
	ID     string
	Proto  string
	Cmds   []wire.Command
	Stream []byte
	Bounds []int // start offset of each request, and the stream length
	Fields []int // every field boundary inside the stream
	AllOff bool  // thorough: try every split offset although the stream is long
}

var wdCorners = []uint32{0, 1, 1 << 31, 0xffffffff}

func wdU32(rng *rand.Rand) uint32 {
	if rng.Intn(3) == 0 {
		return rng.Uint32()
	}
	return wdCorners[rng.Intn(len(wdCorners))]
}

func wdKey(rng *rand.Rand, text bool, n int) []byte {
	k := make([]byte, n)
	nasty := []byte{0x00, 0x80, '\r', '\n', ' ', 0xff, 0x81, '\t'}
	for i := range k {
		if text {
			// a text key is any run of bytes without ASCII control characters and space: high bytes included
			if rng.Intn(4) == 0 {
				k[i] = byte(0x80 + rng.Intn(0x80))
			} else {
				k[i] = byte(0x21 + rng.Intn(0x7e-0x21+1))
			}
		} else if rng.Intn(3) == 0 {
			k[i] = nasty[rng.Intn(len(nasty))]
		} else {
			k[i] = byte(rng.Intn(256))
		}
	}
	if text && n >= 4 && rng.Intn(3) == 0 {
		// the UTF-8 encodings of Unicode white space are ordinary key bytes in the memcached text protocol:
		// NBSP, NEL, em space, ideographic space, line separator - inside the key and at its very end
		sp := [][]byte{{0xc2, 0xa0}, {0xc2, 0x85}, {0xe2, 0x80, 0x83}, {0xe3, 0x80, 0x80}, {0xe2, 0x80, 0xa8}}[rng.Intn(5)]
		at := 1 + rng.Intn(n-len(sp))
		if rng.Intn(2) == 0 {
			at = n - len(sp)
		}
		copy(k[at:], sp)
	}
	return k
}

// wdData builds a value full of bytes a careless parser would trip over.
func wdData(rng *rand.Rand, n int) []byte {
	d := make([]byte, n)
	rng.Read(d)
	pats := [][]byte{[]byte("\r\n"), {0x80}, {0x00}, []byte("\n"), []byte("\r"), []byte("\r\nget k\r\n"), {0x80, 0x0a, 0, 0}, []byte("END\r\n")}
	at := func(off int, p []byte) {
		if off >= 0 && off+len(p) <= n {
			copy(d[off:], p)
		}
	}
	at(0, pats[rng.Intn(len(pats))])
	at(n-2, []byte("\r\n"))
	for i := 0; i < 6 && n > 8; i++ {
		at(rng.Intn(n), pats[rng.Intn(len(pats))])
	}
	if n > 4100 {
		at(4094, []byte("\r\n\x80\x00"))
	}
	return d
}

var wdKeyLens = []int{1, 2, 3, 16, 249, 250}
var wdDataSizes = []int{0, 1, 2, 3, 5, 100, 1023, 1024, 4071, 4094, 4095, 4096, 4097, 8191, 8192, 65535, 65536}
var wdBinOps = []string{"set", "add", "replace", "append", "prepend", "delete", "touch", "gat", "noop", "version", "stats", "quit", "get", "gete"}
var wdTextOps = []string{"set", "add", "replace", "append", "prepend", "delete", "touch", "noop", "version", "stats", "quit", "get"}

func wdIsStore(op string) bool {
	switch op {
	case "set", "add", "replace", "append", "prepend":
		return true
	}
	return false
}

func wdCommand(rng *rand.Rand, text bool, op string, keylen, datalen int) wire.Command {
	c := wire.Command{Op: op, Opaque: wdU32(rng)}
	switch {
	case wdIsStore(op):
		c.Keys = [][]byte{wdKey(rng, text, keylen)}
		c.Data = wdData(rng, datalen)
		c.Flags, c.Exptime = wdU32(rng), wdU32(rng)
		if !text {
			c.Quiet = []bool{rng.Intn(3) == 0}
		}
	case op == "delete":
		c.Keys = [][]byte{wdKey(rng, text, keylen)}
	case op == "touch" || op == "gat":
		c.Keys = [][]byte{wdKey(rng, text, keylen)}
		c.Exptime = wdU32(rng)
	case op == "quit":
		if !text {
			c.Quiet = []bool{rng.Intn(2) == 0}
		}
	case op == "get" || op == "gete":
		nk := 1 + rng.Intn(4)
		for i := 0; i < nk; i++ {
			kl := keylen
			if i > 0 {
				kl = wdKeyLens[rng.Intn(len(wdKeyLens))]
			}
			c.Keys = append(c.Keys, wdKey(rng, text, kl))
		}
		c.Quiet = make([]bool, nk)
		if !text {
			// the supported shape: quiet gets closed by a plain get or by a no-op
			for i := 0; i < nk-1; i++ {
				c.Quiet[i] = true
			}
			if rng.Intn(2) == 0 {
				c.NoopEnd = true
				c.Quiet[nk-1] = true
			}
		}
	}
	return c
}

func wdEncode(text bool, c wire.Command) []byte {
	if text {
		return wire.EncodeText(c)
	}
	return wire.EncodeBinary(c)
}

func wdMakePipe(id string, text bool, cmds []wire.Command) *wdPipe {
	p := &wdPipe{ID: id, Proto: "bin", Cmds: cmds}
	if text {
		p.Proto = "text"
	}
	for _, c := range cmds {
		p.Bounds = append(p.Bounds, len(p.Stream))
		p.Stream = append(p.Stream, wdEncode(text, c)...)
	}
	p.Bounds = append(p.Bounds, len(p.Stream))
	for i := range cmds {
		for _, f := range wdFrames(p, i) {
			p.Fields = append(p.Fields, f.bounds...)
		}
	}
	return p
}

type wdFrame struct {
	js     map[string]interface{}
	bounds []int
}

// wdFrames describes what the encoder wrote for request i, by walking the bytes (binary) or from
// the command (text).
func wdFrames(p *wdPipe, i int) []wdFrame {
	s, e := p.Bounds[i], p.Bounds[i+1]
	var out []wdFrame
	if p.Proto == "bin" {
		for s+24 <= e {
			h := p.Stream[s : s+24]
			kl, el, tot := int(binary.BigEndian.Uint16(h[2:4])), int(h[4]), int(binary.BigEndian.Uint32(h[8:12]))
			out = append(out, wdFrame{js: map[string]interface{}{"op": int(h[1]), "keylen": kl, "extlen": el, "total": tot},
				bounds: []int{s, s + 24, s + 24 + el, s + 24 + el + kl, s + 24 + tot}})
			s += 24 + tot
		}
		return out
	}
	c := p.Cmds[i]
	ll := bytes.Index(p.Stream[s:e], []byte("\r\n")) + 2
	dl := 0
	b := []int{s, s + ll}
	if wdIsStore(c.Op) {
		dl = len(c.Data)
		b = append(b, s+ll+dl, s+ll+dl+2)
	}
	return []wdFrame{{js: map[string]interface{}{"op": c.Op, "nk": len(c.Keys), "linelen": ll, "dlen": dl}, bounds: b}}
}

// wdSent is the request as a faithful decoder must report it (what the protocol can carry).
func wdSent(text bool, c wire.Command) map[string]interface{} {
	kd, _ := wdKeyDigests(c.Keys)
	var opq []uint32
	noopopq := uint32(0)
	switch c.Op {
	case "get", "gete":
		for i := range c.Keys {
			opq = append(opq, c.Opaque+uint32(i))
		}
		if c.NoopEnd {
			noopopq = c.Opaque + uint32(len(c.Keys))
		}
	default:
		opq = []uint32{c.Opaque}
	}
	if text {
		for i := range opq {
			opq[i] = 0
		}
		noopopq = 0
	}
	flags, exp := uint32(0), uint32(0)
	switch c.Op {
	case "set", "add", "replace":
		flags, exp = c.Flags, c.Exptime
	case "append", "prepend":
		if text {
			flags, exp = c.Flags, c.Exptime
		}
	case "touch", "gat":
		exp = c.Exptime
	}
	var data []byte
	if wdIsStore(c.Op) {
		data = c.Data
	}
	return map[string]interface{}{"op": c.Op, "keys": kd, "opq": wdU32s(opq), "noopopq": strconv.FormatUint(uint64(noopopq), 10),
		"flags": strconv.FormatUint(uint64(flags), 10), "exp": strconv.FormatUint(uint64(exp), 10), "data": wdDigest(data)}
}

func wdPipes(seed int64, thorough bool, nrand int) []*wdPipe {
	var ps []*wdPipe
	for _, text := range []bool{false, true} {
		pr, ops := "b", wdBinOps
		if text {
			pr, ops = "t", wdTextOps
		}
		rng := rand.New(rand.NewSource(seed*7919 + int64(len(pr)) + map[bool]int64{false: 0, true: 1000003}[text]))
		// systematic: every command alone, short and longest key, every data size
		sizes := []int{0, 1, 4096, 65536}
		if thorough {
			sizes = wdDataSizes
		}
		for _, op := range ops {
			for _, kl := range []int{1, 250} {
				ds := []int{0}
				if wdIsStore(op) {
					ds = sizes
				}
				for _, d := range ds {
					c := wdCommand(rng, text, op, kl, d)
					ps = append(ps, wdMakePipe(fmt.Sprintf("%ss-%s-k%d-d%d", pr, op, kl, d), text, []wire.Command{c}))
				}
			}
		}
		// every corner value in every 32-bit field
		for _, v := range wdCorners {
			c := wdCommand(rng, text, "set", 3, 4)
			c.Flags, c.Exptime, c.Opaque = v, v, v
			g := wdCommand(rng, text, "get", 3, 0)
			g.Opaque = v
			t := wdCommand(rng, text, "touch", 3, 0)
			t.Exptime, t.Opaque = v, v
			ps = append(ps, wdMakePipe(fmt.Sprintf("%sc-%d", pr, v), text, []wire.Command{c, g, t}))
		}
		// gets with many keys: in text one command line longer than any reader buffer (4 KiB default,
		// 64 KiB line limit), in binary a long run of quiet frames
		for _, shape := range [][2]int{{17, 250}, {40, 200}, {100, 60}, {250, 250}} {
			c := wire.Command{Op: "get", Opaque: wdU32(rng)}
			for i := 0; i < shape[0]; i++ {
				c.Keys = append(c.Keys, wdKey(rng, text, shape[1]))
				c.Quiet = append(c.Quiet, !text && i < shape[0]-1)
			}
			tail := wdCommand(rng, text, "set", 5, 70)
			ps = append(ps, wdMakePipe(fmt.Sprintf("%sm-get-%dx%d", pr, shape[0], shape[1]), text, []wire.Command{c, tail, c}))
		}
		if !text {
			// quiet batches of every length closed both ways, followed by a no-op of their own
			for nq := 0; nq <= 3; nq++ {
				for _, ne := range []bool{false, true} {
					for _, fam := range []string{"get", "gete"} {
						if nq == 0 && ne {
							continue
						}
						c := wire.Command{Op: fam, Opaque: wdU32(rng), NoopEnd: ne}
						nk := nq + 1
						if ne {
							nk = nq
						}
						for i := 0; i < nk; i++ {
							c.Keys = append(c.Keys, wdKey(rng, false, wdKeyLens[rng.Intn(len(wdKeyLens))]))
							c.Quiet = append(c.Quiet, i < nq)
						}
						tail := wire.Command{Op: "noop", Opaque: wdU32(rng)}
						ps = append(ps, wdMakePipe(fmt.Sprintf("bq-%s-%d-%v", fam, nq, ne), false, []wire.Command{c, tail, c}))
					}
				}
			}
		}
		// random pipelines of 1..4 requests
		for i := 0; i < nrand; i++ {
			n := 1 + rng.Intn(4)
			var cmds []wire.Command
			for j := 0; j < n; j++ {
				op := ops[rng.Intn(len(ops))]
				kl := wdKeyLens[rng.Intn(len(wdKeyLens))]
				if rng.Intn(3) == 0 {
					kl = 1 + rng.Intn(250)
				}
				var d int
				switch r := rng.Intn(10); {
				case r < 6:
					d = rng.Intn(40)
				case r < 9:
					d = wdDataSizes[rng.Intn(len(wdDataSizes)-4)]
				default:
					d = wdDataSizes[rng.Intn(len(wdDataSizes))]
				}
				cmds = append(cmds, wdCommand(rng, text, op, kl, d))
			}
			ps = append(ps, wdMakePipe(fmt.Sprintf("%sr-%d", pr, i), text, cmds))
		}
	}
	if thorough {
		// every split offset of six long streams (three per protocol) as well
		n := 0
		for _, p := range ps {
			if len(p.Stream) > 60000 && n < 6 && (n%2 == 0) == (p.Proto == "bin") {
				p.AllOff = true
				n++
			}
		}
	}
	return ps
}

type wdVariant struct {
	got  wdGot
	nseg int
	seg  string
}

// wdRunPipe parses the pipeline under every segmentation of the families and returns, per
// request, the distinct observations.
func wdRunPipe(p *wdPipe, rng *rand.Rand, thorough bool) (agg [][]wdVariant, nseg int) {
	n := len(p.Cmds)
	L := len(p.Stream)
	agg = make([][]wdVariant, n+1)
	add := func(kind string, cuts []int, step int) {
		nseg++
		res := wdParseAll(p.Proto, p.Stream, cuts, step, n)
		for i := range res {
			found := false
			for j := range agg[i] {
				if agg[i][j].got.equal(&res[i]) {
					agg[i][j].nseg++
					found = true
					break
				}
			}
			if !found {
				desc := kind
				if step > 0 {
					desc = fmt.Sprintf("%s(%d)", kind, step)
				} else if len(cuts) > 0 && len(cuts) <= 12 {
					desc = fmt.Sprintf("%s%v", kind, cuts)
				} else if len(cuts) > 12 {
					desc = fmt.Sprintf("%s%v...(%d cuts)", kind, cuts[:12], len(cuts))
				}
				agg[i] = append(agg[i], wdVariant{got: res[i], nseg: 1, seg: desc})
			}
		}
	}
	add("whole", nil, 0)
	add("reads-of", nil, 1)
	for _, s := range []int{2, 3, 7, 23, 24, 25} {
		add("reads-of", nil, s)
	}
	if L > 4000 {
		for _, s := range []int{4095, 4096, 4097} {
			add("reads-of", nil, s)
		}
	}
	fields := wdSortUniq(p.Fields, L)
	add("fields", fields, 0)
	var mids []int
	prev := 0
	for _, f := range append(append([]int{}, fields...), L) {
		if f-prev >= 2 {
			mids = append(mids, prev+(f-prev)/2)
		}
		prev = f
	}
	add("midfields", mids, 0)
	add("fields+mid", wdSortUniq(append(append([]int{}, fields...), mids...), L), 0)
	// one cut at every offset (or, for long streams, around every field boundary and buffer boundary)
	limit := 1500
	if thorough {
		limit = 9000
	}
	var offs []int
	if L <= limit || p.AllOff {
		for o := 1; o < L; o++ {
			offs = append(offs, o)
		}
	} else {
		for _, f := range fields {
			for d := -2; d <= 2; d++ {
				offs = append(offs, f+d)
			}
		}
		for o := 4096; o < L; o += 4096 {
			offs = append(offs, o-1, o, o+1)
		}
		for i := 0; i < 200; i++ {
			offs = append(offs, 1+rng.Intn(L-1))
		}
		offs = wdSortUniq(offs, L)
	}
	for _, o := range offs {
		add("split", []int{o}, 0)
	}
	// random multi-cuts
	m := 24
	if thorough {
		m = 200
	}
	for i := 0; i < m && L > 2; i++ {
		k := 2 + rng.Intn(8)
		var cuts []int
		for j := 0; j < k; j++ {
			if rng.Intn(2) == 0 && len(fields) > 0 {
				cuts = append(cuts, fields[rng.Intn(len(fields))]+rng.Intn(5)-2)
			} else {
				cuts = append(cuts, 1+rng.Intn(L-1))
			}
		}
		add("cuts", wdSortUniq(cuts, L), 0)
	}
	return agg, nseg
}

func wdSortUniq(v []int, L int) []int {
	sort.Ints(v)
	var out []int
	for _, x := range v {
		if x <= 0 || x >= L {
			continue
		}
		if len(out) == 0 || out[len(out)-1] != x {
			out = append(out, x)
		}
	}
	return out
}

func wdC07(a Args, thorough bool) {
	rec, err := NewRec(a.Out)
	must(err)
	defer rec.Close()
	nrand := a.N
	pipes := wdPipes(a.Seed, thorough, nrand)
	type result struct {
		agg  [][]wdVariant
		nseg int
	}
	results := make([]result, len(pipes))
	var wg sync.WaitGroup
	sem := make(chan struct{}, wdMax(1, a.Workers))
	for i := range pipes {
		wg.Add(1)
		sem <- struct{}{}
		go func(i int) {
			defer wg.Done()
			defer func() { <-sem }()
			rng := rand.New(rand.NewSource(a.Seed*1000003 + int64(i)))
			agg, nseg := wdRunPipe(pipes[i], rng, thorough)
			results[i] = result{agg, nseg}
		}(i)
	}
	wg.Wait()
	totalSeg, totalReq := 0, 0
	for i, p := range pipes {
		text := p.Proto == "text"
		n := len(p.Cmds)
		totalSeg += results[i].nseg
		for j := 0; j <= n; j++ {
			ev := map[string]interface{}{"ev": "decode", "proto": p.Proto, "pipe": p.ID, "idx": j, "n": n, "base": p.Bounds[wdMin(j, n)],
				"streamlen": len(p.Stream), "hex": hex.EncodeToString(p.Stream[:wdMin(len(p.Stream), 64)])}
			if j < n {
				var fr []interface{}
				for _, f := range wdFrames(p, j) {
					fr = append(fr, f.js)
				}
				ev["frames"] = fr
				ev["sent"] = wdSent(text, p.Cmds[j])
				totalReq++
			} else {
				ev["frames"] = []interface{}{}
				ev["sent"] = map[string]interface{}{"op": "eof"}
			}
			var vs []interface{}
			for _, v := range results[i].agg[j] {
				vs = append(vs, map[string]interface{}{"got": v.got.json(), "consumed": v.got.Consumed, "nseg": v.nseg, "seg": v.seg})
			}
			ev["variants"] = vs
			rec.Emit(ev)
		}
	}
	ndet := wdDetect(a, rec)
	rec.Emit(map[string]interface{}{"ev": "summary", "pipelines": len(pipes), "requests": totalReq, "segmentations": totalSeg, "detect": ndet})
}

func wdMin(a, b int) int {
	if a < b {
		return a
	}
	return b
}

func wdMax(a, b int) int {
	if a > b {
		return a
	}
	return b
}

// wdDetect opens one connection to the real server per possible first byte.
func wdDetect(a Args, rec *Rec) int {
	st, err := stack.Build(stack.Config{Orca: "l1only", Lock: "none", L1: "std"}, a.Dir, nil)
	must(err)
	textReq := map[byte]string{'s': "set dk 0 0 1\r\nx\r\n", 'a': "add dk2 0 0 1\r\nx\r\n", 'r': "replace dk 0 0 1\r\ny\r\n",
		'p': "prepend dk 0 0 1\r\nz\r\n", 'g': "get dk\r\n", 'd': "delete dk\r\n", 't': "touch dk 0\r\n", 'n': "noop\r\n",
		'v': "version\r\n"}
	for b := 0; b < 256; b++ {
		var payload []byte
		sent := "other"
		switch {
		case b == 0x80:
			payload = wire.EncodeBinary(wire.Command{Op: "version", Opaque: 0x01020304})
			sent = "bin"
		case b >= 'a' && b <= 'z':
			sent = "text"
			if r, ok := textReq[byte(b)]; ok {
				payload = []byte(r)
			} else {
				payload = []byte(string(rune(b)) + "zz\r\n") // no supported command starts with this letter
			}
		default:
			payload = append([]byte{byte(b)}, []byte("ersion\r\n")...)
		}
		answered, note := "none", ""
		conn, err := net.Dial("unix", st.Socks["l1only"])
		if err == nil {
			// the first byte travels alone: the choice must not depend on what follows
			conn.Write(payload[:1])
			time.Sleep(200 * time.Microsecond)
			conn.Write(payload[1:])
			conn.SetReadDeadline(time.Now().Add(2 * time.Second))
			buf := make([]byte, 256)
			n, rerr := conn.Read(buf)
			switch {
			case n > 0 && buf[0] == 0x81:
				answered = "bin"
			case n > 0:
				answered = "text"
				note = strings.TrimSpace(string(buf[:wdMin(n, 40)]))
			case rerr == io.EOF:
				answered = "closed"
			}
			conn.Close()
		} else {
			note = err.Error()
		}
		rec.Emit(map[string]interface{}{"ev": "detect", "byte": b, "sentproto": sent, "answered": answered, "note": note})
	}
	return 256
}

// =====================================================================================
// C11: malformed input
// =====================================================================================

type wdCase struct {
	ID      string
	Proto   string
	Fam     string
	SrvOpen bool // also try the server with the connection kept open (costs a deadline)
	// Spec rebuilds the input in a one-shot child process without enumerating the cases
	Spec func() string
	// Build gives the input bytes, the length of the valid prefix before the malformed frame, the
	// abstract case (binary: c, text: t; without eof) and the backend keys to preload
	Build func() (data []byte, prefix int, abs map[string]interface{}, preload []string)
}

var wdKnownOpcodes = []int{0x00, 0x01, 0x02, 0x03, 0x04, 0x07, 0x09, 0x0a, 0x0b, 0x0e, 0x0f, 0x10, 0x11, 0x12, 0x13, 0x17, 0x19, 0x1a, 0x1c, 0x1d, 0x40, 0x41}

func wdKeyOf(n int) []byte { return bytes.Repeat([]byte{'k'}, n) }

// wdBody lays out `avail` bytes after a header: extras (zero bytes), key ('k'), then filler.
func wdBody(keylen, extlen, avail int) []byte {
	b := make([]byte, avail)
	for i := range b {
		switch {
		case i < extlen:
			b[i] = 0
		case i < extlen+keylen:
			b[i] = 'k'
		default:
			b[i] = 'v'
		}
	}
	return b
}

func wdBinAbs(hdr []byte, hdrBytes, avail int, pos string) map[string]interface{} {
	c := map[string]interface{}{"op": 255, "magic": true, "keylen": 0, "extlen": 0, "thi": 0, "tlo": 0, "hdr": hdrBytes, "avail": avail, "pos": pos}
	if hdrBytes >= 1 {
		c["magic"] = hdr[0] == 0x80
	}
	if hdrBytes >= 24 {
		tot := binary.BigEndian.Uint32(hdr[8:12])
		c["op"], c["keylen"], c["extlen"] = int(hdr[1]), int(binary.BigEndian.Uint16(hdr[2:4])), int(hdr[4])
		c["thi"], c["tlo"] = int(tot>>16), int(tot&0xffff)
	}
	return c
}

// wdLocate finds the frame of a (possibly damaged) binary request stream that decides its fate:
// the first one that is not a complete, plain quiet get.
func wdLocate(data []byte) (prefix int, abs map[string]interface{}) {
	s := 0
	pos := "first"
	for {
		rest := len(data) - s
		if rest < 24 {
			return s, wdBinAbs(data[s:], rest, 0, pos)
		}
		h := data[s : s+24]
		kl, el, tot := int(binary.BigEndian.Uint16(h[2:4])), int(h[4]), binary.BigEndian.Uint32(h[8:12])
		quietGet := h[0] == 0x80 && (h[1] == 0x09 || h[1] == 0x41) && el == 0 && kl >= 1 && kl <= 250 && int(tot) == kl
		if quietGet && rest-24 >= kl && rest-24-kl > 0 {
			s += 24 + kl
			pos = "batch"
			continue
		}
		return s, wdBinAbs(h, 24, rest-24, pos)
	}
}

func wdPreloadFor(keylen int) []string {
	if keylen >= 1 && keylen <= 250 {
		return []string{string(wdKeyOf(keylen))}
	}
	return nil
}

type wdTextTpl struct {
	name  string
	data  func() []byte
	kind  string
	haslf bool
	valid bool
	store bool
	decl  uint64
	avail int
	trail string
}

func wdTextTemplates(thorough bool) []wdTextTpl {
	var out []wdTextTpl
	inv := func(name, kind, line string) {
		out = append(out, wdTextTpl{name: name, data: func() []byte { return []byte(line) }, kind: kind, haslf: strings.Contains(line, "\n"), trail: "ok"})
	}
	long := []int{1 << 20}
	if thorough {
		long = append(long, 1<<16+1<<12, 1<<22)
	}
	for _, n := range long {
		n := n
		out = append(out, wdTextTpl{name: fmt.Sprintf("longline-%d", n), kind: "longline", trail: "ok",
			data: func() []byte { return bytes.Repeat([]byte{'a'}, n) }})
		out = append(out, wdTextTpl{name: fmt.Sprintf("longline-%d-lf", n), kind: "longline", haslf: true, trail: "ok",
			data: func() []byte { return append(bytes.Repeat([]byte{'a'}, n), '\r', '\n') }})
		out = append(out, wdTextTpl{name: fmt.Sprintf("longkey-%d", n), kind: "longline", trail: "ok",
			data: func() []byte { return append([]byte("get "), bytes.Repeat([]byte{'a'}, n)...) }})
	}
	for _, d := range []uint64{4294967295, 2147483648, 1 << 30} {
		d := d
		for _, op := range []string{"set", "append"} {
			op := op
			out = append(out, wdTextTpl{name: fmt.Sprintf("hugedata-%s-%d", op, d), kind: "hugedata", haslf: true, valid: true, store: true, decl: d, avail: 3, trail: "short",
				data: func() []byte { return []byte(fmt.Sprintf("%s k 0 0 %d\r\nabc", op, d)) }})
		}
	}
	for i, l := range []string{"set k abc 0 1\r\nx\r\n", "set k 0 abc 1\r\nx\r\n", "set k 0 0 abc\r\nx\r\n", "set k 0 0 -1\r\nx\r\n",
		"set k -1 0 1\r\nx\r\n", "set k 0 -1 1\r\nx\r\n", "set k 4294967296 0 1\r\nx\r\n", "set k 0 4294967296 1\r\nx\r\n",
		"set k 0 0 4294967296\r\nx\r\n", "set k 0 0 99999999999999999999\r\nx\r\n", "add k 0 0 1x\r\nx\r\n", "append k 0 0 0x10\r\nx\r\n",
		"touch k abc\r\n", "touch k -1\r\n", "touch k 4294967296\r\n", "prepend k 0 0 1.5\r\nx\r\n", "replace k 0 0 +\r\nx\r\n"} {
		inv(fmt.Sprintf("badnum-%d", i), "badnum", l)
	}
	for i, l := range []string{"set k 0 0\r\n", "set k\r\n", "set\r\n", "get\r\n", "delete\r\n", "delete a b\r\n", "touch k\r\n", "touch\r\n",
		"noop x\r\n", "version x\r\n", "stats x\r\n", "quit x\r\n", "set k 0 0 1 2\r\nx\r\n"} {
		inv(fmt.Sprintf("arity-%d", i), "arity", l)
	}
	for i, l := range []string{"bogus\r\n", "GET k\r\n", "gets k\r\n", "incr k 1\r\n", "flush_all\r\n", "gat 0 k\r\n", "s\r\n", "sett k 0 0 1\r\nx\r\n",
		"g\x80\x81\xff\x00\r\n", "z\x00\x00\x00\r\n"} {
		inv(fmt.Sprintf("unknown-%d", i), "unknown", l)
	}
	for i, l := range []string{"\n", "\r\n", "\r\n\r\n", "\n\n\n\n"} {
		inv(fmt.Sprintf("empty-%d", i), "empty", l)
	}
	// a valid command followed by binary garbage
	for i, l := range []string{"get k\r\n\x80\x01\x00\x03\x08\x00\x00\x00\x00\x00\x00\x10", "version\r\n\x00\xff\x80\x80\x80", "noop\r\n\x80"} {
		l := l
		out = append(out, wdTextTpl{name: fmt.Sprintf("garbage-after-%d", i), kind: "garbage-after", haslf: true, valid: true, trail: "ok",
			data: func() []byte { return []byte(l) }})
	}
	out = append(out, wdTextTpl{name: "quit", kind: "quit", haslf: true, valid: true, trail: "ok", data: func() []byte { return []byte("quit\r\n") }})
	// data block not followed by CR LF
	out = append(out, wdTextTpl{name: "baddatachunk", kind: "baddatachunk", haslf: true, valid: true, store: true, decl: 3, avail: 9, trail: "bad",
		data: func() []byte { return []byte("set k 0 0 3\r\nabcdeXY\r\n") }})
	// every truncation of valid requests
	for bi, full := range []string{"set kkk 1 2 5\r\nhello\r\n", "get a b\r\n", "append kkk 0 0 2\r\n\r\n\r\n", "touch kkk 10\r\n"} {
		ll := strings.Index(full, "\r\n") + 2
		store := strings.HasPrefix(full, "set") || strings.HasPrefix(full, "append")
		dl := 0
		if store {
			dl = len(full) - ll - 2
		}
		for o := 0; o < len(full); o++ {
			o, full := o, full
			t := wdTextTpl{name: fmt.Sprintf("trunc-%d@%d", bi, o), kind: "trunc", trail: "ok", data: func() []byte { return []byte(full[:o]) }}
			if o >= ll {
				t.haslf, t.valid, t.store, t.decl, t.avail = true, true, store, uint64(dl), o-ll
				if store && o-ll < dl+2 {
					t.trail = "short"
				}
			} else if strings.Contains(full[:o], "\n") {
				continue
			}
			out = append(out, t)
		}
	}
	return out
}

// wdCases enumerates the malformed inputs of a tier; the list is a deterministic function of the
// tier and the seed (the parent process and its children compute it independently).
func wdCases(tier string, seed int64) []wdCase {
	thorough := tier == "thorough"
	rng := rand.New(rand.NewSource(seed))
	var cases []wdCase
	// ---- the header grid ----
	var opcodes []int
	if thorough {
		for o := 0; o <= 0x41; o++ {
			opcodes = append(opcodes, o)
		}
		opcodes = append(opcodes, 0xff)
	} else {
		opcodes = append(append([]int{}, wdKnownOpcodes...), 0x05, 0x14, 0x3f)
	}
	keylens := []int{0, 1, 3, 250, 65535}
	extlens := []int{0, 4, 8, 20, 255}
	if !thorough {
		keylens = []int{0, 3, 250}
		extlens = []int{0, 4, 8, 255}
	}
	grid := func(op, kl, el int, total uint32, avail int, batch bool, fam string, srvOpen bool) {
		id := fmt.Sprintf("%s/op%#02x/k%d/e%d/t%d/a%d", fam, op, kl, el, total, avail)
		cases = append(cases, wdCase{ID: id, Proto: "bin", Fam: fam, SrvOpen: srvOpen,
			Spec: func() string { return fmt.Sprintf("grid:%d:%d:%d:%d:%d:%v", op, kl, el, total, avail, batch) },
			Build: func() ([]byte, int, map[string]interface{}, []string) {
				data, prefix, preload := wdGridBytes(op, kl, el, total, avail, batch)
				pos := "first"
				if batch {
					pos = "batch"
				}
				return data, prefix, wdBinAbs(data[prefix:], 24, avail, pos), preload
			}})
	}
	totalsOf := func(ke int) []uint32 {
		ts := []uint32{0, uint32(ke), uint32(ke + 1), uint32(ke + 100), 1 << 31, 0xffffffff}
		if ke > 0 {
			ts = append(ts, uint32(ke-1))
		}
		sort.Slice(ts, func(i, j int) bool { return ts[i] < ts[j] })
		var out []uint32
		for _, t := range ts {
			if len(out) == 0 || out[len(out)-1] != t {
				out = append(out, t)
			}
		}
		return out
	}
	availsOf := func(ke int, total uint32) []int {
		av := []int{0, ke}
		more := ke + 40
		if total <= 70000 {
			av = append(av, int(total))
			if int(total) > ke {
				more = int(total) + 40
			}
		}
		av = append(av, more)
		sort.Ints(av)
		var out []int
		for _, a := range av {
			if len(out) == 0 || out[len(out)-1] != a {
				out = append(out, a)
			}
		}
		return out
	}
	nOpen := 0
	seenDanger := map[string]bool{}
	for _, op := range opcodes {
		for _, kl := range keylens {
			for _, el := range extlens {
				ke := kl + el
				for _, total := range totalsOf(ke) {
					for _, av := range availsOf(ke, total) {
						// inputs a careless decoder may answer with a huge allocation cost a process
						// each: the quick tier takes a tenth of them (every opcode x kind at least once)
						if danger := int64(total) < int64(ke) || total >= 1<<26; danger && !thorough {
							key := fmt.Sprint(op, int64(total) < int64(ke), av >= ke)
							if seenDanger[key] && rng.Intn(10) != 0 {
								continue
							}
							seenDanger[key] = true
						}
						// the server with the connection kept open: a sample (one deadline each)
						open := av == ke && ke > 0 && (total == 0 || total == uint32(ke)) && kl == 3 && (el == 0 || el == 8) && nOpen < 4000
						if open && !thorough && rng.Intn(6) != 0 {
							open = false
						}
						if open {
							nOpen++
						}
						grid(op, kl, el, total, av, false, "grid", open)
					}
				}
			}
		}
	}
	if !thorough {
		// one long key so that the 16-bit corner is exercised in the quick tier too
		for _, op := range []int{0x00, 0x01, 0x0e, 0x04} {
			for _, total := range []uint32{0, 65535, 65543, 65544} {
				grid(op, 65535, 8, total, 65543, false, "grid", false)
			}
		}
	}
	// the same grid for a frame that follows a quiet get (it is read inside the batch loop)
	for _, op := range []int{0x00, 0x09, 0x0a, 0x01, 0x04, 0x3f} {
		for _, kl := range []int{0, 3} {
			for _, el := range []int{0, 4, 8} {
				ke := kl + el
				for _, total := range totalsOf(ke) {
					if total >= 1<<31 && !thorough {
						continue
					}
					for _, av := range availsOf(ke, total) {
						grid(op, kl, el, total, av, true, "grid-batch", false)
					}
				}
			}
		}
	}
	// ---- mutations of valid requests ----
	key := []byte("kkk")
	bases := []struct {
		name string
		cmd  wire.Command
	}{
		{"set", wire.Command{Op: "set", Keys: [][]byte{key}, Data: []byte("hello"), Flags: 0x01020304, Exptime: 60, Opaque: 0x11223344}},
		{"batch", wire.Command{Op: "get", Keys: [][]byte{key, []byte("k2"), key}, Quiet: []bool{true, true, false}, Opaque: 5}},
		{"touch", wire.Command{Op: "touch", Keys: [][]byte{key}, Exptime: 60, Opaque: 9}},
		{"delete", wire.Command{Op: "delete", Keys: [][]byte{key}, Opaque: 9}},
		{"batchnoop", wire.Command{Op: "get", Keys: [][]byte{key, key}, Quiet: []bool{true, true}, NoopEnd: true, Opaque: 5}},
		{"appendq", wire.Command{Op: "append", Keys: [][]byte{key}, Data: []byte("xy"), Quiet: []bool{true}, Opaque: 3}},
		{"gat", wire.Command{Op: "gat", Keys: [][]byte{key}, Exptime: 1 << 31, Opaque: 0xffffffff}},
		{"get", wire.Command{Op: "get", Keys: [][]byte{key}, Quiet: []bool{false}, Opaque: 1}},
		{"noop", wire.Command{Op: "noop", Opaque: 1}},
		{"gete", wire.Command{Op: "gete", Keys: [][]byte{key, key}, Quiet: []bool{true, false}, Opaque: 1}},
		{"add", wire.Command{Op: "add", Keys: [][]byte{key}, Data: []byte{}, Opaque: 1}},
	}
	if !thorough {
		bases = bases[:4]
	}
	mut := func(id, fam string, f func() []byte) {
		cases = append(cases, wdCase{ID: id, Proto: "bin", Fam: fam,
			Spec: func() string { return "hex:" + hex.EncodeToString(f()) },
			Build: func() ([]byte, int, map[string]interface{}, []string) {
				data := f()
				prefix, abs := wdLocate(data)
				return data, prefix, abs, []string{"kkk", "k2"}
			}})
	}
	for _, b := range bases {
		b := b
		full := wire.EncodeBinary(b.cmd)
		for o := 0; o < len(full); o++ {
			o := o
			mut(fmt.Sprintf("trunc/%s@%d", b.name, o), "trunc", func() []byte { return append([]byte{}, full[:o]...) })
		}
		// the frames whose headers are damaged: the first, and the second of a batch
		starts := []int{0}
		if len(b.cmd.Keys) > 1 {
			starts = append(starts, 24+len(b.cmd.Keys[0]))
		}
		for _, s := range starts {
			s := s
			for bit := 0; bit < 24*8; bit++ {
				bit := bit
				if !thorough && bit >= 16*8 && bit%8 != 0 { // CAS bytes are ignored: one bit each in the quick tier
					continue
				}
				mut(fmt.Sprintf("bitflip/%s+%d/bit%d", b.name, s, bit), "bitflip", func() []byte {
					d := append([]byte{}, full...)
					d[s+bit/8] ^= 1 << uint(7-bit%8)
					return d
				})
			}
			kl, el, tot := int(binary.BigEndian.Uint16(full[s+2:s+4])), int(full[s+4]), binary.BigEndian.Uint32(full[s+8:s+12])
			edit := func(field string, v uint32) {
				mut(fmt.Sprintf("lenedit/%s+%d/%s=%d", b.name, s, field, v), "lenedit", func() []byte {
					d := append([]byte{}, full...)
					switch field {
					case "keylen":
						binary.BigEndian.PutUint16(d[s+2:s+4], uint16(v))
					case "extlen":
						d[s+4] = byte(v)
					case "total":
						binary.BigEndian.PutUint32(d[s+8:s+12], v)
					}
					return d
				})
			}
			for _, v := range []int{0, kl - 1, kl + 1, kl + 2, 251, 65535} {
				if v >= 0 && v != kl {
					edit("keylen", uint32(v))
				}
			}
			for _, v := range []int{0, el - 1, el + 1, 4, 8, 255} {
				if v >= 0 && v != el {
					edit("extlen", uint32(v))
				}
			}
			for _, v := range []int64{0, int64(tot) - 1, int64(tot) + 1, int64(kl+el) - 1, int64(kl), 1 << 31, 0xffffffff} {
				if v >= 0 && uint32(v) != tot {
					edit("total", uint32(v))
				}
			}
		}
	}
	// ---- text protocol ----
	for _, t := range wdTextTemplates(thorough) {
		t := t
		cases = append(cases, wdCase{ID: "text/" + t.name, Proto: "text", Fam: "text-" + t.kind, SrvOpen: (t.kind == "longline" || t.kind == "hugedata") && (thorough || t.name == "longline-1048576" || t.name == "hugedata-set-4294967295"),
			Spec: func() string { return "text:" + t.name },
			Build: func() ([]byte, int, map[string]interface{}, []string) {
				data := t.data()
				abs := map[string]interface{}{"kind": t.kind, "haslf": t.haslf, "valid": t.valid, "store": t.store,
					"dhi": int(t.decl >> 16), "dlo": int(t.decl & 0xffff), "avail": t.avail, "trailer": t.trail, "linekb": (len(data) + 1023) / 1024}
				return data, 0, abs, []string{"k", "kkk"}
			}})
	}
	return cases
}

// wdGridBytes builds the bytes of a grid case: an optional quiet get, the header, `avail` bytes.
func wdGridBytes(op, kl, el int, total uint32, avail int, batch bool) (data []byte, prefix int, preload []string) {
	if batch {
		data = wire.EncodeBinary(wire.Command{Op: "get", Keys: [][]byte{[]byte("q")}, Quiet: []bool{true}, Opaque: 7})[:25]
		prefix = len(data)
	}
	h := wire.BinHeader(byte(op), kl, el, total, 0x0a0b0c0d)
	data = append(append(data, h...), wdBody(kl, el, avail)...)
	return data, prefix, append(wdPreloadFor(kl), "q")
}

// wdBuildSpec rebuilds the input of a case from its specification string.
func wdBuildSpec(spec string) (data []byte, prefix int, preload []string) {
	switch {
	case strings.HasPrefix(spec, "grid:"):
		f := strings.Split(spec, ":")
		n := func(i int) int { x, err := strconv.ParseInt(f[i], 10, 64); must(err); return int(x) }
		return wdGridBytes(n(1), n(2), n(3), uint32(n(4)), n(5), f[6] == "true")
	case strings.HasPrefix(spec, "hex:"):
		data, err := hex.DecodeString(spec[4:])
		must(err)
		prefix, _ = wdLocate(data)
		return data, prefix, []string{"kkk", "k2"}
	case strings.HasPrefix(spec, "text:"):
		for _, t := range wdTextTemplates(true) {
			if t.name == spec[5:] {
				return t.data(), 0, []string{"k", "kkk"}
			}
		}
	}
	must(fmt.Errorf("bad case specification %q", spec))
	return
}

// ---- execution of one case ----

type wdBlockReader struct {
	data    []byte
	pos     int
	eof     bool
	waiting chan struct{}
	release chan struct{}
	once    sync.Once
}

func (b *wdBlockReader) Read(p []byte) (int, error) {
	if b.pos < len(b.data) {
		n := copy(p, b.data[b.pos:])
		b.pos += n
		return n, nil
	}
	if !b.eof {
		// the client keeps the connection open and sends nothing: the parser is now waiting
		b.once.Do(func() { close(b.waiting) })
		<-b.release
	}
	return 0, io.EOF
}

func wdTotalAlloc() uint64 {
	var m runtime.MemStats
	runtime.ReadMemStats(&m)
	return m.TotalAlloc
}

type wdParseResult struct {
	typ    common.RequestType
	err    error
	panic  string
	second bool
}

// wdParserRun gives the bytes to a fresh real parser and calls Parse once. When the malformed frame
// follows `prefixKeys` quiet gets and the first call returns exactly those gets (the frame was left
// out of the batch), the fate of the frame is what the next call does.
func wdParserRun(proto string, data []byte, eof bool, prefixKeys int) (class, note string, read int, allocKB int, ms int) {
	br := &wdBlockReader{data: data, eof: eof, waiting: make(chan struct{}), release: make(chan struct{})}
	rd := bufio.NewReader(br)
	done := make(chan wdParseResult, 1)
	a0 := wdTotalAlloc()
	t0 := time.Now()
	go func() {
		var r wdParseResult
		defer func() {
			if p := recover(); p != nil {
				r.panic = fmt.Sprint(p)
			}
			done <- r
		}()
		if proto == "bin" {
			ps := binprot.NewBinaryParser(rd)
			var req common.Request
			req, r.typ, _, r.err = ps.Parse()
			if g, ok := req.(common.GetRequest); ok && r.err == nil && prefixKeys > 0 && len(g.Keys) == prefixKeys && !g.NoopEnd {
				r.second = true
				_, r.typ, _, r.err = ps.Parse()
			}
		} else {
			_, r.typ, _, r.err = textprot.NewTextParser(rd).Parse()
		}
	}()
	classify := func(r wdParseResult) {
		switch {
		case r.panic != "":
			class, note = "closed", "panic: "+r.panic // the server loop recovers and closes
		case r.err == nil && r.typ == common.RequestUnknown:
			class, note = "error", "unknown command"
		case r.err == nil:
			class, note = "decoded", wdTypeName[r.typ]
		case r.err == common.ErrBadRequest || r.err == common.ErrBadLength || r.err == common.ErrBadFlags || r.err == common.ErrBadExptime:
			class, note = "error", r.err.Error() // server/default.go answers these and carries on
		default:
			class, note = "closed", r.err.Error()
		}
		if r.second {
			note += " (second Parse: the first returned the quiet gets alone)"
		}
	}
	timer := time.NewTimer(90 * time.Second)
	defer timer.Stop()
	select {
	case r := <-done:
		classify(r)
	case <-br.waiting:
		class, note = "hang", "waiting for more bytes"
	case <-timer.C:
		class, note = "spin", "no result and not waiting for input after 90 s"
	}
	ms = int(time.Since(t0) / time.Millisecond)
	a1 := wdTotalAlloc()
	read = br.pos - rd.Buffered()
	allocKB = int((a1 - a0 + 1023) / 1024)
	if class == "hang" {
		close(br.release)
		<-done
	}
	return
}

// wdDial connects to the server; the socket file exists a moment before the listener listens.
func wdDial(st *stack.Stack) (net.Conn, error) {
	var conn net.Conn
	var err error
	for try := 0; try < 200; try++ {
		conn, err = net.Dial("unix", st.Socks["l1only"])
		if err == nil {
			return conn, nil
		}
		time.Sleep(5 * time.Millisecond)
	}
	return nil, err
}

func wdAlive(st *stack.Stack) bool {
	conn, err := wdDial(st)
	if err != nil {
		return false
	}
	defer conn.Close()
	conn.SetDeadline(time.Now().Add(5 * time.Second))
	if _, err := conn.Write(wire.EncodeBinary(wire.Command{Op: "version", Opaque: 0x5a5a5a5a})); err != nil {
		return false
	}
	h := make([]byte, 24)
	if _, err := io.ReadFull(conn, h); err != nil {
		return false
	}
	return h[0] == 0x81 && binary.BigEndian.Uint32(h[12:16]) == 0x5a5a5a5a
}

// wdServerRun sends the bytes to the real server on a fresh connection. With eof the client
// half-closes and waits (long) for the server to finish; without, it waits `deadline` for a sign.
func wdServerRun(st *stack.Stack, data []byte, eof bool, deadline time.Duration, preload []string, useBackend bool) (class, note string, ms int, alive bool, backend int) {
	for _, k := range preload {
		st.L1.Put(k, fakemc.Entry{Data: []byte("old")})
	}
	if eof {
		deadline = 120 * time.Second
	} else {
		// on a busy machine "nothing within the deadline" must still mean something: the deadline
		// is at least 50 round trips of a trivial request
		r0 := time.Now()
		wdAlive(st)
		if d := 50 * time.Since(r0); d > deadline {
			deadline = d
		}
	}
	st.L1.Arm()
	t0 := time.Now()
	conn, err := wdDial(st)
	if err != nil {
		return "crash", "dial: " + err.Error(), 0, false, 0
	}
	wdone := make(chan struct{})
	go func() {
		defer close(wdone)
		conn.SetWriteDeadline(time.Now().Add(deadline + 5*time.Second))
		conn.Write(data)
		if eof {
			conn.(*net.UnixConn).CloseWrite()
		}
	}()
	var reply []byte
	sawEOF := false
	buf := make([]byte, 4096)
	conn.SetReadDeadline(time.Now().Add(deadline))
	for len(reply) < 1<<16 {
		n, rerr := conn.Read(buf)
		reply = append(reply, buf[:n]...)
		if rerr != nil {
			// end of stream, or a reset because the server closed with our bytes unread: closed
			ne, isNet := rerr.(net.Error)
			sawEOF = !(isNet && ne.Timeout())
			break
		}
		if !eof {
			conn.SetReadDeadline(time.Now().Add(30 * time.Millisecond)) // something came: collect the rest briefly
		}
	}
	ms = int(time.Since(t0) / time.Millisecond)
	backend = st.L1.Requests()
	switch {
	case len(reply) == 0 && sawEOF:
		class = "closed"
	case len(reply) == 0:
		class = "hang"
	case reply[0] == 0x81:
		status := -1
		if len(reply) >= 8 {
			status = int(binary.BigEndian.Uint16(reply[6:8]))
		}
		note = fmt.Sprintf("binary reply opcode %#02x status %#x", reply[wdMin(1, len(reply)-1)], status)
		switch status {
		case 0, 1, 2, 5:
			class = "decoded" // the result of executing the request
		default:
			class = "error"
		}
	default:
		line := string(reply)
		if i := strings.IndexByte(line, '\n'); i >= 0 {
			line = line[:i]
		}
		line = strings.TrimSpace(line)
		note = "text reply " + strconv.Quote(line[:wdMin(len(line), 48)])
		if strings.HasPrefix(line, "ERROR") || strings.HasPrefix(line, "CLIENT_ERROR") || strings.HasPrefix(line, "SERVER_ERROR") {
			class = "error"
		} else {
			class = "decoded"
		}
	}
	if (class == "closed" || class == "hang") && backend > 0 && useBackend {
		class = "decoded" // executed without a reply (quiet command)
		note = "no reply, but the backend received a request"
	}
	alive = wdAlive(st)
	conn.Close()
	<-wdone
	return
}

const wdTaint = 48 << 20 // after an allocation of this size the process is replaced

func wdDeadline(tier string) time.Duration {
	if strings.HasPrefix(tier, "thorough") {
		return 2 * time.Second
	}
	return 1 * time.Second
}

func wdVmSizeKB() int64 {
	b, _ := os.ReadFile("/proc/self/status")
	for _, l := range strings.Split(string(b), "\n") {
		if strings.HasPrefix(l, "VmSize:") {
			f := strings.Fields(l)
			if len(f) >= 2 {
				x, _ := strconv.ParseInt(f[1], 10, 64)
				return x
			}
		}
	}
	return 0
}

// wdDeclared is the size the input consistently declares (0 if none): a decoder may allocate that
// much, and on this machine touching memory is slow, so when it is large the address space is
// capped tightly for the step and the allocation fails at once (class "capped", judged by size).
func wdDeclared(proto string, data []byte, prefix int) uint64 {
	if proto == "text" {
		i := bytes.IndexByte(data, '\n')
		if i < 0 {
			return 0
		}
		f := strings.Fields(string(data[:i]))
		if len(f) == 5 {
			if n, err := strconv.ParseUint(f[4], 10, 32); err == nil {
				return n
			}
		}
		return 0
	}
	d := data[prefix:]
	if len(d) < 24 || d[0] != 0x80 {
		return 0
	}
	tot := uint64(binary.BigEndian.Uint32(d[8:12]))
	if tot < uint64(binary.BigEndian.Uint16(d[2:4]))+uint64(d[4]) {
		return 0
	}
	return tot
}

type wdJob struct {
	ID      string `json:"id"`
	Proto   string `json:"proto"`
	Spec    string `json:"spec"`
	SrvOpen bool   `json:"srvopen"`
}

const wdCapMargin = 512 << 20
const wdTightMargin = 24 << 20

// wdC11Worker executes the jobs of a file from a start position. The address space of the process
// may grow by wdCapMargin only: a runaway allocation kills the process at once instead of taking
// (and, worse, touching) gigabytes; the Go runtime reports the size that was asked for and the
// parent records it. The process also leaves (status 3) after a variant that allocated a large
// block, so that the block is never reused.
func wdC11Worker(a Args) {
	runtime.GOMAXPROCS(4)
	limit := uint64(wdVmSizeKB())*1024 + wdCapMargin
	lim := syscall.Rlimit{Cur: limit, Max: limit}
	syscall.Setrlimit(syscall.RLIMIT_AS, &lim)
	setCap := func(tight bool) uint64 {
		l := syscall.Rlimit{Cur: limit, Max: limit}
		if tight {
			l.Cur = uint64(wdVmSizeKB())*1024 + wdTightMargin
			if l.Cur > limit {
				l.Cur = limit
			}
		}
		syscall.Setrlimit(syscall.RLIMIT_AS, &l)
		return l.Cur
	}
	rec, err := NewRec(a.Out)
	must(err)
	defer rec.Close()
	raw, err := os.ReadFile(a.In)
	must(err)
	var jobs []wdJob
	for _, line := range bytes.Split(raw, []byte("\n")) {
		if len(line) > 0 {
			var j wdJob
			must(json.Unmarshal(line, &j))
			jobs = append(jobs, j)
		}
	}
	var st *stack.Stack
	server := func() *stack.Stack {
		if st == nil {
			st, err = stack.Build(stack.Config{Orca: "l1only", Lock: "none", L1: "std"}, a.Dir, nil)
			must(err)
		}
		return st
	}
	deadline := wdDeadline(a.Sizes)
	dead := map[int]bool{}
	if raw, err := os.ReadFile(a.In + ".dead"); err == nil {
		for _, f := range strings.Fields(string(raw)) {
			x, _ := strconv.Atoi(f)
			dead[x] = true
		}
	}
	steps := wdSteps(jobs)
	cur := -1
	var data []byte
	var prefix, prefixKeys int
	var preload, prefixKeyList []string
	for k := a.N; k < len(steps); k++ {
		i, v := steps[k][0], steps[k][1]
		if dead[i] {
			continue
		}
		j := jobs[i]
		if i != cur {
			data, prefix, preload = wdBuildSpec(j.Spec)
			prefixKeys = 0
			for s := 0; s+24 <= prefix; s += 24 + int(binary.BigEndian.Uint16(data[s+2:s+4])) {
				prefixKeys++
			}
			prefixKeyList = nil
			for s := 0; s+24 <= prefix; {
				kl := int(binary.BigEndian.Uint16(data[s+2 : s+4]))
				prefixKeyList = append(prefixKeyList, string(data[s+24:s+24+kl]))
				s += 24 + kl
			}
			if prefix > 0 {
				preload = nil // a quiet miss is silent: any reply then comes from the frame under test
			}
			cur = i
		}
		tight := wdDeclared(j.Proto, data, prefix) >= 32<<20 // more than the tight room: a death there is within the bound
		if tight && st == nil && v >= 2 {
			server() // the server's own start-up needs room
		}
		now := setCap(tight)
		rec.Emit(map[string]interface{}{"ev": "begin", "k": k, "i": i, "v": v, "limit_mb": int(now >> 20), "room_kb": int((now - uint64(wdVmSizeKB())*1024) >> 10)})
		eof := v == 0 || v == 2
		ev := map[string]interface{}{"ev": "res", "k": k, "i": i, "v": v}
		before := wdTotalAlloc()
		if v < 2 {
			class, note, read, allocKB, ms := wdParserRun(j.Proto, data, eof, prefixKeys)
			if read >= prefix {
				read -= prefix
			}
			ev["class"], ev["note"], ev["read"], ev["allockb"], ev["ms"], ev["alive"], ev["backend"] = class, note, read, allocKB, ms, true, 0
		} else {
			server().L1.Drop(prefixKeyList...)
			class, note, ms, alive, backend := wdServerRun(server(), data, eof, deadline, preload, prefix == 0)
			ev["class"], ev["note"], ev["read"], ev["allockb"], ev["ms"], ev["alive"], ev["backend"] = class, note, -1, -1, ms, alive, backend
		}
		rec.Emit(ev)
		if wdTotalAlloc()-before >= wdTaint || ev["class"] == "spin" {
			rec.Emit(map[string]interface{}{"ev": "taint", "k": k})
			rec.Close()
			os.Exit(3)
		}
	}
	// nothing is in flight any more: the process must be idle
	if st != nil {
		var r0, r1 syscall.Rusage
		time.Sleep(50 * time.Millisecond)
		syscall.Getrusage(syscall.RUSAGE_SELF, &r0)
		t0 := time.Now()
		time.Sleep(300 * time.Millisecond)
		syscall.Getrusage(syscall.RUSAGE_SELF, &r1)
		cpu := (r1.Utime.Nano() + r1.Stime.Nano() - r0.Utime.Nano() - r0.Stime.Nano()) / 1e6
		rec.Emit(map[string]interface{}{"ev": "idle", "cpu_ms": int(cpu), "wall_ms": int(time.Since(t0) / time.Millisecond),
			"goroutines": runtime.NumGoroutine(), "alive": wdAlive(st)})
	}
}

var wdLevels = []string{"parser", "parser", "server", "server"}

// wdSteps orders the work of a process: first every parser-level variant (nothing else runs in
// the process then, so the allocation counter is the parser's own), then the server-level ones.
// Variants: 0 parser + EOF, 1 parser + open connection, 2 server + EOF, 3 server + open connection.
func wdSteps(jobs []wdJob) [][2]int {
	var st [][2]int
	for i := range jobs {
		st = append(st, [2]int{i, 0}, [2]int{i, 1})
	}
	for i, j := range jobs {
		st = append(st, [2]int{i, 2})
		if j.SrvOpen {
			st = append(st, [2]int{i, 3})
		}
	}
	return st
}

func wdMalEvent(c wdCase, abs map[string]interface{}, v int) map[string]interface{} {
	cp := map[string]interface{}{"eof": v == 0 || v == 2}
	for k, x := range abs {
		cp[k] = x
	}
	ev := map[string]interface{}{"ev": "mal", "proto": c.Proto, "fam": c.Fam, "level": wdLevels[v], "id": c.ID}
	if c.Proto == "bin" {
		ev["c"] = cp
	} else {
		ev["t"] = cp
	}
	return ev
}

type wdPlanned struct {
	c   wdCase
	abs map[string]interface{}
}

// wdRunJobs executes the jobs in child processes (restarting them where they leave off) and
// returns the events.
func wdRunJobs(a Args, self, tag, sizes string, jobs []wdPlanned, stats map[string]int, mu *sync.Mutex) ([][]byte, error) {
	var out [][]byte
	if len(jobs) == 0 {
		return nil, nil
	}
	jobFile := filepath.Join(a.Dir, "jobs-"+tag+".ndjson")
	var jb bytes.Buffer
	for _, p := range jobs {
		b, _ := json.Marshal(wdJob{ID: p.c.ID, Proto: p.c.Proto, Spec: p.c.Spec(), SrvOpen: p.c.SrvOpen})
		jb.Write(b)
		jb.WriteByte('\n')
	}
	if err := os.WriteFile(jobFile, jb.Bytes(), 0o644); err != nil {
		return nil, err
	}
	defer os.Remove(jobFile)
	count := func(k string) {
		mu.Lock()
		stats[k]++
		mu.Unlock()
	}
	var wjobs []wdJob
	for _, p := range jobs {
		wjobs = append(wjobs, wdJob{SrvOpen: p.c.SrvOpen})
	}
	nsteps := len(wdSteps(wjobs))
	var dead []string
	defer os.Remove(jobFile + ".dead")
	k := 0
	for round := 0; k < nsteps; round++ {
		part := filepath.Join(a.Dir, fmt.Sprintf("part-%s-%d.ndjson", tag, round))
		dir := filepath.Join(a.Dir, fmt.Sprintf("w%s-%d", tag, round))
		os.MkdirAll(dir, 0o755)
		os.WriteFile(jobFile+".dead", []byte(strings.Join(dead, " ")), 0o644)
		ctx, cancel := context.WithTimeout(context.Background(), 900*time.Second)
		cmd := exec.CommandContext(ctx, self, "wire", "-mode", "c11-worker", "-sizes", sizes, "-in", jobFile,
			"-n", fmt.Sprint(k), "-out", part, "-dir", dir)
		var stderr bytes.Buffer
		cmd.Stderr = &stderr
		runErr := cmd.Run()
		cancel()
		code := 0
		if runErr != nil {
			code = -1
			if ee, ok := runErr.(*exec.ExitError); ok {
				code = ee.ExitCode()
			}
		}
		count("processes")
		raw, _ := os.ReadFile(part)
		os.Remove(part)
		os.RemoveAll(dir)
		pk, pi, pv, pending, limitMB, roomKB := -1, -1, -1, false, 0, 0
		for _, line := range bytes.Split(raw, []byte("\n")) {
			if len(line) == 0 {
				continue
			}
			var e map[string]interface{}
			if json.Unmarshal(line, &e) != nil {
				continue // a line cut short by the death of the child
			}
			num := func(k string) int { f, _ := e[k].(float64); return int(f) }
			switch e["ev"] {
			case "begin":
				pk, pi, pv, pending, limitMB, roomKB = num("k"), num("i"), num("v"), true, num("limit_mb"), num("room_kb")
			case "taint":
				count("replaced_after_large_allocation")
			case "res":
				pending = false
				p := jobs[num("i")]
				ev := wdMalEvent(p.c, p.abs, num("v"))
				for _, f := range []string{"class", "note", "alive"} {
					ev[f] = e[f]
				}
				for _, f := range []string{"read", "allockb", "ms", "backend"} {
					ev[f] = num(f)
				}
				b, _ := json.Marshal(ev)
				out = append(out, b)
			case "idle":
				out = append(out, append([]byte{}, line...))
			}
		}
		if code == 0 {
			break
		}
		if pk < 0 {
			return out, fmt.Errorf("worker %s made no progress (exit %d): %s", tag, code, wdTail(stderr.String(), 1500))
		}
		if pending {
			// the child died inside this variant: that is the observation
			p := jobs[pi]
			ev := wdMalEvent(p.c, p.abs, pv)
			ev["class"], ev["read"], ev["allockb"], ev["ms"], ev["alive"], ev["backend"] = "crash", -1, -1, 0, false, 0
			es := stderr.String()
			first := es
			if x := strings.Index(es, "\n\n"); x > 0 {
				first = es[:x]
			}
			ev["note"] = fmt.Sprintf("the process died (exit %d, address space limited to %d MiB): %s", code, limitMB, strings.ReplaceAll(wdTail(first, 400), "\n", " | "))
			// the cap did this; what counts is the size that was asked for:
			// "runtime: out of memory: cannot allocate N-byte block" gives it, otherwise it was at
			// least the room the process had left
			if strings.Contains(es, "out of memory") {
				kb := roomKB
				if x := strings.Index(es, "cannot allocate "); x >= 0 {
					var nbytes uint64
					fmt.Sscanf(es[x+len("cannot allocate "):], "%d-byte", &nbytes)
					if nbytes > 0 {
						kb = int((nbytes + 1023) / 1024)
					}
				}
				ev["class"], ev["alive"], ev["allockb"] = "capped", true, kb
				count("allocations_stopped_by_cap")
			}
			b, _ := json.Marshal(ev)
			out = append(out, b)
			count("deaths")
			// the other variants of this input would die the same way
			dead = append(dead, fmt.Sprint(pi))
		}
		k = pk + 1
	}
	return out, nil
}

// wdC11 plans the cases, runs them in child processes and merges the events into one trace.
func wdC11(a Args, tier string) {
	cases := wdCases(tier, a.Seed)
	self, err := os.Executable()
	must(err)
	W := wdMin(wdMax(1, a.Workers), 8)
	lanes := make([][]wdPlanned, W)
	for n, c := range cases {
		_, _, abs, _ := c.Build()
		lanes[n%W] = append(lanes[n%W], wdPlanned{c: c, abs: abs})
	}
	stats := map[string]int{}
	var mu sync.Mutex
	results := make([][][]byte, W)
	var wg sync.WaitGroup
	var fatal error
	for w := 0; w < W; w++ {
		wg.Add(1)
		go func(w int) {
			defer wg.Done()
			ev, err := wdRunJobs(a, self, fmt.Sprintf("c%d", w), tier, lanes[w], stats, &mu)
			results[w] = ev
			if err != nil {
				mu.Lock()
				if fatal == nil {
					fatal = err
				}
				mu.Unlock()
			}
		}(w)
	}
	wg.Wait()
	if fatal != nil {
		must(fatal)
	}
	out, err := os.Create(a.Out)
	must(err)
	bw := bufio.NewWriterSize(out, 1<<20)
	nev := 0
	for _, part := range results {
		for _, line := range part {
			bw.Write(line)
			bw.WriteByte('\n')
			nev++
		}
	}
	sum := map[string]interface{}{"ev": "summary", "cases": len(cases), "events": nev, "workers": W}
	for k, x := range stats {
		sum[k] = x
	}
	b, _ := json.Marshal(sum)
	bw.Write(b)
	bw.WriteByte('\n')
	must(bw.Flush())
	must(out.Close())
}

func wdTail(s string, n int) string {
	if len(s) > n {
		return s[len(s)-n:]
	}
	return s
}
