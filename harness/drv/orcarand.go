package drv

import (
	"fmt"
	"math/rand"
	"sort"

	"verif/harness/absx"
	"verif/harness/stack"
	"verif/harness/wire"
)

// tierJSON renders a projected tier as the array of records the trace specification reads.
func tierJSON(m stack.MMap) []interface{} {
	ks := make([]string, 0, len(m))
	for k := range m {
		ks = append(ks, k)
	}
	sort.Strings(ks)
	out := []interface{}{}
	for _, k := range ks {
		e := m[k]
		v := e.V
		if v == nil {
			v = []int{}
		}
		out = append(out, map[string]interface{}{"k": k, "v": v, "f": e.F, "e": e.E})
	}
	return out
}

type session struct {
	st   *stack.Stack
	w    *absx.World
	cl   map[string]*wire.Client
	text bool
	opq  uint32
	keys []string
	// shared: the backends also hold entries of other sessions
	shared bool
}

func (s *session) client(port string) *wire.Client {
	if c := s.cl[port]; c != nil {
		return c
	}
	c, err := wire.Dial(s.st.Socks[port], s.text)
	must(err)
	s.cl[port] = c
	return c
}

func (s *session) closeAll() {
	for p, c := range s.cl {
		c.Close()
		delete(s.cl, p)
	}
}

// do executes a model command on a port and returns the model-level reply and the raw outcome.
func (s *session) do(port string, c MCmd) ([]interface{}, wire.Outcome) {
	s.opq += 16
	cl := s.client(port)
	out := cl.Do(Concretise(s.w, c, s.opq))
	if out.Closed || out.Class == "timeout" || out.Class == "malformed" {
		cl.Close()
		delete(s.cl, port)
	}
	return Abstract(s.w, c, out), out
}

func (s *session) tiers() (interface{}, interface{}) {
	l1, l2 := s.st.Project(s.w, s.keys)
	if s.shared {
		// other connections keep their own keys in the same backends
		for _, m := range []stack.MMap{l1, l2} {
			for k := range m {
				if len(k) > 0 && k[0] == '?' {
					delete(m, k)
				}
			}
		}
	}
	return tierJSON(l1), tierJSON(l2)
}

func xJSON(c MCmd) map[string]interface{} {
	v := c.V
	if v == nil {
		v = []int{}
	}
	if len(c.Keys) > 0 {
		q := c.Quiet
		if q == nil {
			q = make([]bool, len(c.Keys))
		}
		return map[string]interface{}{"op": "mget", "ks": c.Keys, "qs": q, "noopend": c.NoopEnd}
	}
	return map[string]interface{}{"op": c.Op, "k": c.K, "v": v, "f": c.F, "t": c.T}
}

// OrcaRand records random sequential histories (commands on every port, evictions, clock ticks).
func OrcaRand(a Args) {
	rec, err := NewRec(a.Out)
	must(err)
	defer rec.Close()
	st, err := stack.Build(a.Cfg, a.Dir, nil)
	must(err)
	rng := rand.New(rand.NewSource(a.Seed))
	text := a.Proto == "text"
	canTick := a.Cfg.L1 != "chunked" && a.Cfg.L1 != "inmem"
	allKeys := []string{"k1", "k2", "k3", "k4"}
	ports := a.Cfg.Ports()
	for tr := 0; tr < a.N; tr++ {
		w := absx.NewWorld(a.Seed*100000+int64(tr), nil, text)
		w.KeyLen = a.KeyLen
		if a.KeyLen < 0 {
			w.KeyLen = []int{1, 2, 5, 20, 100, 249, 250}[rng.Intn(7)]
		}
		nk := 1 + rng.Intn(3)
		keys := allKeys[:nk]
		kl := 0
		for _, k := range keys {
			if n := len(w.Key(k)); n > kl {
				kl = n
			}
		}
		sz := sizesFor(a.Sizes, kl)
		if a.Sizes == "chunk" && tr%3 == 1 {
			// items of many chunks (beyond 64 and 128 of them): per-chunk work done in groups shows here
			p := sz[2]
			sz = []int{65*p + 1, 1, p, 130 * p}
		}
		w = reworld(w, sz)
		s := &session{st: st, w: w, cl: map[string]*wire.Client{}, text: text, keys: keys}
		// the in-memory backend is a process-wide singleton that cannot be emptied: fresh keys per trace
		must(st.Load(w, stack.MMap{}, stack.MMap{}, 0, keys))
		now := 0
		rec.Emit(map[string]interface{}{"ev": "reset", "cfg": a.Cfg.String(), "proto": a.Proto, "twotier": a.Cfg.Orca != "l1only",
			"trace": tr, "seed": a.Seed, "sizes": a.Sizes})
		nextBlock := 1
		ttl := func() int {
			switch rng.Intn(12) {
			case 0, 1, 2, 3:
				return 0
			case 4:
				return 1
			case 5:
				return 2 + rng.Intn(3)
			case 6:
				return absx.RelMax
			case 7:
				return absx.RelMax + 1
			case 8:
				return absx.AbsBase + now + 1
			case 9:
				if rng.Intn(2) == 0 {
					return absx.AbsBase + 3000 + rng.Intn(3) // an absolute time more than 30 days ahead
				}
				return absx.AbsBase + now + 2 + rng.Intn(2)
			case 10:
				return absx.AbsBase + now // absolute time that is already reached
			default:
				return absx.AbsBase - 1
			}
		}
		for i := 0; i < a.Len; i++ {
			r := rng.Intn(100)
			switch {
			case r < 8 && a.Cfg.Orca != "l1only":
				var ev []string
				for _, k := range keys {
					if rng.Intn(2) == 0 {
						ev = append(ev, k)
						st.EvictL1(w, k)
					}
				}
				if ev == nil {
					ev = []string{}
				}
				l1, l2 := s.tiers()
				rec.Emit(map[string]interface{}{"ev": "evict", "keys": ev, "l1": l1, "l2": l2})
			case r < 12 && canTick && now < 6:
				st.Clock.Advance(absx.Unit)
				now++
				l1, l2 := s.tiers()
				rec.Emit(map[string]interface{}{"ev": "tick", "l1": l1, "l2": l2})
			default:
				port := ports[rng.Intn(len(ports))]
				k := keys[rng.Intn(len(keys))]
				var c MCmd
				switch op := rng.Intn(13); op {
				case 0, 1:
					c = MCmd{Op: "set", K: k, V: []int{nextBlock}, F: rng.Intn(8), T: ttl()}
					nextBlock++
				case 2:
					c = MCmd{Op: "add", K: k, V: []int{nextBlock}, F: rng.Intn(8), T: ttl()}
					nextBlock++
				case 3:
					c = MCmd{Op: "replace", K: k, V: []int{nextBlock}, F: rng.Intn(8), T: ttl()}
					nextBlock++
				case 4:
					c = MCmd{Op: "append", K: k, V: []int{nextBlock}}
					nextBlock++
				case 5:
					c = MCmd{Op: "prepend", K: k, V: []int{nextBlock}}
					nextBlock++
				case 6:
					c = MCmd{Op: "delete", K: k}
				case 7:
					c = MCmd{Op: "touch", K: k, T: ttl()}
				case 8:
					if text {
						c = MCmd{Op: "get", K: k}
					} else {
						c = MCmd{Op: "gat", K: k, T: ttl()}
					}
				case 9, 10:
					c = MCmd{Op: "get", K: k}
				case 11:
					c = MCmd{Op: "set", K: k, V: []int{}, F: rng.Intn(8), T: ttl()} // empty value
				default:
					n := 1 + rng.Intn(3)
					c = MCmd{Op: "get"}
					for j := 0; j < n; j++ {
						c.Keys = append(c.Keys, keys[rng.Intn(len(keys))])
						c.Quiet = append(c.Quiet, !text && rng.Intn(2) == 0)
					}
					if !text {
						c.NoopEnd = rng.Intn(2) == 0
						if !c.NoopEnd {
							c.Quiet[n-1] = false
						}
					}
				}
				if nextBlock > 200 {
					nextBlock = 1
				}
				res, out := s.do(port, c)
				l1, l2 := s.tiers()
				ev := map[string]interface{}{"ev": "op", "port": port, "x": xJSON(c), "res": res, "l1": l1, "l2": l2}
				if len(out.Anomalies) > 0 {
					ev["anomalies"] = out.Anomalies
				}
				if out.Status != "" {
					ev["status"] = out.Status
				}
				rec.Emit(ev)
			}
		}
		s.closeAll()
		st.Clock.SetSkew(0)
	}
	fmt.Printf("{\"events\": %d, \"traces\": %d}\n", rec.N, a.N)
}
