package drv

import "verif/harness/stack"

// Args are the common command line arguments of all drivers.
type Args struct {
	Cfg     stack.Config
	Proto   string
	Sizes   string
	Seed    int64
	Workers int
	In, Out string
	Dir     string
	N, Len  int
	KeyLen  int
	Mode    string
	Dribble int64
}

// Drivers maps driver names to entry points.
var Drivers = map[string]func(Args){
	"orca-rand": OrcaRand,
	"orca-walk": func(a Args) {
		OrcaWalk(WalkOpts{Cfg: a.Cfg, Proto: a.Proto, Sizes: a.Sizes, Seed: a.Seed, Workers: a.Workers, Dir: a.Dir, KeyLen: a.KeyLen}, a.In, a.Out)
	},
}
