package drv

import (
	"encoding/json"
	"fmt"
	"os"
	"os/exec"
	"path/filepath"
	"strings"
	"sync"
	"time"

	"github.com/netflix/rend/common"
	"github.com/netflix/rend/handlers/memcached/batched"

	"verif/harness/fakemc"
)

func init() {
	Drivers["pool-replay"] = PoolReplay
	Drivers["pool-replay-child"] = poolReplayChild
}

// PoolReplay replays, on the real connection pool, the counterexample TLC finds for NoCrash in
// spec/Batched.tla (one caller is enough on the real code, its own retry plays the second caller):
//
//	Submit, BRecv, BForm, BHandoff        the batch is handed to the reader ...
//	Cut                                   ... the connection is cut before the batcher has written it
//	REof, VNotify, VReconnect, VSignal    the recovery goroutine reconnects and releases the reader
//	BWrite                                the batcher now writes the OLD batch onto the NEW connection
//	BackendStep                           the backend answers it
//	BRecv, BForm, BHandoff, RRead         the reader, holding the NEXT batch, meets an opaque it does not know
//
// The hooks of the verif build (batched.VerifEvent) hold the batcher between hand-off and write.
// The scenario runs in a child process; the parent reports how it ended.
func PoolReplay(a Args) {
	exe, err := os.Executable()
	must(err)
	cmd := exec.Command(exe, "pool-replay-child", "-dir", a.Dir, "-seed", fmt.Sprint(a.Seed))
	out, err := cmd.CombinedOutput()
	exit := 0
	if err != nil {
		exit = 1
		if ee, ok := err.(*exec.ExitError); ok {
			exit = ee.ExitCode()
		}
	}
	s := string(out)
	res := map[string]interface{}{"exit": exit, "panic_out_of_sync": strings.Contains(s, "Batch out of sync")}
	var steps []string
	for _, ln := range strings.Split(s, "\n") {
		if strings.HasPrefix(ln, "STEP ") {
			steps = append(steps, ln[5:])
		}
	}
	res["steps"] = steps
	if len(s) > 1500 {
		s = s[len(s)-1500:]
	}
	res["tail"] = s
	b, _ := json.Marshal(res)
	if a.Out != "" {
		must(os.WriteFile(a.Out, b, 0o644))
	}
	fmt.Println(string(b))
}

func poolReplayChild(a Args) {
	clock := &fakemc.Clock{}
	st := fakemc.New("pool", clock)
	sock := filepath.Join(a.Dir, "pr.sock")
	must(st.ListenUnix(sock))
	var mu sync.Mutex
	held := make(chan struct{})    // closed to release the batcher
	reached := make(chan struct{}) // the batcher is parked after its first hand-off
	reconnected := make(chan struct{}, 4)
	first := true
	batched.VerifEvent = func(name string, id uint32, n int) {
		fmt.Printf("STEP hook %s conn=%d n=%d\n", name, id, n)
		switch name {
		case "handedoff":
			mu.Lock()
			f := first
			first = false
			mu.Unlock()
			if f {
				close(reached)
				<-held
			}
		case "reconnected":
			reconnected <- struct{}{}
		}
	}
	h := batched.NewHandler(sock, batched.Opts{BatchSize: 1, BatchDelayMicros: 50})
	done := make(chan error, 1)
	go func() { done <- h.Set(common.SetRequest{Key: []byte("k"), Data: []byte("v")}) }()
	select {
	case <-reached:
	case <-time.After(10 * time.Second):
		fmt.Println("STEP batcher never reached the hand-off")
		os.Exit(4)
	}
	fmt.Println("STEP batch handed to the reader, batcher held before its write; cutting the connection")
	// the fake registers a connection in its serving goroutine: make sure the cut finds it
	for deadline := time.Now().Add(10 * time.Second); st.CutAll() == 0 && time.Now().Before(deadline); {
		time.Sleep(time.Millisecond)
	}
	select {
	case <-reconnected:
	case <-time.After(20 * time.Second):
		fmt.Println("STEP no reconnect")
		os.Exit(5)
	}
	fmt.Println("STEP recovery reconnected; releasing the batcher: it writes the abandoned batch onto the new connection")
	time.Sleep(50 * time.Millisecond) // let the reader get back to waiting for the next batch
	close(held)
	select {
	case err := <-done:
		fmt.Printf("STEP the call returned: %v\n", err)
	case <-time.After(20 * time.Second):
		fmt.Println("STEP the call hung")
		os.Exit(3)
	}
	// a second call shows whether the pool still works
	ch := make(chan error, 1)
	go func() { ch <- h.Set(common.SetRequest{Key: []byte("k2"), Data: []byte("v2")}) }()
	select {
	case err := <-ch:
		fmt.Printf("STEP second call returned: %v\n", err)
	case <-time.After(20 * time.Second):
		fmt.Println("STEP second call hung")
		os.Exit(3)
	}
	time.Sleep(200 * time.Millisecond)
	fmt.Println("STEP process still alive")
}
