// Package drv contains the drivers: each replays behaviours computed by TLC into the real code
// and/or records traces of the real code for validation by TLC.
package drv

import (
	"bytes"
	"encoding/json"
	"fmt"
	"io"
	"os"
	"sync"

	"verif/harness/absx"
	"verif/harness/wire"
)

// MCmd is a client command in model terms.
type MCmd struct {
	Op      string   `json:"op"`
	K       string   `json:"k,omitempty"`
	Keys    []string `json:"keys,omitempty"`  // multi-key get
	Quiet   []bool   `json:"quiet,omitempty"` // per key (get) or [q] for quiet writes
	NoopEnd bool     `json:"noopend,omitempty"`
	V       []int    `json:"v"`
	F       int      `json:"f"`
	T       int      `json:"t"`
}

// Concretise turns a model command into a wire command.
func Concretise(w *absx.World, c MCmd, opaque uint32) wire.Command {
	wc := wire.Command{Op: c.Op, Data: w.Value(c.V), Flags: w.Flags(c.F), Exptime: w.TTL(c.T), Opaque: opaque,
		Quiet: c.Quiet, NoopEnd: c.NoopEnd}
	if len(c.Keys) > 0 {
		for _, k := range c.Keys {
			wc.Keys = append(wc.Keys, w.Key(k))
		}
	} else if c.K != "" {
		wc.Keys = [][]byte{w.Key(c.K)}
	}
	return wc
}

func itemRes(w *absx.World, it wire.Item) []interface{} {
	if !it.Hit {
		return []interface{}{"miss"}
	}
	return []interface{}{"hit", w.ProjectOrCorrupt(it.Value), w.FlagsBack(it.Flags)}
}

// Abstract turns an observed outcome into a model reply: ["ok"] ["fail"] ["error"] ["closed"]
// ["timeout"] ["malformed"] ["hit", blocks, f] ["miss"], or for a multi-key get ["multi", [...]].
func Abstract(w *absx.World, c MCmd, o wire.Outcome) []interface{} {
	switch o.Class {
	case "closed", "timeout", "malformed", "error":
		return []interface{}{o.Class}
	}
	switch c.Op {
	case "get", "gete":
		if len(c.Keys) > 0 {
			items := make([]interface{}, len(o.Items))
			for i, it := range o.Items {
				items[i] = itemRes(w, it)
			}
			return []interface{}{"multi", items}
		}
		if len(o.Items) == 1 {
			return itemRes(w, o.Items[0])
		}
		return []interface{}{"malformed"}
	case "gat":
		if len(o.Items) == 1 {
			return itemRes(w, o.Items[0])
		}
		if o.Class == "fail" {
			return []interface{}{"miss"}
		}
		return []interface{}{o.Class}
	}
	return []interface{}{o.Class}
}

// ClassOfModel maps a reply computed by the specification to the same vocabulary.
func ClassOfModel(out []interface{}) []interface{} {
	if len(out) == 0 {
		return out
	}
	if s, ok := out[0].(string); ok {
		switch s {
		case "exists", "notfound", "notstored":
			return []interface{}{"fail"}
		case "hit":
			// drop a deadline component if present
			if len(out) > 3 {
				return out[:3]
			}
		}
	}
	return out
}

func SameJSON(a, b interface{}) bool {
	x, _ := json.Marshal(a)
	y, _ := json.Marshal(b)
	var u, v interface{}
	json.Unmarshal(x, &u)
	json.Unmarshal(y, &v)
	x, _ = json.Marshal(u)
	y, _ = json.Marshal(v)
	return string(x) == string(y)
}

// Rec writes ndjson events.
type Rec struct {
	mu sync.Mutex
	w  io.Writer
	f  *os.File
	N  int
}

func NewRec(path string) (*Rec, error) {
	f, err := os.Create(path)
	if err != nil {
		return nil, err
	}
	return &Rec{w: f, f: f}, nil
}

// noNull replaces JSON nulls by empty arrays (the TLA+ Json module cannot read null).
func noNull(v interface{}) interface{} {
	switch x := v.(type) {
	case nil:
		return []interface{}{}
	case map[string]interface{}:
		for k, e := range x {
			x[k] = noNull(e)
		}
	case []interface{}:
		for i, e := range x {
			x[i] = noNull(e)
		}
	}
	return v
}

func (r *Rec) Emit(ev map[string]interface{}) {
	b, err := json.Marshal(ev)
	if err != nil {
		panic(err)
	}
	if bytes.Contains(b, []byte("null")) {
		var g interface{}
		json.Unmarshal(b, &g)
		b, _ = json.Marshal(noNull(g))
	}
	r.mu.Lock()
	r.w.Write(b)
	r.w.Write([]byte("\n"))
	r.N++
	r.mu.Unlock()
}

func (r *Rec) Close() { r.f.Close() }

func must(err error) {
	if err != nil {
		fmt.Fprintln(os.Stderr, "harness error:", err)
		os.Exit(2)
	}
}
