package drv

import (
	"encoding/json"
	"fmt"
	"math/rand"
	"os"
	"os/exec"
	"path/filepath"
	"runtime/pprof"
	"sync"
	"sync/atomic"
	"time"

	"github.com/netflix/rend/common"
	"github.com/netflix/rend/handlers/memcached/batched"

	"verif/harness/absx"
	"verif/harness/fakemc"
	"verif/harness/stack"
)

func init() {
	Drivers["pool"] = Pool
	Drivers["pool-child"] = poolChild
}

// Pool runs the concurrent-caller workload in a child process (the pool's reader goroutine panics
// with "Batch out of sync" when it loses track - that kills the process) and reports how the
// child ended as a final event.
func Pool(a Args) {
	exe, err := os.Executable()
	must(err)
	args := []string{"pool-child", "-out", a.Out, "-seed", fmt.Sprint(a.Seed), "-n", fmt.Sprint(a.N), "-len", fmt.Sprint(a.Len),
		"-mode", a.Mode, "-dir", a.Dir, "-workers", fmt.Sprint(a.Workers), "-sizes", a.Sizes, "-dribble", fmt.Sprint(a.Dribble), "-keylen", fmt.Sprint(a.KeyLen)}
	cmd := exec.Command(exe, args...)
	out, err := cmd.CombinedOutput()
	exit := 0
	if err != nil {
		exit = 1
		if ee, ok := err.(*exec.ExitError); ok {
			exit = ee.ExitCode()
		}
	}
	tail := string(out)
	if len(tail) > 3000 {
		tail = tail[len(tail)-3000:]
	}
	f, err := os.OpenFile(a.Out, os.O_APPEND|os.O_WRONLY|os.O_CREATE, 0o644)
	must(err)
	b, _ := json.Marshal(map[string]interface{}{"ev": "proc", "exit": exit, "output": tail})
	f.Write(append(b, '\n'))
	f.Close()
	fmt.Printf("{\"exit\": %d}\n", exit)
}

// poolChild: -workers callers, each with its own batched handler on the shared relay, -len calls
// each on caller-private keys with caller-distinct values. -mode: "calm" (no faults) or "cuts"
// (the backend severs pooled connections while calls are in flight). -n encodes the pool options:
// batch size * 100000 + batch delay in microseconds.
func poolChild(a Args) {
	rec, err := NewRec(a.Out)
	must(err)
	defer rec.Close()
	clock := &fakemc.Clock{}
	st := fakemc.New("pool", clock)
	sock := filepath.Join(a.Dir, fmt.Sprintf("p%d.sock", a.Seed))
	must(st.ListenUnix(sock))
	opts := batched.Opts{BatchSize: uint32(a.N / 100000), BatchDelayMicros: uint32(a.N % 100000), EvaluationIntervalSec: 1}
	if a.Mode == "flap" {
		// let the pool's monitor add a connection at every evaluation (once a second): the retry bounds of
		// the handler depend on the size of the pool
		opts.LoadFactorExpandRatio = 0.0001
	}
	callers := a.Workers
	variant := ""
	if a.Sizes == "big" {
		variant += "/big"
	}
	if a.Dribble != 0 {
		variant += "/dribble"
	}
	var wg sync.WaitGroup
	var mu sync.Mutex
	var progress int64
	cuts := 0
	stop := make(chan struct{})
	if a.Mode == "cuts" {
		go func() {
			rng := rand.New(rand.NewSource(a.Seed * 31))
			for {
				select {
				case <-stop:
					return
				case <-time.After(time.Duration(2+rng.Intn(25)) * time.Millisecond):
				}
				switch rng.Intn(4) {
				case 0:
					st.Refuse(true)
					st.CutAll()
					time.Sleep(time.Duration(rng.Intn(40)) * time.Millisecond)
					st.Refuse(false)
				case 1:
					// cut in the middle of the next reply
					st.Arm(fakemc.Fault{N: rng.Intn(3), Kind: "close_mid", Cut: 1 + rng.Intn(30)})
				case 2:
					st.Arm(fakemc.Fault{N: rng.Intn(4), Kind: []string{"close_before", "close_after"}[rng.Intn(2)]})
				default:
					st.CutAll()
				}
				mu.Lock()
				cuts++
				mu.Unlock()
			}
		}()
	}
	if a.Mode == "flap" {
		// a flapping backend: after the pool has grown to seven connections or more, windows of a second
		// and a half in which the backend cuts every connection at its next request, before the reply
		go func() {
			select {
			case <-stop:
				return
			case <-time.After(6500 * time.Millisecond):
			}
			many := make([]fakemc.Fault, 4000)
			for i := range many {
				many[i] = fakemc.Fault{N: i, Kind: "close_before"}
			}
			for {
				st.Arm(many...)
				mu.Lock()
				cuts++
				mu.Unlock()
				select {
				case <-stop:
					return
				case <-time.After(1500 * time.Millisecond): // longer than the retries of one call last
				}
				st.Arm()
				select {
				case <-stop:
					return
				case <-time.After(500 * time.Millisecond):
				}
			}
		}()
	}
	t0 := time.Now()
	for c := 0; c < callers; c++ {
		wg.Add(1)
		go func(c int) {
			defer wg.Done()
			rng := rand.New(rand.NewSource(a.Seed*1000 + int64(c)))
			sz := absx.SizesSmall()
			if a.Sizes == "big" {
				// values that do not fit one read of the pool's reader, and values that straddle its buffer
				sz = []int{1, 300, 4096, 12345, 70000}
			}
			w := absx.NewWorld(a.Seed*1000+int64(c), sz, false)
			w.Base = t0.Unix()
			keys := []string{"k1", "k2", "k3"}
			for _, k := range keys {
				w.SetKey(k, []byte(fmt.Sprintf("c%d/%s/%d", c, k, rng.Intn(1000))))
			}
			h := batched.NewHandler(sock, opts)
			var lines []map[string]interface{}
			lines = append(lines, map[string]interface{}{"ev": "reset", "cfg": fmt.Sprintf("pool/%s/bs%d/d%d/callers%d%s", a.Mode, opts.BatchSize, opts.BatchDelayMicros, callers, variant),
				"proto": "call", "twotier": false, "trace": c, "seed": a.Seed, "retry": map[string]int{"cuts": 4, "flap": 2}[a.Mode]})
			project := func() []interface{} {
				t := st.LiveSnapshot()
				out := stack.MMap{}
				for _, k := range keys {
					if e, ok := t[string(w.Key(k))]; ok {
						out[k] = stack.MEntry{V: w.ProjectOrCorrupt(e.Data), F: w.FlagsBack(e.Flags), E: w.DeadlineUnits(e.Exp)}
					}
				}
				return tierJSON(out)
			}
			nextBlock := 1
			blk := func() []int {
				b := []int{nextBlock}
				nextBlock++
				if nextBlock > 200 {
					nextBlock = 1 // a world has 256 distinguishable blocks (unique first byte)
				}
				return b
			}
			item := func(miss bool, data []byte, flags uint32) []interface{} {
				if miss {
					return []interface{}{"miss"}
				}
				return []interface{}{"hit", w.ProjectOrCorrupt(data), w.FlagsBack(flags)}
			}
			for i := 0; i < a.Len; i++ {
				if a.Mode == "flap" {
					time.Sleep(20 * time.Millisecond) // the run has to last while the pool grows
				}
				k := keys[rng.Intn(len(keys))]
				key := append([]byte(nil), w.Key(k)...)
				var cmd MCmd
				var res []interface{}
				start := time.Now()
				switch op := rng.Intn(13); op {
				case 0, 1, 2:
					cmd = MCmd{Op: "set", K: k, V: blk(), F: rng.Intn(8)}
					res = handlerRes(h.Set(common.SetRequest{Key: key, Data: w.Value(cmd.V), Flags: w.Flags(cmd.F)}))
				case 3:
					cmd = MCmd{Op: "add", K: k, V: blk(), F: rng.Intn(8)}
					res = handlerRes(h.Add(common.SetRequest{Key: key, Data: w.Value(cmd.V), Flags: w.Flags(cmd.F)}))
				case 4:
					cmd = MCmd{Op: "replace", K: k, V: blk(), F: rng.Intn(8)}
					res = handlerRes(h.Replace(common.SetRequest{Key: key, Data: w.Value(cmd.V), Flags: w.Flags(cmd.F)}))
				case 5:
					cmd = MCmd{Op: "append", K: k, V: blk()}
					res = handlerRes(h.Append(common.SetRequest{Key: key, Data: w.Value(cmd.V)}))
				case 6:
					cmd = MCmd{Op: "delete", K: k}
					res = handlerRes(h.Delete(common.DeleteRequest{Key: key}))
				case 7:
					cmd = MCmd{Op: "touch", K: k}
					res = handlerRes(h.Touch(common.TouchRequest{Key: key}))
				case 8:
					cmd = MCmd{Op: "gat", K: k}
					r, err := h.GAT(common.GATRequest{Key: key})
					if err != nil {
						res = handlerRes(err)
					} else {
						res = item(r.Miss, r.Data, r.Flags)
					}
				default:
					// multi-key get with duplicates and mixed quiet flags
					n := 1 + rng.Intn(3)
					cmd = MCmd{Op: "get"}
					req := common.GetRequest{}
					// every third multi-key get is shaped like the text parser's: opaque 0 and not quiet for
					// every key, so that repeated keys are indistinguishable but for their number
					textlike := rng.Intn(3) == 0
					// every fourth one is shaped like a binary quiet batch: every key quiet but the last, whose
					// response ends the answer for the client and must therefore come last (also after a retry)
					batchlike := !textlike && rng.Intn(3) == 0
					for j := 0; j < n; j++ {
						kk := keys[rng.Intn(len(keys))]
						cmd.Keys = append(cmd.Keys, kk)
						req.Keys = append(req.Keys, append([]byte(nil), w.Key(kk)...))
						q := rng.Intn(2) == 0
						if textlike {
							req.Opaques = append(req.Opaques, 0)
							q = false
						} else {
							req.Opaques = append(req.Opaques, uint32(1000*i+j))
						}
						if batchlike {
							q = j < n-1
						}
						req.Quiet = append(req.Quiet, q)
						cmd.Quiet = append(cmd.Quiet, q)
					}
					terminalSeen, afterTerminal := false, 0
					got := make([][]interface{}, n)
					seen := make([]int, n)
					var gerr error
					extra := 0
					rc, ec := h.Get(req)
					for rc != nil || ec != nil {
						select {
						case r, ok := <-rc:
							if !ok {
								rc = nil
								continue
							}
							j := int(r.Opaque) - 1000*i
							if textlike {
								// attribute to the first position with this key that has no response yet
								j = -1
								for x := 0; x < n; x++ {
									if seen[x] == 0 && string(r.Key) == string(req.Keys[x]) {
										j = x
										break
									}
								}
							}
							if j < 0 || j >= n || string(r.Key) != string(req.Keys[j]) {
								extra++
								continue
							}
							seen[j]++
							got[j] = item(r.Miss, r.Data, r.Flags)
							if batchlike {
								if terminalSeen {
									afterTerminal++
								}
								if j == n-1 {
									terminalSeen = true
								}
							}
						case e, ok := <-ec:
							if !ok {
								ec = nil
							} else {
								gerr = e
							}
						}
					}
					if gerr != nil {
						res = handlerRes(gerr)
					} else {
						items := make([]interface{}, n)
						bad := extra > 0
						for j := range got {
							if seen[j] != 1 {
								bad = true
							}
							if got[j] == nil {
								items[j] = []interface{}{"absent"}
							} else {
								items[j] = got[j]
							}
						}
						res = []interface{}{"multi", items}
						if bad {
							res = []interface{}{"malformed", fmt.Sprintf("responses per key %v, unattributable %d", seen, extra)}
						} else if afterTerminal > 0 {
							res = []interface{}{"malformed", fmt.Sprintf("%d responses arrived after the response to the terminating (non-quiet) get", afterTerminal)}
						}
					}
				}
				ev := map[string]interface{}{"ev": "op", "port": "handler", "x": xJSON(cmd), "res": res, "l1": project(), "l2": []interface{}{},
					"ms": time.Since(start).Milliseconds()}
				lines = append(lines, ev)
				atomic.AddInt64(&progress, 1)
			}
			mu.Lock()
			for _, ln := range lines {
				rec.Emit(ln)
			}
			mu.Unlock()
		}(c)
	}
	done := make(chan struct{})
	go func() { wg.Wait(); close(done) }()
	// a hang is the absence of progress, not a long run: no call of any caller returned for a minute
	hung := false
	last, lastAt := atomic.LoadInt64(&progress), time.Now()
wait:
	for {
		select {
		case <-done:
			break wait
		case <-time.After(time.Second):
		}
		if p := atomic.LoadInt64(&progress); p != last {
			last, lastAt = p, time.Now()
		} else if time.Since(lastAt) > 60*time.Second {
			hung = true
			break wait
		}
		// ... or a crawl: the workload normally takes seconds; -keylen carries a budget in seconds (twenty times
		// that and more) beyond which calls that each take their full retry time count as not being served
		if a.KeyLen > 0 && time.Since(t0) > time.Duration(a.KeyLen)*time.Second {
			hung = true
			break wait
		}
	}
	close(stop)
	st.Refuse(false)
	st.Arm()
	// after the storm the pool must serve normally without a restart
	after := "ok"
	if !hung {
		h := batched.NewHandler(sock, opts)
		ch := make(chan error, 1)
		go func() { ch <- h.Set(common.SetRequest{Key: []byte("after-the-storm"), Data: []byte("x")}) }()
		select {
		case err := <-ch:
			if err != nil {
				// one more try: the first call after the storm may still meet a dead connection and exhaust its retries
				time.Sleep(300 * time.Millisecond)
				if err2 := h.Set(common.SetRequest{Key: []byte("after-the-storm"), Data: []byte("x")}); err2 != nil {
					after = "error: " + err2.Error()
				}
			}
		case <-time.After(20 * time.Second):
			after = "hang"
		}
	}
	mu.Lock()
	rec.Emit(map[string]interface{}{"ev": "summary", "hung": hung, "cuts": cuts, "after": after, "conns_accepted": atomic.LoadInt64(&st.Accepted), "secs": time.Since(t0).Seconds()})
	mu.Unlock()
	if hung {
		// where everybody is: the evidence of the hang
		pprof.Lookup("goroutine").WriteTo(os.Stdout, 1)
		os.Exit(3)
	}
}
