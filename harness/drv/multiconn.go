package drv

import (
	"fmt"
	"math/rand"
	"net"
	"net/http"
	"net/http/httptest"
	"runtime"
	"sync"
	"time"

	"verif/harness/absx"
	"verif/harness/stack"
	"verif/harness/wire"
)

func init() { Drivers["multi-conn"] = MultiConn }

// MultiConn runs -workers client connections at the same time, each on a private key set, each
// issuing -len seeded random commands (failing ones included: the backend answers those with
// error replies that carry a body). Every connection's commands form one trace. A goroutine
// polls the /metrics handler meanwhile. Built with -race this is also the race-detector workload.
func MultiConn(a Args) {
	rec, err := NewRec(a.Out)
	must(err)
	defer rec.Close()
	st, err := stack.Build(a.Cfg, a.Dir, nil)
	must(err)
	text := a.Proto == "text"
	ports := a.Cfg.Ports()
	runtime.GC() // the /metrics handler needs at least one finished GC cycle
	stop := make(chan struct{})
	polls := 0
	var pwg sync.WaitGroup
	pwg.Add(1)
	go func() {
		defer pwg.Done()
		for {
			select {
			case <-stop:
				return
			case <-time.After(3 * time.Millisecond):
			}
			rr := httptest.NewRecorder()
			req, _ := http.NewRequest("GET", "/metrics", nil)
			http.DefaultServeMux.ServeHTTP(rr, req)
			polls++
		}
	}()
	if a.Mode == "errpath" && !text {
		// connections that die in the middle of a request: a quiet get's header and only a part of its key,
		// a set's header and a part of its value - error paths of the parser that touch pooled objects
		for t := 0; t < 2; t++ {
			pwg.Add(1)
			go func(t int) {
				defer pwg.Done()
				rng := rand.New(rand.NewSource(a.Seed*31 + int64(t)))
				for {
					select {
					case <-stop:
						return
					default:
					}
					c, err := net.Dial("unix", st.Socks[ports[rng.Intn(len(ports))]])
					if err != nil {
						time.Sleep(time.Millisecond)
						continue
					}
					var frame []byte
					if rng.Intn(2) == 0 {
						frame = wire.EncodeBinary(wire.Command{Op: "get", Keys: [][]byte{[]byte("truncated-key")}, Quiet: []bool{true}, Opaque: 9})
					} else {
						frame = wire.EncodeBinary(wire.Command{Op: "set", Keys: [][]byte{[]byte("truncated-key")}, Data: []byte("0123456789"), Opaque: 9})
					}
					c.Write(frame[:24+rng.Intn(len(frame)-24)])
					c.Close()
					time.Sleep(time.Duration(rng.Intn(300)) * time.Microsecond)
				}
			}(t)
		}
	}
	var wg sync.WaitGroup
	var mu sync.Mutex
	t0 := time.Now()
	for c := 0; c < a.Workers; c++ {
		wg.Add(1)
		go func(c int) {
			defer wg.Done()
			rng := rand.New(rand.NewSource(a.Seed*7919 + int64(c)))
			w := absx.NewWorld(a.Seed*7919+int64(c), absx.SizesSmall(), text)
			w.Base = t0.Unix()
			keys := []string{"k1", "k2", "k3"}
			for _, k := range keys {
				w.SetKey(k, []byte(fmt.Sprintf("conn%d.%s.%d", c, k, rng.Intn(100000))))
			}
			if a.Cfg.L1 == "chunked" {
				w = reworld(w, absx.SizesChunk(len(w.Key("k1"))))
			}
			s := &session{st: st, w: w, cl: map[string]*wire.Client{}, text: text, keys: keys, shared: true}
			var lines []map[string]interface{}
			lines = append(lines, map[string]interface{}{"ev": "reset", "cfg": a.Cfg.String(), "proto": a.Proto, "twotier": a.Cfg.Orca != "l1only",
				"trace": c, "seed": a.Seed, "conns": a.Workers})
			nextBlock := 1
			blk := func() []int {
				b := []int{nextBlock}
				nextBlock++
				if nextBlock > 150 {
					nextBlock = 1
				}
				return b
			}
			for i := 0; i < a.Len; i++ {
				port := ports[rng.Intn(len(ports))]
				k := keys[rng.Intn(len(keys))]
				var cmd MCmd
				op := rng.Intn(16)
				if a.Mode == "errpath" && i > 3 {
					// sustained error-path traffic: commands the backend refuses with a status and a body
					op = []int{2, 3, 4, 2, 2, 13}[rng.Intn(6)]
				}
				switch op {
				case 0, 1:
					cmd = MCmd{Op: "set", K: k, V: blk(), F: rng.Intn(8)}
				case 2, 3, 4:
					cmd = MCmd{Op: "add", K: k, V: blk(), F: rng.Intn(8)} // mostly fails: error reply with a body from the backend
				case 5, 6:
					cmd = MCmd{Op: "replace", K: k, V: blk(), F: rng.Intn(8)}
				case 7:
					cmd = MCmd{Op: "append", K: k, V: blk()}
				case 8:
					cmd = MCmd{Op: "prepend", K: k, V: blk()}
				case 9:
					cmd = MCmd{Op: "delete", K: k}
				case 10:
					cmd = MCmd{Op: "touch", K: k, T: rng.Intn(2) * 5}
				case 11:
					if text {
						cmd = MCmd{Op: "get", K: k}
					} else {
						cmd = MCmd{Op: "gat", K: k, T: rng.Intn(2) * 5}
					}
				case 12:
					n := 1 + rng.Intn(3)
					cmd = MCmd{Op: "get"}
					for j := 0; j < n; j++ {
						cmd.Keys = append(cmd.Keys, keys[rng.Intn(len(keys))])
						cmd.Quiet = append(cmd.Quiet, !text && rng.Intn(2) == 0)
					}
					if !text {
						cmd.NoopEnd = rng.Intn(2) == 0
						if !cmd.NoopEnd {
							cmd.Quiet[n-1] = false
						}
					}
				default:
					cmd = MCmd{Op: "get", K: k}
				}
				res, out := s.do(port, cmd)
				_ = res
				if a.Mode == "errpath" {
					continue // race-detector workload only: nothing is recorded
				}
				l1, l2 := s.tiers()
				ev := map[string]interface{}{"ev": "op", "port": port, "x": xJSON(cmd), "res": res, "l1": l1, "l2": l2}
				if len(out.Anomalies) > 0 {
					ev["anomalies"] = out.Anomalies
				}
				lines = append(lines, ev)
			}
			s.closeAll()
			mu.Lock()
			for _, ln := range lines {
				rec.Emit(ln)
			}
			mu.Unlock()
		}(c)
	}
	wg.Wait()
	close(stop)
	pwg.Wait()
	fmt.Printf("{\"connections\": %d, \"events\": %d, \"metrics_polls\": %d, \"secs\": %.1f}\n", a.Workers, rec.N, polls, time.Since(t0).Seconds())
}
