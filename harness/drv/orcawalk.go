package drv

import (
	"bufio"
	"encoding/json"
	"fmt"
	"os"
	"sort"
	"sync"
	"sync/atomic"

	"verif/harness/absx"
	"verif/harness/stack"
	"verif/harness/wire"
)

// Edge is one transition of spec/OrcaSeq.tla as exported by TLC.
type Edge struct {
	Port string          `json:"port"`
	X    json.RawMessage `json:"x"`
	Out  []interface{}   `json:"out"`
	L1   stack.MMap      `json:"l1"`
	L2   stack.MMap      `json:"l2"`
	Now  int             `json:"now"`
	L1n  stack.MMap      `json:"l1n"`
	L2n  stack.MMap      `json:"l2n"`
}

// Mismatch is a difference between what TLC computed and what the real stack did.
type Mismatch struct {
	Kind   string        `json:"kind"` // ReplyOK RefEq Subset TTL Discipline Drift Stray
	Cfg    string        `json:"cfg"`
	Proto  string        `json:"proto"`
	Port   string        `json:"port"`
	Cmd    MCmd          `json:"cmd"`
	Key    string        `json:"key,omitempty"`
	Want   interface{}   `json:"want"`
	Got    interface{}   `json:"got"`
	Detail string        `json:"detail,omitempty"`
	Probe  []interface{} `json:"probe,omitempty"` // confirmation reads on the real stack
	Edge   *Edge         `json:"edge,omitempty"`
	Sizes  string        `json:"sizes,omitempty"`
	Seed   int64         `json:"seed"`
}

type WalkOpts struct {
	Cfg     stack.Config
	Proto   string // bin | text
	Sizes   string // small | chunk
	Seed    int64
	Workers int
	Dir     string
	KeyLen  int
}

type WalkResult struct {
	Edges       int64          `json:"edges"`
	Executed    int64          `json:"executed"`
	Skipped     int64          `json:"skipped"`
	Mismatches  []Mismatch     `json:"mismatches"`
	ByOp        map[string]int `json:"by_op"`
	Sample      []interface{}  `json:"sample"`
	DistinctPre int            `json:"distinct_pre_states"`
}

type walker struct {
	o    WalkOpts
	st   *stack.Stack
	w    *absx.World
	cl   map[string]*wire.Client
	keys []string
	opq  uint32
}

func (wk *walker) client(port string) *wire.Client {
	if c := wk.cl[port]; c != nil {
		return c
	}
	c, err := wire.Dial(wk.st.Socks[port], wk.o.Proto == "text")
	must(err)
	wk.cl[port] = c
	return c
}

func (wk *walker) drop(port string) {
	if c := wk.cl[port]; c != nil {
		c.Close()
		delete(wk.cl, port)
	}
}

func sizesFor(name string, keylen int) []int {
	if name == "chunk" {
		return absx.SizesChunk(keylen)
	}
	return absx.SizesSmall()
}

func newWalker(o WalkOpts, idx int) *walker {
	st, err := stack.Build(o.Cfg, o.Dir, nil)
	must(err)
	w := absx.NewWorld(o.Seed*1000+int64(idx), nil, o.Proto == "text")
	w.KeyLen = o.KeyLen
	wk := &walker{o: o, st: st, w: w, cl: map[string]*wire.Client{}}
	return wk
}

// setSizes picks the block sizes once the key length is known.
func (wk *walker) prepare(keys []string) {
	wk.keys = keys
	kl := 0
	for _, k := range keys {
		if n := len(wk.w.Key(k)); n > kl {
			kl = n
		}
	}
	*wk.w = *reworld(wk.w, sizesFor(wk.o.Sizes, kl))
}

func reworld(w *absx.World, sizes []int) *absx.World {
	n := absx.NewWorld(w.Seed, sizes, w.Text)
	n.KeyLen = w.KeyLen
	for _, k := range w.KeyNames() {
		n.SetKey(k, w.Key(k))
	}
	n.Base = w.Base
	return n
}

func viewOf(m stack.MMap, k string, now int) stack.MEntry {
	e := m.Get(k)
	if e.None || e.E <= now {
		return stack.MEntry{None: true}
	}
	return e
}

// decodeCmd reads the command of an edge; for a multi-key get the quiet flags and the kind of
// terminator are picked here (seeded), the model being indifferent to them.
func (wk *walker) decodeCmd(x json.RawMessage) MCmd {
	var raw struct {
		MCmd
		Ks []string `json:"ks"`
	}
	json.Unmarshal(x, &raw)
	c := raw.MCmd
	if c.Op == "mget" {
		c.Op = "get"
		c.Keys = raw.Ks
		c.Quiet = make([]bool, len(c.Keys))
		if wk.o.Proto != "text" {
			h := 0
			for _, k := range c.Keys {
				h = h*31 + len(k) + int(k[len(k)-1])
			}
			h += int(wk.opq / 16)
			for i := range c.Quiet {
				c.Quiet[i] = (h>>uint(i))&1 == 1
			}
			c.NoopEnd = (h>>5)&1 == 1
			if !c.NoopEnd {
				c.Quiet[len(c.Quiet)-1] = false
			}
		}
	}
	return c
}

// run executes one edge and returns the mismatches it exposes.
func (wk *walker) run(e *Edge) (ms []Mismatch, skipped bool) {
	c := wk.decodeCmd(e.X)
	mk := func(kind string, want, got interface{}, key, detail string) Mismatch {
		return Mismatch{Kind: kind, Cfg: wk.o.Cfg.String(), Proto: wk.o.Proto, Port: e.Port, Cmd: c, Key: key,
			Want: want, Got: got, Detail: detail, Edge: e, Sizes: wk.o.Sizes, Seed: wk.o.Seed}
	}
	if e.Port == "tick" {
		return nil, true
	}
	if _, served := wk.st.Socks[e.Port]; !served && e.Port != "evict" {
		return nil, true // this deployment shape has no such port
	}
	if wk.o.Proto == "text" && (c.Op == "gat" || c.Op == "gete") {
		return nil, true
	}
	if wk.o.Cfg.L1 == "chunked" || wk.o.Cfg.L1 == "inmem" {
		if e.Now != 0 {
			return nil, true // these handlers read the wall clock themselves
		}
	}
	must(wk.st.Load(wk.w, e.L1, e.L2, e.Now, wk.keys))
	if e.Port == "evict" {
		wk.st.EvictL1(wk.w, c.K)
	} else {
		wk.opq += 16
		cl := wk.client(e.Port)
		out := cl.Do(Concretise(wk.w, c, wk.opq))
		got := Abstract(wk.w, c, out)
		want := ClassOfModel(e.Out)
		if !SameJSON(got, want) {
			ms = append(ms, mk("ReplyOK", want, got, c.K, fmt.Sprintf("status=%s anomalies=%v", out.Status, out.Anomalies)))
		} else if len(out.Anomalies) > 0 {
			ms = append(ms, mk("Discipline", nil, out.Anomalies, c.K, ""))
		}
		if out.Closed || out.Class == "timeout" || out.Class == "malformed" {
			wk.drop(e.Port)
		}
	}
	l1, l2 := wk.st.Project(wk.w, wk.keys)
	now := e.Now
	stateBad := false
	for k, x := range l1 {
		if x.Note == "stray backend entry" {
			ms = append(ms, mk("Stray", nil, k, k, "L1 holds an entry not derived from any key in use"))
		}
	}
	for k, x := range l2 {
		if x.Note == "stray backend entry" {
			ms = append(ms, mk("Stray", nil, k, k, "L2 holds an entry not derived from any key in use"))
		}
	}
	for _, k := range wk.keys {
		if wk.st.L2 != nil {
			g2, w2 := viewOf(l2, k, now), viewOf(e.L2n, k, now)
			g1, w1 := viewOf(l1, k, now), viewOf(e.L1n, k, now)
			switch {
			case !g2.EqualVF(w2):
				ms = append(ms, mk("RefEq", w2.String(), g2.String(), k, "L2 differs from the reference map"))
				stateBad = true
			case !g2.Equal(w2):
				ms = append(ms, mk("TTL", w2.String(), g2.String(), k, "L2 expiry differs from the reference"))
			}
			switch {
			case !g1.None && !g1.EqualVF(g2):
				ms = append(ms, mk("Subset", g2.String(), g1.String(), k, "L1 holds an entry that differs from L2's"))
				stateBad = true
			case !g1.None && !g1.Equal(g2):
				ms = append(ms, mk("TTL", g2.String(), g1.String(), k, "L1 expiry differs from L2's"))
			case !g1.Equal(w1):
				ms = append(ms, mk("Drift", w1.String(), g1.String(), k, "L1 contents differ from the design model (no property violated)"))
			}
		} else {
			g1, w1 := viewOf(l1, k, now), viewOf(e.L1n, k, now)
			switch {
			case !g1.EqualVF(w1):
				ms = append(ms, mk("RefEq", w1.String(), g1.String(), k, "L1 differs from the reference map"))
				stateBad = true
			case !g1.Equal(w1):
				ms = append(ms, mk("TTL", w1.String(), g1.String(), k, "L1 expiry differs from the reference"))
			}
		}
	}
	if stateBad {
		// confirm through the client interface: read every key, then again with L1 emptied
		probe := wk.probe(e)
		for i := range ms {
			if ms[i].Kind == "RefEq" || ms[i].Kind == "Subset" {
				ms[i].Probe = probe
			}
		}
	}
	return ms, false
}

// probe reads all keys through the first port, before and after evicting L1, and reports the
// reads that differ from what the reference map (TLC's successor L2/ref) says.
func (wk *walker) probe(e *Edge) []interface{} {
	port := wk.o.Cfg.Ports()[0]
	ref := e.L2n
	if wk.st.L2 == nil {
		ref = e.L1n
	}
	var out []interface{}
	for round := 0; round < 2; round++ {
		for _, k := range wk.keys {
			wk.opq += 16
			c := MCmd{Op: "get", K: k}
			got := Abstract(wk.w, c, wk.client(port).Do(Concretise(wk.w, c, wk.opq)))
			var want []interface{}
			if v := viewOf(ref, k, e.Now); v.None {
				want = []interface{}{"miss"}
			} else {
				want = []interface{}{"hit", v.V, v.F}
			}
			if !SameJSON(got, want) {
				out = append(out, map[string]interface{}{"after_evicting_l1": round == 1, "k": k, "want": want, "got": got})
			}
		}
		if wk.st.L2 == nil {
			break
		}
		for _, k := range wk.keys {
			wk.st.EvictL1(wk.w, k)
		}
	}
	return out
}

// OrcaWalk replays the edges in file through real stacks.
func OrcaWalk(o WalkOpts, edgesPath, outPath string) {
	f, err := os.Open(edgesPath)
	must(err)
	defer f.Close()
	var edges []*Edge
	keyset := map[string]bool{}
	sc := bufio.NewScanner(f)
	sc.Buffer(make([]byte, 1<<20), 1<<26)
	for sc.Scan() {
		var e Edge
		if err := json.Unmarshal(sc.Bytes(), &e); err != nil {
			must(fmt.Errorf("bad edge line: %v", err))
		}
		for k := range e.L1 {
			keyset[k] = true
		}
		edges = append(edges, &e)
	}
	must(sc.Err())
	var keys []string
	for k := range keyset {
		keys = append(keys, k)
	}
	sort.Strings(keys)
	res := WalkResult{Edges: int64(len(edges)), ByOp: map[string]int{}}
	pre := map[string]bool{}
	var mu sync.Mutex
	var next int64 = -1
	var wg sync.WaitGroup
	if o.Workers < 1 {
		o.Workers = 1
	}
	for wi := 0; wi < o.Workers; wi++ {
		wg.Add(1)
		go func(wi int) {
			defer wg.Done()
			wk := newWalker(o, wi)
			wk.prepare(keys)
			for {
				i := atomic.AddInt64(&next, 1)
				if i >= int64(len(edges)) {
					return
				}
				e := edges[i]
				ms, skipped := wk.run(e)
				mu.Lock()
				if skipped {
					res.Skipped++
				} else {
					res.Executed++
					c := wk.decodeCmd(e.X)
					res.ByOp[e.Port+":"+c.Op]++
					b1, _ := json.Marshal(e.L1)
					b2, _ := json.Marshal(e.L2)
					pre[fmt.Sprintf("%s|%s|%d", b1, b2, e.Now)] = true
					if len(res.Sample) < 3 {
						res.Sample = append(res.Sample, map[string]interface{}{"port": e.Port, "cmd": c, "pre_l1": e.L1, "pre_l2": e.L2, "now": e.Now, "reply": e.Out, "post_l1": e.L1n, "post_l2": e.L2n})
					}
				}
				if len(res.Mismatches) < 5000 {
					res.Mismatches = append(res.Mismatches, ms...)
				}
				mu.Unlock()
			}
		}(wi)
	}
	wg.Wait()
	res.DistinctPre = len(pre)
	b, _ := json.Marshal(res)
	must(os.WriteFile(outPath, b, 0o644))
}
