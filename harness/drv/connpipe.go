package drv

import (
	"fmt"
	"math/rand"

	"verif/harness/absx"
	"verif/harness/stack"
	"verif/harness/wire"
)

func init() { Drivers["conn-pipe"] = ConnPipe }

// ConnPipe sends random pipelines (requests written back to back before any reply is read),
// including failing requests, and records the reply units attributed to every request.
func ConnPipe(a Args) {
	rec, err := NewRec(a.Out)
	must(err)
	defer rec.Close()
	st, err := stack.Build(a.Cfg, a.Dir, nil)
	must(err)
	rng := rand.New(rand.NewSource(a.Seed))
	text := a.Proto == "text"
	ports := a.Cfg.Ports()
	keys := []string{"k1", "k2", "k3"}
	nreq := 0
	for p := 0; p < a.N; p++ {
		w := absx.NewWorld(a.Seed*100000+int64(p), absx.SizesSmall(), text)
		if p%16 == 0 {
			must(st.Load(w, stack.MMap{}, stack.MMap{}, 0, keys))
		}
		// stable keys across pipelines so that hits happen
		for i, k := range keys {
			// (a key is not a format string, and its bytes need not be ASCII)
			w.SetKey(k, []byte(fmt.Sprintf("k%%d%d\xc3\xa9%%s", i)))
		}
		port := ports[rng.Intn(len(ports))]
		cl, err := wire.Dial(st.Socks[port], text)
		must(err)
		n := 1 + rng.Intn(4)
		var cmds []wire.Command
		var raws [][]byte
		closing := false
		for i := 0; i < n && !closing; i++ {
			k := keys[rng.Intn(len(keys))]
			opq := uint32(0x1000 * (i + 1))
			var mc MCmd
			var raw []byte
			switch r := rng.Intn(16); r {
			case 0, 1:
				mc = MCmd{Op: "set", K: k, V: []int{1 + rng.Intn(5)}, F: rng.Intn(4), Quiet: []bool{rng.Intn(4) == 0}}
			case 2:
				mc = MCmd{Op: "add", K: k, V: []int{1 + rng.Intn(5)}, Quiet: []bool{rng.Intn(3) == 0}}
			case 3:
				mc = MCmd{Op: "replace", K: k, V: []int{1 + rng.Intn(5)}, Quiet: []bool{rng.Intn(3) == 0}}
			case 4:
				mc = MCmd{Op: "append", K: k, V: []int{1 + rng.Intn(5)}, Quiet: []bool{rng.Intn(3) == 0}}
			case 5:
				mc = MCmd{Op: "prepend", K: k, V: []int{1 + rng.Intn(5)}}
			case 6:
				mc = MCmd{Op: "delete", K: k}
			case 7:
				mc = MCmd{Op: "touch", K: k, T: rng.Intn(3)}
			case 8:
				if text {
					mc = MCmd{Op: "get", K: k}
				} else {
					mc = MCmd{Op: "gat", K: k, T: rng.Intn(3)}
				}
			case 9, 10, 11:
				nk := 1 + rng.Intn(3)
				mc = MCmd{Op: "get"}
				for j := 0; j < nk; j++ {
					mc.Keys = append(mc.Keys, keys[rng.Intn(len(keys))])
					mc.Quiet = append(mc.Quiet, !text && rng.Intn(2) == 0)
				}
				if !text {
					mc.NoopEnd = rng.Intn(2) == 0
					if !mc.NoopEnd {
						mc.Quiet[nk-1] = false
					}
				}
			case 12:
				mc = MCmd{Op: "noop"}
			case 13:
				mc = MCmd{Op: []string{"version", "stats"}[rng.Intn(2)]}
			case 14:
				if text {
					bad := []string{"set %s abc 0 1\r\n", "set %s 0 abc 1\r\n", "set %s 0 0 abc\r\n", "touch %s abc\r\n", "set %s 0 0\r\n", "delete\r\n%.0s", "get\r\n%.0s"}
					raw = []byte(fmt.Sprintf(bad[rng.Intn(len(bad))], w.Key(k)))
					mc = MCmd{Op: "badnum"}
				} else {
					mc = MCmd{Op: "delete", K: k}
				}
			default:
				mc = MCmd{Op: "unknown", K: k}
				if !text {
					closing = true // rend closes the connection on an unknown opcode
				}
			}
			c := Concretise(w, mc, opq)
			if text {
				c.Quiet = nil
				if len(mc.Keys) > 0 {
					c.Quiet = make([]bool, len(mc.Keys))
				}
			}
			cmds = append(cmds, c)
			raws = append(raws, raw)
		}
		res := cl.Pipeline(cmds, raws)
		for i, r := range res {
			nreq++
			if r.StrayInfo == nil {
				r.StrayInfo = []string{}
			}
			rec.Emit(map[string]interface{}{"ev": "x", "proto": a.Proto, "cfg": a.Cfg.String(), "port": port, "pipe": p, "idx": i, "n": len(cmds),
				"op": cmds[i].Op, "req": r.Req, "units": r.Units, "stray": r.Stray, "closed": r.Closed, "strayinfo": r.StrayInfo, "ops": opsOf(cmds)})
		}
		cl.Close()
	}
	fmt.Printf("{\"pipelines\": %d, \"requests\": %d}\n", a.N, nreq)
}

func opsOf(cmds []wire.Command) []string {
	out := make([]string, len(cmds))
	for i, c := range cmds {
		out[i] = c.Op
		if c.Op == "get" && len(c.Keys) > 1 {
			out[i] = "mget"
		}
	}
	return out
}
