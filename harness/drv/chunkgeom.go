package drv

import (
	"bufio"
	"encoding/binary"
	"encoding/json"
	"fmt"
	"io"
	"math/rand"
	"net"
	"path/filepath"
	"sort"
	"strconv"
	"strings"
	"sync"
	"sync/atomic"
	"time"

	"github.com/netflix/rend/common"
	"github.com/netflix/rend/handlers/memcached/chunked"

	"verif/harness/fakemc"
	"verif/harness/wire"
)

func init() { Drivers["chunk-geom"] = ChunkGeom }

// geometry of the chunking backend as the property states it; used only to choose the
// value lengths to try (the verdict is ChunkGeomTrace.tla's)
const (
	geomSlab      = 1184
	geomOverhead  = 71
	geomToken     = 16
	geomMaxChunks = 999
	geomMaxKey    = 250
)

func geomPayload(k int) int { return geomSlab - geomOverhead - k - geomToken }

type geomJob struct {
	id  int
	op  string // set add replace append prepend touch gat
	k   int    // client key length
	v   int    // length of the value stored by the command (append/prepend: of the joined value)
	pre int    // append/prepend: length stored before; replace/touch/gat: length of the value set first
}

// geomRun is a run of consecutive backend store requests (see ChunkGeomTrace.tla).
type geomRun struct {
	T  string `json:"t"`
	I  int    `json:"i"`
	C  int    `json:"c"`
	KL int    `json:"kl"`
	VL int    `json:"vl"`
}

// geomClassify names a backend key relative to the client key.
func geomClassify(bkey, key string) (string, int) {
	if !strings.HasPrefix(bkey, key) {
		return "other", 0
	}
	suf := bkey[len(key):]
	if suf == "-meta" {
		return "meta", 0
	}
	if len(suf) < 2 || suf[0] != '-' {
		return "other", 0
	}
	d := suf[1:]
	for _, c := range d {
		if c < '0' || c > '9' {
			return "other", 0
		}
	}
	if len(d) > 1 && d[0] == '0' || len(d) > 9 {
		return "other", 0
	}
	i, err := strconv.Atoi(d)
	if err != nil {
		return "other", 0
	}
	return "chunk", i
}

// geomRuns encodes the store requests of a log, in order, as runs.
func geomRuns(log []fakemc.LogRec, key string) []geomRun {
	runs := []geomRun{}
	for _, r := range log {
		if r.Op != fakemc.OpSet && r.Op != fakemc.OpAdd && r.Op != fakemc.OpReplace {
			continue
		}
		t, i := geomClassify(r.Key, key)
		if n := len(runs); n > 0 {
			p := &runs[n-1]
			if p.T == t && p.KL == len(r.Key) && p.VL == r.VLen && (t != "chunk" || i == p.I+p.C) {
				p.C++
				continue
			}
		}
		runs = append(runs, geomRun{T: t, I: i, C: 1, KL: len(r.Key), VL: r.VLen})
	}
	return runs
}

const geomKeyAlphabet = "abcdefghijklmnopqrstuvwxyzABCDEFGHIJKLMNOPQRSTUVWXYZ0123456789-_:."

type geomWorker struct {
	st    *fakemc.Store
	path  string
	conn  net.Conn
	h     chunked.Handler
	probe net.Conn // a plain connection to the fake, to read the metadata entry back
	pr    *bufio.Reader
}

// meta reads the metadata entry of key from the fake and decodes length, number of chunks and chunk size.
func (w *geomWorker) meta(key string) map[string]interface{} {
	none := map[string]interface{}{"ok": false, "len": 0, "n": 0, "cs": 0}
	if w.probe == nil {
		c, err := net.Dial("unix", w.path)
		must(err)
		w.probe, w.pr = c, bufio.NewReader(c)
	}
	mk := key + "-meta"
	w.probe.SetDeadline(time.Now().Add(20 * time.Second))
	_, err := w.probe.Write(append(wire.BinHeader(fakemc.OpGet, len(mk), 0, uint32(len(mk)), 0), mk...))
	must(err)
	h := make([]byte, 24)
	_, err = io.ReadFull(w.pr, h)
	must(err)
	body := make([]byte, binary.BigEndian.Uint32(h[8:12]))
	_, err = io.ReadFull(w.pr, body)
	must(err)
	v := body[int(h[4]):]
	if binary.BigEndian.Uint16(h[6:8]) != 0 || len(v) < 16 {
		return none
	}
	return map[string]interface{}{"ok": true, "len": binary.BigEndian.Uint32(v[0:4]), "n": binary.BigEndian.Uint32(v[8:12]),
		"cs": binary.BigEndian.Uint32(v[12:16])}
}

func (w *geomWorker) dial() {
	if w.conn != nil {
		w.conn.Close()
	}
	c, err := net.Dial("unix", w.path)
	must(err)
	w.conn = c
	w.h = chunked.NewHandler(c)
}

// ChunkGeom drives the real chunked handler with values around every chunk boundary for
// every key length and records, per command, the store requests the backend received.
func ChunkGeom(a Args) {
	rec, err := NewRec(a.Out)
	must(err)
	defer rec.Close()
	thorough := a.Mode == "thorough"
	rng := rand.New(rand.NewSource(a.Seed))

	var jobs []geomJob
	add := func(k, v int) {
		p := geomPayload(k)
		if v < 0 || v > geomMaxChunks*p {
			return
		}
		j := geomJob{id: len(jobs), op: "set", k: k, v: v}
		switch r := rng.Intn(20); {
		case r < 12:
		case r < 14:
			j.op = "add"
		case r < 16:
			j.op = "replace"
			j.pre = rng.Intn(2*p + 2)
		case r < 18:
			j.op = "append"
		case r < 19:
			j.op = "prepend"
		}
		if j.op == "append" || j.op == "prepend" {
			// The stored value is kept to at most 100 chunks: the handler writes the gets of all
			// its chunks before it reads any reply, which blocks for good once requests and
			// replies exceed the socket buffers (long keys, many chunks); that is not C16's business.
			lim := v
			if lim > 100*p {
				lim = 100 * p
			}
			j.pre = rng.Intn(lim + 1)
			if rng.Intn(3) == 0 && v <= lim {
				// the joined value ends exactly where the stored one ended, or one byte later
				j.pre = v - rng.Intn(2)
				if j.pre < 0 {
					j.pre = 0
				}
			}
		}
		jobs = append(jobs, j)
	}
	around := func(k int, ns ...int) {
		p := geomPayload(k)
		for _, n := range ns {
			for d := -1; d <= 1; d++ {
				add(k, n*p+d)
			}
		}
	}
	for k := 1; k <= geomMaxKey; k++ {
		p := geomPayload(k)
		add(k, 0)
		add(k, 1)
		around(k, 1, 2, 3, 10)
		add(k, 998*p+1) // the shortest value of 999 chunks
		around(k, geomMaxChunks)
		// rewriting the metadata entry of a stored value
		jobs = append(jobs, geomJob{id: len(jobs), op: []string{"touch", "gat"}[rng.Intn(2)], k: k, v: p + rng.Intn(2*p), pre: 0})
	}
	if thorough {
		// every boundary 1..999 for 10 key lengths (40 million store requests for 25 of them would
		// take the whole budget), every boundary 1..120 for 15 more
		full := map[int]bool{1: true, 2: true, 9: true, 10: true, 99: true, 100: true, 249: true, 250: true}
		for len(full) < 10 {
			full[1+rng.Intn(geomMaxKey)] = true
		}
		part := map[int]bool{}
		for len(part) < 15 {
			if k := 1 + rng.Intn(geomMaxKey); !full[k] {
				part[k] = true
			}
		}
		var kl []int
		for k := range full {
			kl = append(kl, k)
		}
		for k := range part {
			kl = append(kl, k)
		}
		sort.Ints(kl)
		for _, k := range kl {
			top := geomMaxChunks
			if part[k] {
				top = 120
			}
			for n := 1; n <= top; n++ {
				around(k, n)
			}
		}
		for i := 0; i < 2000; i++ {
			k := 1 + rng.Intn(geomMaxKey)
			add(k, rng.Intn(geomMaxChunks*geomPayload(k)+1))
		}
		for _, k := range []int{1, geomMaxKey, 2 + rng.Intn(geomMaxKey-2)} {
			for v := 0; v <= 3*geomPayload(k)+2; v++ {
				add(k, v)
			}
		}
	}

	// value bytes: slices of one random pool (capacity capped, the handler may append to them)
	pool := make([]byte, geomMaxChunks*geomPayload(1)+4096)
	rng.Read(pool)
	value := func(r *rand.Rand, n int) []byte {
		off := r.Intn(4096)
		return pool[off : off+n : off+n]
	}

	nw := a.Workers
	if nw < 1 {
		nw = 1
	}
	if nw > 12 {
		nw = 12
	}
	results := make([][]map[string]interface{}, len(jobs))
	var next, nerr, ntimeout, nskipped int64
	var wg sync.WaitGroup
	for wi := 0; wi < nw; wi++ {
		wg.Add(1)
		go func(wi int) {
			defer wg.Done()
			w := &geomWorker{st: fakemc.New(fmt.Sprintf("geom%d", wi), &fakemc.Clock{}), path: filepath.Join(a.Dir, fmt.Sprintf("geom%d.sock", wi))}
			must(w.st.ListenUnix(w.path))
			w.st.SetLogging(true)
			w.dial()
			for {
				ji := int(atomic.AddInt64(&next, 1)) - 1
				if ji >= len(jobs) {
					break
				}
				j := jobs[ji]
				if atomic.LoadInt64(&nerr) > 50 {
					// the handler fails over and over: enough has been recorded
					atomic.AddInt64(&nskipped, 1)
					results[ji] = []map[string]interface{}{{"ev": "skipped", "id": j.id}}
					continue
				}
				r := rand.New(rand.NewSource(a.Seed*1000003 + int64(j.id)))
				kb := make([]byte, j.k)
				for i := range kb {
					kb[i] = geomKeyAlphabet[r.Intn(len(geomKeyAlphabet))]
				}
				key := string(kb)
				step := 0
				// call runs one handler call and records the store requests it caused
				call := func(op string, vlen int, f func() error) bool {
					dl := 20 * time.Second
					if atomic.LoadInt64(&ntimeout) >= 4 {
						dl = 2 * time.Second
					}
					t0 := time.Now()
					w.conn.SetDeadline(t0.Add(dl))
					err := func() (err error) {
						// the handler dereferences a nil response header when a backend read fails
						defer func() {
							if r := recover(); r != nil {
								err = fmt.Errorf("panic: %v", r)
							}
						}()
						return f()
					}()
					es := ""
					if err != nil {
						es = err.Error()
					}
					log := w.st.TakeLog()
					results[ji] = append(results[ji], map[string]interface{}{"ev": "set", "id": j.id, "step": step, "op": op,
						"klen": j.k, "vlen": vlen, "err": es, "reqs": geomRuns(log, key), "meta": w.meta(key)})
					step++
					if err != nil {
						atomic.AddInt64(&nerr, 1)
						if ne, ok := err.(net.Error); (ok && ne.Timeout()) || time.Since(t0) >= dl {
							atomic.AddInt64(&ntimeout, 1)
						}
						// the connection may be out of step: start afresh
						w.dial()
						w.st.TakeLog()
						return false
					}
					return true
				}
				set := func(op string, n int) bool {
					req := common.SetRequest{Key: []byte(key), Data: value(r, n), Flags: r.Uint32(), Exptime: 0}
					return call(op, n, func() error {
						switch op {
						case "add":
							return w.h.Add(req)
						case "replace":
							return w.h.Replace(req)
						}
						return w.h.Set(req)
					})
				}
				switch j.op {
				case "set", "add":
					set(j.op, j.v)
				case "replace":
					if set("set", j.pre) {
						set("replace", j.v)
					}
				case "append", "prepend":
					if set("set", j.pre) {
						req := common.SetRequest{Key: []byte(key), Data: value(r, j.v-j.pre)}
						call(j.op, j.v, func() error {
							if j.op == "append" {
								return w.h.Append(req)
							}
							return w.h.Prepend(req)
						})
					}
				case "touch", "gat":
					if set("set", j.v) {
						call(j.op, j.v, func() error {
							if j.op == "touch" {
								return w.h.Touch(common.TouchRequest{Key: []byte(key), Exptime: 3600})
							}
							res, err := w.h.GAT(common.GATRequest{Key: []byte(key), Exptime: 3600})
							if err == nil && (res.Miss || len(res.Data) != j.v) {
								return fmt.Errorf("gat: miss=%v, %d bytes of %d", res.Miss, len(res.Data), j.v)
							}
							return err
						})
					}
				}
				w.st.Clear()
				w.st.TakeLog()
			}
			w.conn.Close()
			if w.probe != nil {
				w.probe.Close()
			}
		}(wi)
	}
	wg.Wait()
	nev := 0
	ops := map[string]int{}
	for _, evs := range results {
		for _, ev := range evs {
			rec.Emit(ev)
			nev++
			if op, ok := ev["op"].(string); ok {
				ops[op]++
			}
		}
	}
	sum, _ := json.Marshal(map[string]interface{}{"jobs": len(jobs), "events": nev, "errors": nerr, "timeouts": ntimeout,
		"skipped": nskipped, "workers": nw, "ops": ops})
	fmt.Println(string(sum))
}
