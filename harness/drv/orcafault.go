package drv

import (
	"encoding/json"
	"fmt"
	"os"
	"time"

	"verif/harness/absx"
	"verif/harness/fakemc"
	"verif/harness/stack"
	"verif/harness/wire"
)

func init() { Drivers["orca-fault"] = OrcaFault }

// FaultScenario: from the pre-state, run Cmd on Port with every single backend fault.
type FaultScenario struct {
	ID   int    `json:"id"`
	Pre  string `json:"pre"` // empty | both | l2only | l1stale
	Port string `json:"port"`
	Cmd  MCmd   `json:"cmd"`
}

type faultKind struct {
	Name   string
	F      fakemc.Fault
	Class  string
	Status uint16
}

func faultKinds(thorough bool) []faultKind {
	ks := []faultKind{
		{Name: "status:enomem", F: fakemc.Fault{Kind: "status", Status: fakemc.StNoMem}, Class: "status"},
		{Name: "status:busy", F: fakemc.Fault{Kind: "status", Status: fakemc.StBusy}, Class: "status"},
		// "too large": the one refusal a tier with a smaller item limit gives in normal operation
		{Name: "status:toobig", F: fakemc.Fault{Kind: "status", Status: fakemc.StTooBig}, Class: "status"},
		{Name: "close_before", F: fakemc.Fault{Kind: "close_before"}, Class: "close_before"},
		{Name: "close_after", F: fakemc.Fault{Kind: "close_after"}, Class: "close_after"},
		{Name: "close_mid:12", F: fakemc.Fault{Kind: "close_mid", Cut: 12}, Class: "close_mid"},
	}
	if thorough {
		// every memcached ERROR status. "Not found", "exists" and "not stored" are not in the list: they are
		// ordinary outcomes, a backend that gives them out of place is lying about its contents (no proxy can
		// tell a false "not found" from a true one), which is not the fault model of C10
		for _, st := range []uint16{fakemc.StInval, fakemc.StUnknown, fakemc.StNotSupported, fakemc.StInternal, fakemc.StTemp, 0x06, 0x20} {
			ks = append(ks, faultKind{Name: fmt.Sprintf("status:%#x", st), F: fakemc.Fault{Kind: "status", Status: st}, Class: "status"})
		}
		for _, cut := range []int{0, 1, 23, 24, 25, 30, 1000000} {
			ks = append(ks, faultKind{Name: fmt.Sprintf("close_mid:%d", cut), F: fakemc.Fault{Kind: "close_mid", Cut: cut}, Class: "close_mid"})
		}
	}
	return ks
}

// OrcaFault enumerates, for every scenario, every backend request index on L1 and on L2 and every
// fault kind; each placement is executed on the real stack and recorded.
func OrcaFault(a Args) {
	rec, err := NewRec(a.Out)
	must(err)
	defer rec.Close()
	var scs []FaultScenario
	b, err := os.ReadFile(a.In)
	must(err)
	must(json.Unmarshal(b, &scs))
	st, err := stack.Build(a.Cfg, a.Dir, nil)
	must(err)
	text := a.Proto == "text"
	keys := []string{"k1", "k2"}
	w := absx.NewWorld(a.Seed, nil, text)
	kl := 0
	for _, k := range keys {
		if n := len(w.Key(k)); n > kl {
			kl = n
		}
	}
	w = reworld(w, sizesFor(a.Sizes, kl))
	kinds := faultKinds(a.Mode == "thorough")
	ports := a.Cfg.Ports()
	e9 := stack.MEntry{V: []int{9}, F: 1, E: absx.Inf}
	e8 := stack.MEntry{V: []int{8}, F: 2, E: absx.Inf}
	if a.Sizes == "chunk" {
		// behind the chunked handler the pre-loaded values span several chunks (three and two): per-chunk
		// requests are where a fault can strike in the middle of one command
		p := sizesFor(a.Sizes, kl)[2]
		pick := func(lo, hi int, def int) int {
			for id := 20; id < 60; id++ {
				if n := len(w.Block(id)); n > lo && n <= hi {
					return id
				}
			}
			return def
		}
		e9.V = []int{pick(2*p, 3*p, 9)}
		e8.V = []int{pick(p, 2*p, 8)}
	}
	pre := func(kind string) (stack.MMap, stack.MMap) {
		switch kind {
		case "both":
			return stack.MMap{"k1": e9, "k2": e8}, stack.MMap{"k1": e9, "k2": e8}
		case "l2only":
			return stack.MMap{}, stack.MMap{"k1": e9, "k2": e8}
		}
		return stack.MMap{}, stack.MMap{}
	}
	// a pooled (batched) tier re-submits requests after a lost connection: at-least-once semantics
	retry := 0
	if a.Cfg.L1 == "batched" || a.Cfg.L2 == "batched" {
		retry = 3
	}
	hangs, nplace := 0, 0
	timeout := 4 * time.Second
	dial := func(port string) *wire.Client {
		c, err := wire.Dial(st.Socks[port], text)
		must(err)
		c.Timeout = timeout
		return c
	}
	opq := uint32(0)
	do := func(cl *wire.Client, c MCmd) ([]interface{}, wire.Outcome) {
		opq += 16
		o := cl.Do(Concretise(w, c, opq))
		return Abstract(w, c, o), o
	}
	stores := map[string]*fakemc.Store{"l1": st.L1}
	if st.L2 != nil {
		stores["l2"] = st.L2
	}
	tiers := func() (interface{}, interface{}) {
		l1, l2 := st.Project(w, keys)
		return tierJSON(l1), tierJSON(l2)
	}
	for _, sc := range scs {
		if text && (sc.Cmd.Op == "gat" || len(sc.Cmd.Quiet) > 0) {
			continue
		}
		m1, m2 := pre(sc.Pre)
		if st.L2 == nil {
			m1 = m2
		}
		// dry run: how many backend requests does the command issue on each tier
		must(st.Load(w, m1, m2, 0, keys))
		for _, s := range stores {
			s.Arm()
		}
		cl := dial(sc.Port)
		do(cl, sc.Cmd)
		cl.Close()
		counts := map[string]int{}
		for t, s := range stores {
			counts[t] = s.Requests()
		}
		for _, tier := range []string{"l1", "l2"} {
			s, ok := stores[tier]
			if !ok {
				continue
			}
			for n := 0; n < counts[tier]; n++ {
				for _, fk := range kinds {
					if hangs >= 3 {
						fmt.Printf("{\"placements\": %d, \"hangs\": %d, \"stopped\": true}\n", nplace, hangs)
						return
					}
					nplace++
					must(st.Load(w, m1, m2, 0, keys))
					for _, x := range stores {
						x.Arm()
					}
					f := fk.F
					f.N = n
					s.Arm(f)
					l1j, l2j := tiers()
					rec.Emit(map[string]interface{}{"ev": "reset", "cfg": a.Cfg.String(), "proto": a.Proto, "twotier": st.L2 != nil,
						"scenario": sc.ID, "trace": nplace, "seed": a.Seed, "sizes": a.Sizes, "retry": retry})
					rec.Emit(map[string]interface{}{"ev": "init", "l1": l1j, "l2": l2j})
					fault := map[string]interface{}{"tier": tier, "n": n, "kind": fk.Name, "class": fk.Class, "op": sc.Cmd.Op, "port": sc.Port, "pre": sc.Pre, "of": counts[tier]}
					rec.Emit(map[string]interface{}{"ev": "fault", "fault": fault})
					// the affected request
					ca := dial(sc.Port)
					t0 := time.Now()
					res, out := do(ca, sc.Cmd)
					el := time.Since(t0)
					l1j, l2j = tiers()
					ev := map[string]interface{}{"ev": "op", "port": sc.Port, "x": xJSON(sc.Cmd), "res": res, "l1": l1j, "l2": l2j,
						"fault": fault, "ms": el.Milliseconds(), "role": "affected"}
					if len(out.Anomalies) > 0 {
						ev["anomalies"] = out.Anomalies
					}
					rec.Emit(ev)
					if out.Class == "timeout" {
						hangs++
					}
					// the same connection again, if the server left it open
					if !out.Closed && out.Class != "timeout" && out.Class != "malformed" {
						g := MCmd{Op: "get", K: sc.Cmd.firstKey()}
						res, out = do(ca, g)
						l1j, l2j = tiers()
						rec.Emit(map[string]interface{}{"ev": "op", "port": sc.Port, "x": xJSON(g), "res": res, "l1": l1j, "l2": l2j, "fault": fault, "role": "same-conn"})
						if out.Class == "timeout" {
							hangs++
						}
					}
					ca.Close()
					s.Arm() // no more faults
					// thorough: one more write on the key through a fresh connection (what a client that saw the
					// error does next), rotating over command and port - the depth at which the design model
					// shows its half-applied deletes and refused adds
					if a.Mode == "thorough" {
						fw := []MCmd{{Op: "delete", K: sc.Cmd.firstKey()}, {Op: "add", K: sc.Cmd.firstKey(), V: []int{6}, F: 2},
							{Op: "append", K: sc.Cmd.firstKey(), V: []int{7}}, {Op: "set", K: sc.Cmd.firstKey(), V: []int{5}, F: 1},
							{Op: "touch", K: sc.Cmd.firstKey(), T: 3}, {Op: "replace", K: sc.Cmd.firstKey(), V: []int{4}, F: 3}}[nplace%6]
						if !(text && fw.Op == "gat") {
							p := ports[(nplace/6)%len(ports)]
							cw := dial(p)
							res, out = do(cw, fw)
							l1j, l2j = tiers()
							rec.Emit(map[string]interface{}{"ev": "op", "port": p, "x": xJSON(fw), "res": res, "l1": l1j, "l2": l2j, "fault": fault, "role": "followup-write"})
							if out.Class == "timeout" {
								hangs++
							}
							cw.Close()
						}
					}
					// other connections: every key on every port, then again with L1 emptied
					for round := 0; round < 2; round++ {
						for _, p := range ports {
							cb := dial(p)
							for _, k := range keys {
								g := MCmd{Op: "get", K: k}
								res, out = do(cb, g)
								l1j, l2j = tiers()
								rec.Emit(map[string]interface{}{"ev": "op", "port": p, "x": xJSON(g), "res": res, "l1": l1j, "l2": l2j, "fault": fault,
									"role": fmt.Sprintf("other-conn-%d", round)})
								if out.Class == "timeout" {
									hangs++
								}
							}
							cb.Close()
						}
						if st.L2 == nil {
							break
						}
						for _, k := range keys {
							st.EvictL1(w, k)
						}
						l1j, l2j = tiers()
						rec.Emit(map[string]interface{}{"ev": "evict", "keys": keys, "l1": l1j, "l2": l2j})
					}
				}
			}
		}
	}
	fmt.Printf("{\"placements\": %d, \"hangs\": %d, \"stopped\": false}\n", nplace, hangs)
}

func (c MCmd) firstKey() string {
	if c.K != "" {
		return c.K
	}
	if len(c.Keys) > 0 {
		return c.Keys[0]
	}
	return "k1"
}
