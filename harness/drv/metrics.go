package drv

// Driver "metrics" (property C18): drives rend's metrics package through its public API and
// the real /metrics HTTP handler and records what was done and what was reported.
//
//   -out F      ndjson trace for spec/MetricsTrace.tla (every integer below 2^31: observed
//               values are replaced by their rank among the values of the event, which keeps
//               order and equality - all the trace specification looks at)
//   F.side.json raw values of every event (same numbering as the trace lines), every
//               (n, bucket, bound) and (x, lzcnt) pair including the 64-bit ones, the tables of
//               the linked binary, a counter incremented by 64-bit amounts
//   -n rounds of random multisets, -len largest multiset, -mode quick|thorough, -seed
//
// Nothing is judged here: the verdicts come from TLC / Apalache / tools/metrics.py.

import (
	"bufio"
	"encoding/json"
	"fmt"
	"math"
	"math/bits"
	"math/rand"
	"net/http"
	"net/http/httptest"
	"os"
	"runtime"
	"sort"
	"strconv"
	"strings"
	"sync"
	"sync/atomic"
	"time"

	"github.com/netflix/rend/metrics"
)

func init() { Drivers["metrics"] = Metrics }

// ---------------------------------------------------------------------------------------------
// reading /metrics

type mtHist struct {
	Count, Kept uint64
	HasCount    bool
	Pcts        [23]uint64
	Have        [23]bool
	NoPcts      bool
}

type mtSnap struct {
	hists  map[string]*mtHist
	bhists map[string]map[int]uint64
	ints   map[string]uint64 // counters and integer gauges by name
}

func mtPctIndex(stat string) int {
	if !strings.HasPrefix(stat, "percentile") {
		return -1
	}
	s := stat[len("percentile"):]
	if s == "99" {
		return 21
	}
	if s == "99.9" {
		return 22
	}
	v, err := strconv.Atoi(s)
	if err != nil || v%5 != 0 || v < 0 || v > 100 {
		return -1
	}
	return v / 5
}

// mtFetch calls the handler registered by metrics/endpoint.go; this ends the reporting period
// of every histogram of the process.
func mtFetch() *mtSnap {
	rr := httptest.NewRecorder()
	http.DefaultServeMux.ServeHTTP(rr, httptest.NewRequest("GET", "/metrics", nil))
	if rr.Code != 200 {
		must(fmt.Errorf("/metrics answered %d", rr.Code))
	}
	sn := &mtSnap{hists: map[string]*mtHist{}, bhists: map[string]map[int]uint64{}, ints: map[string]uint64{}}
	sc := bufio.NewScanner(rr.Body)
	sc.Buffer(make([]byte, 1<<20), 1<<20)
	for sc.Scan() {
		line := sc.Text()
		sp := strings.LastIndexByte(line, ' ')
		if sp < 0 {
			continue
		}
		parts := strings.Split(line[:sp], "|")
		name := parts[0]
		if !strings.HasPrefix(name, "vf") && !strings.HasPrefix(name, "hist_vf") && !strings.HasPrefix(name, "bhist_vf") {
			continue
		}
		tags := map[string]string{}
		for _, p := range parts[1:] {
			if i := strings.IndexByte(p, '*'); i >= 0 {
				tags[p[:i]] = p[i+1:]
			}
		}
		if tags["dataType"] != "uint64" {
			continue
		}
		v, err := strconv.ParseUint(line[sp+1:], 10, 64)
		if err != nil {
			must(fmt.Errorf("unparsable metric line %q", line))
		}
		switch {
		case strings.HasPrefix(name, "hist_"):
			h := sn.hists[name[5:]]
			if h == nil {
				h = &mtHist{}
				sn.hists[name[5:]] = h
			}
			st := tags["statistic"]
			if st == "count" {
				h.Count, h.HasCount = v, true
			} else if st == "kept" {
				h.Kept = v
			} else if i := mtPctIndex(st); i >= 0 {
				h.Pcts[i], h.Have[i] = v, true
			}
		case strings.HasPrefix(name, "bhist_"):
			b := sn.bhists[name[6:]]
			if b == nil {
				b = map[int]uint64{}
				sn.bhists[name[6:]] = b
			}
			var idx int
			if _, err := fmt.Sscanf(tags["percentile"], "T%04X", &idx); err != nil {
				must(fmt.Errorf("unparsable bucket tag in %q", line))
			}
			b[idx] = v
		default:
			sn.ints[name] = v
		}
	}
	return sn
}

func (s *mtSnap) hist(name string) *mtHist {
	h := s.hists[name]
	if h == nil || !h.HasCount {
		must(fmt.Errorf("histogram %s has no count line in /metrics", name))
	}
	if h.Count > 0 {
		// all percentile lines, or none at all (nothing was kept to compute them from)
		n := 0
		for _, ok := range h.Have {
			if ok {
				n++
			}
		}
		if n != 0 && n != len(h.Have) {
			must(fmt.Errorf("histogram %s: %d of %d percentile lines", name, n, len(h.Have)))
		}
		h.NoPcts = n == 0
	}
	return h
}

// ---------------------------------------------------------------------------------------------
// rank compression

type mtRanker struct{ vals []uint64 }

func (r *mtRanker) add(vs ...uint64) { r.vals = append(r.vals, vs...) }
func (r *mtRanker) seal() {
	sort.Slice(r.vals, func(i, j int) bool { return r.vals[i] < r.vals[j] })
	out := r.vals[:0]
	for i, v := range r.vals {
		if i == 0 || v != r.vals[i-1] {
			out = append(out, v)
		}
	}
	r.vals = out
}
func (r *mtRanker) rank(v uint64) int {
	return sort.Search(len(r.vals), func(i int) bool { return r.vals[i] >= v })
}

func mtReportJSON(h *mtHist, rk *mtRanker) map[string]interface{} {
	if h.Count == 0 {
		return map[string]interface{}{"count": 0, "kept": 0, "min": 0, "max": 0, "pcts": []int{}}
	}
	if h.NoPcts {
		return map[string]interface{}{"count": h.Count, "kept": h.Kept, "min": 0, "max": 0, "pcts": []int{}}
	}
	p := make([]int, 23)
	for i, v := range h.Pcts {
		p[i] = rk.rank(v)
	}
	return map[string]interface{}{"count": h.Count, "kept": h.Kept, "min": p[0], "max": p[20], "pcts": p}
}

func mtReportRaw(h *mtHist) map[string]interface{} {
	if h.Count == 0 {
		return map[string]interface{}{"count": 0}
	}
	return map[string]interface{}{"count": h.Count, "kept": h.Kept, "min": h.Pcts[0], "max": h.Pcts[20], "pcts": h.Pcts[:]}
}

func mtMin(v []uint64) uint64 {
	var r uint64 = math.MaxUint64
	for _, x := range v {
		if x < r {
			r = x
		}
	}
	return r
}

func mtMax(v []uint64) uint64 {
	var r uint64
	for _, x := range v {
		if x > r {
			r = x
		}
	}
	return r
}

func mtHead(v []uint64, n int) []uint64 {
	if v == nil {
		return []uint64{}
	}
	if len(v) > n {
		return v[:n]
	}
	return v
}

// ---------------------------------------------------------------------------------------------
// value generators

const mtMax63 = uint64(1)<<63 - 1

// mtLogUniform: random magnitude first, then a random value of that magnitude, at most 2^63-1.
func mtLogUniform(rng *rand.Rand, maxBits int) uint64 {
	b := rng.Intn(maxBits + 1)
	if b == 0 {
		return 0
	}
	v := uint64(1)<<uint(b-1) | (rng.Uint64() & (uint64(1)<<uint(b-1) - 1))
	return v
}

func mtBoundaryValues(tab []int64) []uint64 {
	seen := map[uint64]bool{}
	var out []uint64
	add := func(v uint64) {
		if v <= mtMax63 && !seen[v] {
			seen[v] = true
			out = append(out, v)
		}
	}
	for v := uint64(0); v <= 70; v++ {
		add(v)
	}
	for _, t := range tab {
		u := uint64(t)
		add(u - 1)
		add(u)
		add(u + 1)
		add(u - 2)
		add(u + 2)
	}
	for k := uint(0); k < 63; k++ {
		p := uint64(1) << k
		add(p - 1)
		add(p)
		add(p + 1)
		// the last values of a power-of-4 block fall past the ninth third
		add(p - 2)
		add(p - 3)
		add(p - 4)
	}
	add(mtMax63)
	add(mtMax63 - 1)
	sort.Slice(out, func(i, j int) bool { return out[i] < out[j] })
	return out
}

// mtMultiset produces n observations following one of several magnitude profiles.
func mtMultiset(rng *rand.Rand, n int, bnd []uint64) ([]uint64, string) {
	out := make([]uint64, n)
	prof := []string{"tiny", "small", "wide", "boundary", "const", "zeros", "pow2", "mixed"}[rng.Intn(8)]
	c := mtLogUniform(rng, 63)
	for i := range out {
		switch prof {
		case "tiny":
			out[i] = uint64(rng.Intn(4))
		case "small":
			out[i] = uint64(1 + rng.Intn(1000))
		case "wide":
			out[i] = mtLogUniform(rng, 63)
		case "boundary":
			out[i] = bnd[rng.Intn(len(bnd))]
		case "const":
			out[i] = c
		case "zeros":
			if rng.Intn(3) > 0 {
				out[i] = 0
			} else {
				out[i] = mtLogUniform(rng, 20)
			}
		case "pow2":
			out[i] = uint64(1) << uint(rng.Intn(63))
		default:
			if rng.Intn(2) == 0 {
				out[i] = uint64(rng.Intn(100))
			} else {
				out[i] = mtLogUniform(rng, 63)
			}
		}
	}
	return out, prof
}

// ---------------------------------------------------------------------------------------------

type mtSide struct {
	Raw        []interface{}          `json:"raw"`
	Buckets    [][3]interface{}       `json:"buckets"` // n, bucket, bound (-1: index outside the table)
	Lz         [][3]uint64            `json:"lz"`      // x, linked routine, math/bits
	BigCounter map[string]interface{} `json:"bigcounter"`
	Tables     map[string]interface{} `json:"tables"`
	BufLen     int                    `json:"buflen"`
	Arch       string                 `json:"arch"`
	Stats      map[string]int         `json:"stats"`
}

type mtRun struct {
	rec  *Rec
	side *mtSide
	rng  *rand.Rand
	tag  string
	nh   int
}

func (m *mtRun) emit(ev map[string]interface{}, raw interface{}) {
	m.rec.Emit(ev)
	m.side.Raw = append(m.side.Raw, raw)
}

func (m *mtRun) newHist(sampled bool) (uint32, string) {
	m.nh++
	name := fmt.Sprintf("vf%s_%d", m.tag, m.nh)
	return metrics.AddHistogram(name, sampled, metrics.Tags{"vfk": "v"}), name
}

type mtH struct {
	id      uint32
	name    string
	sampled bool
	period  int
}

// one round: a multiset per histogram (or none), one fetch, one event per histogram
func (m *mtRun) seqRound(hs []*mtH, sets [][]uint64, profs []string) {
	for i, h := range hs {
		for _, v := range sets[i] {
			metrics.ObserveHist(h.id, v)
		}
	}
	sn := mtFetch()
	for i, h := range hs {
		rep := sn.hist(h.name)
		rk := &mtRanker{}
		rk.add(sets[i]...)
		if rep.Count > 0 {
			rk.add(rep.Pcts[:]...)
		}
		rk.seal()
		obs := make([]int, len(sets[i]))
		for j, v := range sets[i] {
			obs[j] = rk.rank(v)
		}
		m.emit(map[string]interface{}{"ev": "hist", "h": h.name, "sampled": h.sampled, "period": h.period,
			"nobs": len(obs), "obs": obs, "report": mtReportJSON(rep, rk)},
			map[string]interface{}{"ev": "hist", "h": h.name, "sampled": h.sampled, "period": h.period, "profile": profs[i],
				"nobs": len(obs), "obs_head": mtHead(sets[i], 24), "obs_min": mtMin(sets[i]), "obs_max": mtMax(sets[i]), "report": mtReportRaw(rep)})
		h.period++
		m.side.Stats["hist_events"]++
		m.side.Stats["observations"] += len(obs)
	}
}

func (m *mtRun) sequential(rounds, maxLen int, thorough bool, bnd []uint64) {
	var hs []*mtH
	for i := 0; i < 6; i++ {
		sampled := i >= 4
		id, name := m.newHist(sampled)
		hs = append(hs, &mtH{id: id, name: name, sampled: sampled})
	}
	buf := metrics.VerifHistBufLen()
	// fixed sizes: the smallest, around the 5% steps, around the ring size, the largest
	fixed := []int{1, 1, 2, 3, 4, 5, 7, 8, 9, 19, 20, 21, 39, 40, 41, 99, 100, 101, 199, 200, 999, 1000, 1001,
		buf - 1, buf, buf + 1, 2 * buf, 2*buf + 1, maxLen}
	if thorough {
		fixed = append(fixed, buf-2, buf+2, 3*buf-1, 4*buf, 4*buf+3, maxLen-1, 6, 10, 11, 12, 13, 14, 15, 16, 17, 18)
	}
	sizes := append([]int{}, fixed...)
	for len(sizes) < len(fixed)+rounds*4 {
		switch m.rng.Intn(4) {
		case 0:
			sizes = append(sizes, 1+m.rng.Intn(8))
		case 1:
			sizes = append(sizes, 1+m.rng.Intn(120))
		case 2:
			sizes = append(sizes, 1+m.rng.Intn(3000))
		default:
			sizes = append(sizes, 1+int(mtLogUniform(m.rng, 17))%maxLen)
		}
	}
	// every histogram sees a sequence of periods of different sizes (a swapped-in buffer holds
	// what was observed two periods earlier); the first observation ever is a single one
	k := 0
	for k < len(sizes) {
		sets := make([][]uint64, len(hs))
		profs := make([]string, len(hs))
		for i := range hs {
			if k >= len(sizes) || (hs[i].period > 0 && m.rng.Intn(9) == 0) {
				profs[i] = "none"
				continue // an empty period
			}
			n := 1
			if hs[i].period > 0 {
				n = sizes[k]
				k++
			}
			if n > maxLen {
				n = maxLen
			}
			sets[i], profs[i] = mtMultiset(m.rng, n, bnd)
			if hs[i].period == 0 {
				sets[i][0] = 100
			}
		}
		m.seqRound(hs, sets, profs)
	}
	// a final empty period for everybody
	m.seqRound(hs, make([][]uint64, len(hs)), make([]string, len(hs)))
}

// concurrent observers and a polling reader on one histogram; counters incremented alongside
// mtReadFast ends the period through the verif export of the handler's histogram part (no text
// formatting: two orders of magnitude more periods per second than /metrics).
func mtReadFast(name string) *mtHist {
	h := &mtHist{}
	full := "hist_" + name
	for _, im := range metrics.VerifReadHistograms() {
		if im.Name != full {
			continue
		}
		st := im.Tgs["statistic"]
		if st == "count" {
			h.Count, h.HasCount = im.Val, true
		} else if st == "kept" {
			h.Kept = im.Val
		} else if i := mtPctIndex(st); i >= 0 {
			h.Pcts[i], h.Have[i] = im.Val, true
		}
	}
	if !h.HasCount {
		must(fmt.Errorf("histogram %s missing from getAllHistograms", name))
	}
	return h
}

// concurrent observers and a polling reader on one histogram; a counter incremented alongside.
// mode "http": the reader polls /metrics; "slow": the same with observers that pause, so that a
// period holds a handful of observations; "fast": observers at full speed against a reader that
// ends periods as fast as it can (many swaps hit an ObserveHist in flight).
// Every observation is bracketed: lo = fetches completed before it started, hi = fetches started
// before it returned; it belongs to one of the periods lo..hi.
func (m *mtRun) concurrent(round, observers, perObserver int, mode string) {
	id, name := m.newHist(false)
	cname := fmt.Sprintf("vfc%s_%d", m.tag, round)
	cid := metrics.AddCounter(cname, metrics.Tags{"vfk": "v"})
	var started, completed int64 // fetches
	type ob struct {
		v      uint64
		lo, hi int64
	}
	logs := make([][]ob, observers)
	incs := make([][]int, observers)
	var wg sync.WaitGroup
	for o := 0; o < observers; o++ {
		seed := m.rng.Int63()
		logs[o] = make([]ob, 0, perObserver)
		wg.Add(1)
		go func(o int) {
			defer wg.Done()
			rng := rand.New(rand.NewSource(seed))
			for i := 0; i < perObserver; i++ {
				var v uint64
				switch i % 3 {
				case 0:
					v = 1 + uint64(rng.Intn(50))
				case 1:
					v = 1 + mtLogUniform(rng, 62)
				default:
					v = uint64(1000*(o+1) + i%7)
				}
				lo := atomic.LoadInt64(&completed)
				metrics.ObserveHist(id, v)
				hi := atomic.LoadInt64(&started)
				logs[o] = append(logs[o], ob{v, lo, hi})
				if mode == "fast" && i%64 != 0 {
					continue
				}
				if rng.Intn(2) == 0 {
					metrics.IncCounter(cid)
					incs[o] = append(incs[o], 1)
				} else {
					a := 1 + rng.Intn(500)
					metrics.IncCounterBy(cid, uint64(a))
					incs[o] = append(incs[o], a)
				}
				if mode == "slow" {
					time.Sleep(time.Duration(500+rng.Intn(6000)) * time.Microsecond)
					continue
				}
				switch rng.Intn(24) {
				case 0:
					time.Sleep(time.Duration(rng.Intn(600)) * time.Microsecond)
				case 1, 2, 3:
					runtime.Gosched()
				}
			}
		}(o)
	}
	done := make(chan struct{})
	go func() { wg.Wait(); close(done) }()
	var reps []*mtHist
	var polled []uint64
	fetch := func() {
		atomic.AddInt64(&started, 1)
		if mode == "fast" {
			reps = append(reps, mtReadFast(name))
		} else {
			sn := mtFetch()
			reps = append(reps, sn.hist(name))
			polled = append(polled, sn.ints[cname])
		}
		atomic.AddInt64(&completed, 1)
	}
	running := true
	for running {
		select {
		case <-done:
			running = false
		default:
			fetch()
			if mode == "fast" {
				// a reader that never pauses starves the observers (sync.RWMutex prefers the
				// writer): mix back-to-back swaps with short pauses
				if len(reps) > 6000 {
					<-done // enough periods
					running = false
				} else if m.rng.Intn(3) == 0 {
					time.Sleep(time.Duration(m.rng.Intn(150)) * time.Microsecond)
				}
			}
		}
	}
	fetch() // what was left
	fetch() // must be empty
	polled = append(polled, mtFetch().ints[cname])
	rk := &mtRanker{}
	for _, l := range logs {
		for _, x := range l {
			rk.add(x.v)
		}
	}
	for _, r := range reps {
		if r.Count > 0 {
			rk.add(r.Pcts[:]...)
		}
	}
	rk.seal()
	// observations with a bracket of at most 3 periods grouped by lo: bylo[lo] = [[value, hi], ...];
	// the others (the goroutine was descheduled inside the bracket): wide = [[value, lo, hi], ...]
	bylo := make([][][2]int, len(reps))
	for i := range bylo {
		bylo[i] = [][2]int{}
	}
	wide := [][3]int{}
	var allincs []int
	nobs, w := 0, 0
	for o, l := range logs {
		for _, x := range l {
			if int(x.hi) >= len(reps) || x.lo > x.hi {
				must(fmt.Errorf("observation bracket %d..%d, %d reports", x.lo, x.hi, len(reps)))
			}
			if x.hi-x.lo <= 2 {
				bylo[x.lo] = append(bylo[x.lo], [2]int{rk.rank(x.v), int(x.hi)})
			} else {
				wide = append(wide, [3]int{rk.rank(x.v), int(x.lo), int(x.hi)})
			}
			if int(x.hi-x.lo) > w {
				w = int(x.hi - x.lo)
			}
			nobs++
		}
		allincs = append(allincs, incs[o]...)
	}
	m.side.Stats["increments"] += len(allincs)
	var rj, rraw []interface{}
	for _, r := range reps {
		rj = append(rj, mtReportJSON(r, rk))
		rraw = append(rraw, mtReportRaw(r))
	}
	m.emit(map[string]interface{}{"ev": "conc", "h": name, "mode": mode, "observers": observers, "nobs": nobs, "bylo": bylo, "wide": wide, "reports": rj},
		map[string]interface{}{"ev": "conc", "h": name, "mode": mode, "observers": observers, "nobs": nobs, "widest_bracket": w, "wide": len(wide), "reports": rraw})
	pol := make([]int, len(polled))
	for i, p := range polled {
		pol[i] = int(p)
	}
	m.emit(map[string]interface{}{"ev": "counter", "c": cname, "goroutines": observers, "incs": mtAgg(allincs), "reported": pol[len(pol)-1], "polled": pol},
		map[string]interface{}{"ev": "counter", "c": cname, "goroutines": observers, "nincs": len(allincs), "reported": polled[len(polled)-1]})
	m.side.Stats["conc_events"]++
	m.side.Stats["conc_reports"] += len(reps)
	m.side.Stats["observations"] += nobs
	m.side.Stats["counter_events"]++
}

// mtAgg renders a list of increments as the multiset [[amount, times], ...].
func mtAgg(incs []int) [][2]int {
	cnt := map[int]int{}
	for _, a := range incs {
		cnt[a]++
	}
	out := make([][2]int, 0, len(cnt))
	for a, k := range cnt {
		out = append(out, [2]int{a, k})
	}
	sort.Slice(out, func(i, j int) bool { return out[i][0] < out[j][0] })
	return out
}

// counters: sequential and many goroutines; integer gauges
func (m *mtRun) counters(n int) {
	for c := 0; c < n; c++ {
		cname := fmt.Sprintf("vfs%s_%d", m.tag, c)
		cid := metrics.AddCounter(cname, nil)
		g := []int{1, 2, 8, 32}[c%4]
		per := 1 + m.rng.Intn(2000)
		incs := make([][]int, g)
		var wg sync.WaitGroup
		for i := 0; i < g; i++ {
			seed := m.rng.Int63()
			wg.Add(1)
			go func(i int) {
				defer wg.Done()
				rng := rand.New(rand.NewSource(seed))
				for k := 0; k < per; k++ {
					if rng.Intn(2) == 0 {
						metrics.IncCounter(cid)
						incs[i] = append(incs[i], 1)
					} else {
						a := rng.Intn(300)
						metrics.IncCounterBy(cid, uint64(a))
						incs[i] = append(incs[i], a)
					}
				}
			}(i)
		}
		wg.Wait()
		var all []int
		for _, x := range incs {
			all = append(all, x...)
		}
		v := mtFetch().ints[cname]
		m.emit(map[string]interface{}{"ev": "counter", "c": cname, "goroutines": g, "incs": mtAgg(all), "reported": v, "polled": []int{int(v)}},
			map[string]interface{}{"ev": "counter", "c": cname, "goroutines": g, "nincs": len(all), "reported": v})
		m.side.Stats["counter_events"]++
		m.side.Stats["increments"] += len(all)
	}
	// a counter incremented by 64-bit amounts from several goroutines (compared outside TLC)
	cname := fmt.Sprintf("vfb%s", m.tag)
	cid := metrics.AddCounter(cname, nil)
	var amounts []uint64
	for i := 0; i < 64; i++ {
		amounts = append(amounts, mtLogUniform(m.rng, 62))
	}
	var wg sync.WaitGroup
	for i := 0; i < 8; i++ {
		wg.Add(1)
		go func(i int) {
			defer wg.Done()
			for k := i; k < len(amounts); k += 8 {
				metrics.IncCounterBy(cid, amounts[k])
			}
		}(i)
	}
	wg.Wait()
	m.side.BigCounter = map[string]interface{}{"incs": amounts, "reported": mtFetch().ints[cname]}
	// gauges report the last value set
	gname := fmt.Sprintf("vfg%s", m.tag)
	gid := metrics.AddIntGauge(gname, metrics.Tags{"vfk": "v"})
	for i := 0; i < 6; i++ {
		v := uint64(m.rng.Intn(1 << 30))
		metrics.SetIntGauge(gid, uint64(m.rng.Intn(1<<30)))
		metrics.SetIntGauge(gid, v)
		got := mtFetch().ints[gname]
		m.emit(map[string]interface{}{"ev": "gauge", "g": gname, "set": v, "reported": got},
			map[string]interface{}{"ev": "gauge", "g": gname, "set": v, "reported": got})
	}
}

// mtBucket is the real getBucket; -1 if it panics (an index outside powerOf4Index).
func mtBucket(n uint64) (b int64) {
	defer func() {
		if recover() != nil {
			b = -1
		}
	}()
	return int64(metrics.VerifGetBucket(n))
}

// the bucket a value is counted in: getBucket itself, and the per-bucket counters of /metrics
func (m *mtRun) buckets(nrandom int, bnd []uint64) {
	tab := metrics.VerifBucketValues()
	vals := append([]uint64{}, bnd...)
	for i := 0; i < nrandom; i++ {
		switch i % 3 {
		case 0:
			vals = append(vals, mtLogUniform(m.rng, 63))
		case 1:
			vals = append(vals, mtLogUniform(m.rng, 30))
		default:
			t := uint64(tab[m.rng.Intn(len(tab))])
			d := uint64(m.rng.Intn(9))
			if t+d-4 <= mtMax63 {
				vals = append(vals, t+d-4)
			}
		}
	}
	sort.Slice(vals, func(i, j int) bool { return vals[i] < vals[j] })
	var small [][3]int
	var last uint64 = math.MaxUint64
	for _, n := range vals {
		if n == last {
			continue
		}
		last = n
		b := mtBucket(n)
		var bound interface{} = -1
		if b >= 0 && b < int64(len(tab)) {
			bound = tab[b]
		}
		m.side.Buckets = append(m.side.Buckets, [3]interface{}{n, b, bound})
		if n < 1<<30 && b >= 0 && b < int64(len(tab)) && tab[b] < 1<<31 {
			small = append(small, [3]int{int(n), int(b), int(tab[b])})
		}
	}
	m.emit(map[string]interface{}{"ev": "buckets", "pairs": small}, map[string]interface{}{"ev": "buckets", "npairs": len(small)})
	m.side.Stats["bucket_pairs"] = len(m.side.Buckets)
	m.side.Stats["bucket_pairs_tlc"] = len(small)

	// ObserveHist counts an observation in bucket getBucket(value): sequential, then 8 goroutines
	id, name := m.newHist(false)
	var obsb []int
	obsv := make([]uint64, 0, 4000)
	for i := 0; i < 4000; i++ {
		if i%2 == 0 {
			obsv = append(obsv, bnd[m.rng.Intn(len(bnd))])
		} else {
			obsv = append(obsv, mtLogUniform(m.rng, 63))
		}
	}
	for _, v := range obsv[:2000] {
		metrics.ObserveHist(id, v)
	}
	var wg sync.WaitGroup
	for g := 0; g < 8; g++ {
		wg.Add(1)
		go func(g int) {
			defer wg.Done()
			for k := 2000 + g; k < len(obsv); k += 8 {
				metrics.ObserveHist(id, obsv[k])
			}
		}(g)
	}
	wg.Wait()
	for _, v := range obsv {
		obsb = append(obsb, int(mtBucket(v)))
	}
	got := mtFetch().bhists[name]
	idx := make([]int, 0, len(got))
	for b := range got {
		idx = append(idx, b)
	}
	sort.Ints(idx)
	counts := make([][2]int, 0, len(idx))
	for _, b := range idx {
		counts = append(counts, [2]int{b, int(got[b])})
	}
	m.emit(map[string]interface{}{"ev": "bhist", "h": name, "obsb": obsb, "counts": counts},
		map[string]interface{}{"ev": "bhist", "h": name, "nobs": len(obsb)})
}

func (m *mtRun) lzcnt(nrandom int) {
	var xs []uint64
	xs = append(xs, 0, math.MaxUint64, math.MaxUint64-1)
	for k := uint(0); k < 64; k++ {
		p := uint64(1) << k
		xs = append(xs, p, p-1, p+1, p|p>>1, ^p)
	}
	for i := 0; i < nrandom; i++ {
		if i%2 == 0 {
			xs = append(xs, m.rng.Uint64())
		} else {
			v := m.rng.Uint64() >> uint(m.rng.Intn(64))
			xs = append(xs, v)
		}
	}
	var small [][2]int
	seen := map[uint64]bool{}
	for _, x := range xs {
		if seen[x] {
			continue
		}
		seen[x] = true
		l := metrics.VerifLzcnt(x)
		m.side.Lz = append(m.side.Lz, [3]uint64{x, l, uint64(bits.LeadingZeros64(x))})
		if x < 1<<30 {
			small = append(small, [2]int{int(x), int(l)})
		}
	}
	m.emit(map[string]interface{}{"ev": "lz", "pairs": small}, map[string]interface{}{"ev": "lz", "npairs": len(small)})
	m.side.Stats["lz_pairs"] = len(m.side.Lz)
	m.side.Stats["lz_pairs_tlc"] = len(small)
}

// Metrics is the entry point of the driver.
func Metrics(a Args) {
	rec, err := NewRec(a.Out)
	must(err)
	defer rec.Close()
	thorough := a.Mode == "thorough"
	runtime.GC() // the /metrics handler indexes the GC pause ring: it needs one completed cycle
	m := &mtRun{rec: rec, rng: rand.New(rand.NewSource(a.Seed)), tag: fmt.Sprintf("%d", a.Seed),
		side: &mtSide{Stats: map[string]int{}, BufLen: metrics.VerifHistBufLen(), Arch: runtime.GOARCH}}
	tab := metrics.VerifBucketValues()
	m.side.Tables = map[string]interface{}{"bucketValues": tab, "powerOf4Index": metrics.VerifPowerOf4Index()}
	bnd := mtBoundaryValues(tab)
	maxLen := a.Len
	if maxLen < 10 {
		maxLen = 100000
	}
	m.sequential(a.N, maxLen, thorough, bnd)
	rounds, observers, per := 4, 4, 2000
	if thorough {
		rounds, observers, per = 16, 6, 4000
	}
	for r := 0; r < rounds; r++ {
		switch r % 4 {
		case 0:
			m.concurrent(r, observers, per, "http")
		case 1:
			m.concurrent(r, observers, per*10, "fast")
		case 2:
			m.concurrent(r, 3, per/20, "slow")
		default:
			m.concurrent(r, 2, per*10, "fast")
		}
	}
	nc := 8
	if thorough {
		nc = 40
	}
	m.counters(nc)
	nr := 400
	if thorough {
		nr = 6000
	}
	m.buckets(nr, bnd)
	m.lzcnt(nr * 5)
	f, err := os.Create(a.Out + ".side.json")
	must(err)
	must(json.NewEncoder(f).Encode(m.side))
	must(f.Close())
}
