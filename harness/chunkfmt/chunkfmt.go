// Package chunkfmt is the harness's independent reading of the layout the chunked handler
// uses in its backend (properties C04 and C16 name it: a metadata entry "<key>-meta" and numbered
// chunks "<key>-<i>", every chunk prefixed by the 16-byte token of the write that produced it).
// It only decodes raw entry tables of the fake backend; it never talks to the handler.
package chunkfmt

import (
	"bytes"
	"encoding/binary"
	"strconv"

	"verif/harness/fakemc"
)

const (
	TokenSize    = 16
	MetaSize     = 24 + TokenSize
	SlabBudget   = 1184
	ItemOverhead = 67
)

// Payload is the number of value bytes per chunk for a key of the given length.
func Payload(keylen int) int { return 1184 - 71 - keylen - TokenSize }

type Meta struct {
	Length, OrigFlags, NumChunks, ChunkSize, Instime, Exptime uint32
	Token                                                     [TokenSize]byte
}

func ParseMeta(b []byte) (Meta, bool) {
	if len(b) != MetaSize {
		return Meta{}, false
	}
	var m Meta
	m.Length = binary.BigEndian.Uint32(b[0:4])
	m.OrigFlags = binary.BigEndian.Uint32(b[4:8])
	m.NumChunks = binary.BigEndian.Uint32(b[8:12])
	m.ChunkSize = binary.BigEndian.Uint32(b[12:16])
	m.Instime = binary.BigEndian.Uint32(b[16:20])
	m.Exptime = binary.BigEndian.Uint32(b[20:24])
	copy(m.Token[:], b[24:])
	return m, true
}

func MetaKey(key []byte) string { return string(key) + "-meta" }
func ChunkKey(key []byte, i int) string {
	return string(key) + "-" + strconv.Itoa(i)
}

// View is what the backend table holds for one client key.
type View struct {
	Present  bool   // metadata entry exists (live)
	Complete bool   // every chunk 0..n-1 exists and carries the metadata's token
	Value    []byte // reassembled (only if Complete)
	Flags    uint32
	Exps     []int64 // expiry of the serving entries: metadata first, then chunks 0..n-1
	MetaExp  uint32  // the expiry recorded inside the metadata record
	N        int
	Problems []string
}

// Decode reads key's state out of a (live) raw table.
func Decode(t map[string]fakemc.Entry, key []byte) View {
	var v View
	me, ok := t[MetaKey(key)]
	if !ok {
		return v
	}
	v.Present = true
	m, ok := ParseMeta(me.Data)
	if !ok {
		v.Problems = append(v.Problems, "metadata entry of wrong size "+strconv.Itoa(len(me.Data)))
		return v
	}
	v.Flags = m.OrigFlags
	v.N = int(m.NumChunks)
	v.MetaExp = m.Exptime
	v.Exps = append(v.Exps, me.Exp)
	if v.N > 100000 {
		v.Problems = append(v.Problems, "absurd chunk count")
		return v
	}
	buf := make([]byte, 0, m.Length)
	complete := true
	for i := 0; i < v.N; i++ {
		ce, ok := t[ChunkKey(key, i)]
		if !ok {
			complete = false
			continue
		}
		if len(ce.Data) < TokenSize || !bytes.Equal(ce.Data[:TokenSize], m.Token[:]) {
			complete = false
			continue
		}
		v.Exps = append(v.Exps, ce.Exp)
		buf = append(buf, ce.Data[TokenSize:]...)
	}
	if complete {
		if int(m.Length) > len(buf) {
			v.Problems = append(v.Problems, "metadata length exceeds stored bytes")
			return v
		}
		v.Complete = true
		v.Value = buf[:m.Length]
	}
	return v
}

// Owned lists the raw keys of t that are derived from the client key (metadata or any chunk index).
func Owned(t map[string]fakemc.Entry, key []byte) []string {
	var out []string
	p := string(key) + "-"
	for k := range t {
		if len(k) <= len(p) || k[:len(p)] != p {
			continue
		}
		s := k[len(p):]
		if s == "meta" {
			out = append(out, k)
			continue
		}
		if n, err := strconv.Atoi(s); err == nil && n >= 0 && strconv.Itoa(n) == s {
			out = append(out, k)
		}
	}
	return out
}
