// vh is the conformance harness binary: vh <driver> [flags].
package main

import (
	"encoding/json"
	"flag"
	"fmt"
	"io"
	"log"
	"os"
	"verif/harness/fakemc"

	"verif/harness/drv"
	"verif/harness/stack"
)

func main() {
	if len(os.Args) < 2 {
		fmt.Fprintln(os.Stderr, "usage: vh <driver> [flags]")
		os.Exit(2)
	}
	if os.Getenv("VH_RENDLOG") == "" {
		log.SetOutput(io.Discard)
	}
	name := os.Args[1]
	fs := flag.NewFlagSet(name, flag.ExitOnError)
	cfgJSON := fs.String("cfg", `{"orca":"l1l2","batch":true,"lock":"none","l1":"std","l2":"std"}`, "stack configuration (JSON)")
	proto := fs.String("proto", "bin", "bin | text")
	sizes := fs.String("sizes", "small", "small | chunk")
	seed := fs.Int64("seed", 1, "seed")
	workers := fs.Int("workers", 8, "parallel stacks")
	in := fs.String("in", "", "input file")
	out := fs.String("out", "", "output file")
	dir := fs.String("dir", "", "scratch directory for sockets")
	n := fs.Int("n", 100, "count (driver specific)")
	length := fs.Int("len", 50, "length (driver specific)")
	keylen := fs.Int("keylen", 0, "concrete key length (0 = random short)")
	mode := fs.String("mode", "", "driver specific mode")
	dribble := fs.Int64("dribble", 0, "seed for the segmentation of the fake backends' reply streams (0 = replies in one piece)")
	fs.Parse(os.Args[2:])
	fakemc.DefaultDribble = *dribble
	var cfg stack.Config
	if err := json.Unmarshal([]byte(*cfgJSON), &cfg); err != nil {
		fmt.Fprintln(os.Stderr, "bad -cfg:", err)
		os.Exit(2)
	}
	if *dir == "" {
		d, err := os.MkdirTemp("", "vh")
		if err != nil {
			panic(err)
		}
		defer os.RemoveAll(d)
		*dir = d
	}
	a := drv.Args{Cfg: cfg, Proto: *proto, Sizes: *sizes, Seed: *seed, Workers: *workers, In: *in, Out: *out,
		Dir: *dir, N: *n, Len: *length, KeyLen: *keylen, Mode: *mode, Dribble: *dribble}
	d, ok := drv.Drivers[name]
	if !ok {
		fmt.Fprintln(os.Stderr, "unknown driver", name)
		os.Exit(2)
	}
	d(a)
}
