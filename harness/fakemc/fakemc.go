// Package fakemc is a small memcached speaking the binary protocol, used as the backend of the
// real rend stack in the conformance harness. It is part of the trusted base and is itself
// trace-validated against spec/Memcache.tla (driver "fake").
//
// Beyond memcached it offers: a shared controllable clock, raw snapshot/restore of the entry
// table, eviction, a request log, a fault plan (error status / connection cut before the request
// is applied, after it is applied, or in the middle of the reply) and a gate callback that lets
// a scheduler decide when each request is processed.
package fakemc

import (
	"bufio"
	"encoding/binary"
	"io"
	"net"
	"os"
	"sort"
	"sync"
	"sync/atomic"
	"time"
)

// Clock is real time plus a skew shared by all stores of a stack.
type Clock struct{ skew int64 }

func (c *Clock) Now() int64      { return time.Now().Unix() + atomic.LoadInt64(&c.skew) }
func (c *Clock) Advance(s int64) { atomic.AddInt64(&c.skew, s) }
func (c *Clock) Skew() int64     { return atomic.LoadInt64(&c.skew) }
func (c *Clock) SetSkew(s int64) { atomic.StoreInt64(&c.skew, s) }

const thirtyDays = 60 * 60 * 24 * 30

// Entry is one stored item. Exp is an absolute unix time, 0 = never.
type Entry struct {
	Data  []byte
	Flags uint32
	Exp   int64
}

// Opcodes and statuses (memcached binary protocol).
const (
	OpGet     = 0x00
	OpSet     = 0x01
	OpAdd     = 0x02
	OpReplace = 0x03
	OpDelete  = 0x04
	OpQuit    = 0x07
	OpGetQ    = 0x09
	OpNoop    = 0x0a
	OpVersion = 0x0b
	OpAppend  = 0x0e
	OpPrepend = 0x0f
	OpTouch   = 0x1c
	OpGat     = 0x1d
	OpGatQ    = 0x1e
	OpGetE    = 0x40
	OpGetEQ   = 0x41

	StOK           = 0x00
	StNotFound     = 0x01
	StExists       = 0x02
	StTooBig       = 0x03
	StInval        = 0x04
	StNotStored    = 0x05
	StUnknown      = 0x81
	StNoMem        = 0x82
	StNotSupported = 0x83
	StInternal     = 0x84
	StBusy         = 0x85
	StTemp         = 0x86
)

var statusText = map[uint16]string{
	StNotFound: "Not found", StExists: "Data exists for key.", StTooBig: "Too large.",
	StInval: "Invalid arguments", StNotStored: "Not stored.", StUnknown: "Unknown command",
	StNoMem: "Out of memory", StNotSupported: "Not supported", StInternal: "Internal error",
	StBusy: "Busy", StTemp: "Temporary failure", 0x06: "Non-numeric server-side value for incr or decr",
	0x20: "Auth failure",
}

// Request is a decoded backend request.
type Request struct {
	Op      byte
	Key     []byte
	Value   []byte
	Flags   uint32
	Exptime uint32
	Opaque  uint32
	HasExt  bool
}

// LogRec is one line of the request log.
type LogRec struct {
	Conn    int    `json:"conn"`
	Seq     int    `json:"seq"`
	Op      byte   `json:"op"`
	Key     string `json:"key"`
	VLen    int    `json:"vlen"`
	Exptime uint32 `json:"exptime"`
	Opaque  uint32 `json:"opaque"`
	Status  int    `json:"status"` // reply status, -1 = no reply (quiet), -2 = connection cut
	Fault   string `json:"fault,omitempty"`
}

// Fault describes what happens to the N-th request (0-based, counted from Arm).
type Fault struct {
	N      int
	Kind   string // "status", "close_before", "close_after", "close_mid"
	Status uint16
	Cut    int // close_mid: number of reply bytes written before the cut
}

// Store is one fake memcached instance.
type Store struct {
	Name  string
	Clock *Clock

	mu      sync.Mutex
	m       map[string]*Entry
	log     []LogRec
	logging bool
	faults  []Fault
	nreq    int // requests seen since Arm
	seq     int

	Accepted int64
	Closed   int64
	nextConn int64

	// Dribble, when not 0, seeds the segmentation of the reply stream: every flush is written in
	// up to four pieces with a pause between them, the way a network delivers a reply in parts.
	Dribble int64

	// Gate, when set, is called with the store unlocked before each request is processed.
	Gate func(conn int, r *Request)
	// AfterReply, when set, is called after the reply (if any) has been flushed.
	AfterReply func(conn int, r *Request)

	lmu       sync.Mutex
	listeners []net.Listener
	conns     map[int]io.Closer
	refuse    int32
}

func New(name string, clock *Clock) *Store {
	return &Store{Name: name, Clock: clock, m: map[string]*Entry{}, conns: map[int]io.Closer{}, Dribble: DefaultDribble}
}

// DefaultDribble is copied into every new Store (set from the -dribble flag of the harness).
var DefaultDribble int64

// ---- table access for the harness ----

func (s *Store) Snapshot() map[string]Entry {
	s.mu.Lock()
	defer s.mu.Unlock()
	out := make(map[string]Entry, len(s.m))
	for k, e := range s.m {
		out[k] = Entry{Data: append([]byte(nil), e.Data...), Flags: e.Flags, Exp: e.Exp}
	}
	return out
}

// LiveSnapshot returns only entries that are live at the store's clock.
func (s *Store) LiveSnapshot() map[string]Entry {
	now := s.Clock.Now()
	s.mu.Lock()
	defer s.mu.Unlock()
	out := make(map[string]Entry, len(s.m))
	for k, e := range s.m {
		if e.Exp != 0 && e.Exp <= now {
			continue
		}
		out[k] = Entry{Data: append([]byte(nil), e.Data...), Flags: e.Flags, Exp: e.Exp}
	}
	return out
}

func (s *Store) Restore(t map[string]Entry) {
	s.mu.Lock()
	defer s.mu.Unlock()
	s.m = make(map[string]*Entry, len(t))
	for k, e := range t {
		s.m[k] = &Entry{Data: append([]byte(nil), e.Data...), Flags: e.Flags, Exp: e.Exp}
	}
}

func (s *Store) Clear() { s.Restore(nil) }

func (s *Store) Put(key string, e Entry) {
	s.mu.Lock()
	s.m[key] = &Entry{Data: append([]byte(nil), e.Data...), Flags: e.Flags, Exp: e.Exp}
	s.mu.Unlock()
}

// Drop removes raw entries (an eviction / loss); it reports how many existed.
func (s *Store) Drop(keys ...string) int {
	s.mu.Lock()
	defer s.mu.Unlock()
	n := 0
	for _, k := range keys {
		if _, ok := s.m[k]; ok {
			delete(s.m, k)
			n++
		}
	}
	return n
}

func (s *Store) Keys() []string {
	s.mu.Lock()
	defer s.mu.Unlock()
	out := make([]string, 0, len(s.m))
	for k := range s.m {
		out = append(out, k)
	}
	sort.Strings(out)
	return out
}

func (s *Store) SetLogging(on bool) {
	s.mu.Lock()
	s.logging = on
	s.log = nil
	s.mu.Unlock()
}

func (s *Store) TakeLog() []LogRec {
	s.mu.Lock()
	defer s.mu.Unlock()
	l := s.log
	s.log = nil
	return l
}

// Arm installs a fault plan and resets the request counter.
func (s *Store) Arm(f ...Fault) {
	s.mu.Lock()
	s.faults = append([]Fault(nil), f...)
	s.nreq = 0
	s.mu.Unlock()
}

// Requests returns the number of requests seen since the last Arm.
func (s *Store) Requests() int {
	s.mu.Lock()
	defer s.mu.Unlock()
	return s.nreq
}

// NextConnID returns the id given to the most recently accepted connection.
func (s *Store) NextConnID() int { return int(atomic.LoadInt64(&s.nextConn)) }

func (s *Store) Open() int64 { return atomic.LoadInt64(&s.Accepted) - atomic.LoadInt64(&s.Closed) }

// ---- serving ----

// ListenUnix serves on a unix socket until the process exits or CloseListeners is called.
func (s *Store) ListenUnix(path string) error {
	os.Remove(path)
	l, err := net.Listen("unix", path)
	if err != nil {
		return err
	}
	s.lmu.Lock()
	s.listeners = append(s.listeners, l)
	s.lmu.Unlock()
	go func() {
		for {
			c, err := l.Accept()
			if err != nil {
				return
			}
			if atomic.LoadInt32(&s.refuse) != 0 {
				c.Close()
				continue
			}
			go s.Serve(c)
		}
	}()
	return nil
}

// Refuse makes the listeners close every new connection at once (backend down).
func (s *Store) Refuse(on bool) {
	if on {
		atomic.StoreInt32(&s.refuse, 1)
	} else {
		atomic.StoreInt32(&s.refuse, 0)
	}
}

// CutAll closes every open backend connection.
func (s *Store) CutAll() int {
	s.lmu.Lock()
	cs := make([]io.Closer, 0, len(s.conns))
	for _, c := range s.conns {
		cs = append(cs, c)
	}
	s.lmu.Unlock()
	for _, c := range cs {
		c.Close()
	}
	return len(cs)
}

func (s *Store) live(e *Entry, now int64) bool { return e != nil && (e.Exp == 0 || e.Exp > now) }

func (s *Store) deadline(exptime uint32, now int64) int64 {
	if exptime == 0 {
		return 0
	}
	if exptime > thirtyDays {
		if int64(exptime) <= now {
			return -1 // already expired
		}
		return int64(exptime)
	}
	return now + int64(exptime)
}

type reply struct {
	op     byte
	status uint16
	opaque uint32
	extras []byte
	key    []byte
	value  []byte
	none   bool
}

func (r *reply) bytes() []byte {
	if r.none {
		return nil
	}
	total := len(r.extras) + len(r.key) + len(r.value)
	b := make([]byte, 24, 24+total)
	b[0] = 0x81
	b[1] = r.op
	binary.BigEndian.PutUint16(b[2:4], uint16(len(r.key)))
	b[4] = byte(len(r.extras))
	binary.BigEndian.PutUint16(b[6:8], r.status)
	binary.BigEndian.PutUint32(b[8:12], uint32(total))
	binary.BigEndian.PutUint32(b[12:16], r.opaque)
	b = append(b, r.extras...)
	b = append(b, r.key...)
	b = append(b, r.value...)
	return b
}

func errReply(op byte, st uint16, opaque uint32) *reply {
	return &reply{op: op, status: st, opaque: opaque, value: []byte(statusText[st])}
}

func isQuiet(op byte) bool { return op == OpGetQ || op == OpGatQ || op == OpGetEQ }

// apply executes one request against the table. Must be called with s.mu held.
func (s *Store) apply(r *Request) *reply {
	now := s.Clock.Now()
	k := string(r.Key)
	e := s.m[k]
	if e != nil && !s.live(e, now) {
		delete(s.m, k)
		e = nil
	}
	store := func(data []byte, flags uint32, exptime uint32) {
		d := s.deadline(exptime, now)
		if d < 0 {
			delete(s.m, k)
			return
		}
		s.m[k] = &Entry{Data: append([]byte(nil), data...), Flags: flags, Exp: d}
	}
	ok := &reply{op: r.Op, opaque: r.Opaque}
	switch r.Op {
	case OpSet:
		store(r.Value, r.Flags, r.Exptime)
		return ok
	case OpAdd:
		if e != nil {
			return errReply(r.Op, StExists, r.Opaque)
		}
		store(r.Value, r.Flags, r.Exptime)
		return ok
	case OpReplace:
		if e == nil {
			return errReply(r.Op, StNotFound, r.Opaque)
		}
		store(r.Value, r.Flags, r.Exptime)
		return ok
	case OpAppend, OpPrepend:
		if e == nil {
			return errReply(r.Op, StNotStored, r.Opaque)
		}
		if r.Op == OpAppend {
			e.Data = append(append([]byte(nil), e.Data...), r.Value...)
		} else {
			e.Data = append(append([]byte(nil), r.Value...), e.Data...)
		}
		return ok
	case OpDelete:
		if e == nil {
			return errReply(r.Op, StNotFound, r.Opaque)
		}
		delete(s.m, k)
		return ok
	case OpTouch:
		if e == nil {
			return errReply(r.Op, StNotFound, r.Opaque)
		}
		d := s.deadline(r.Exptime, now)
		if d < 0 {
			delete(s.m, k)
		} else {
			e.Exp = d
		}
		fl := make([]byte, 4)
		binary.BigEndian.PutUint32(fl, e.Flags)
		ok.extras = fl
		return ok
	case OpGet, OpGetQ, OpGat, OpGatQ, OpGetE, OpGetEQ:
		if e == nil {
			if isQuiet(r.Op) {
				return &reply{none: true, status: StNotFound}
			}
			return errReply(r.Op, StNotFound, r.Opaque)
		}
		ext := make([]byte, 4, 8)
		binary.BigEndian.PutUint32(ext, e.Flags)
		if r.Op == OpGetE || r.Op == OpGetEQ {
			var rem uint32
			if e.Exp != 0 {
				d := e.Exp - now
				if d > thirtyDays {
					rem = uint32(e.Exp)
				} else {
					rem = uint32(d)
				}
			}
			x := make([]byte, 4)
			binary.BigEndian.PutUint32(x, rem)
			ext = append(ext, x...)
		}
		val := append([]byte(nil), e.Data...)
		if r.Op == OpGat || r.Op == OpGatQ {
			d := s.deadline(r.Exptime, now)
			if d < 0 {
				delete(s.m, k)
			} else {
				e.Exp = d
			}
		}
		ok.extras = ext
		ok.value = val
		return ok
	case OpNoop:
		return ok
	case OpVersion:
		ok.value = []byte("1.4.fake")
		return ok
	case OpQuit:
		return ok
	}
	return errReply(r.Op, StUnknown, r.Opaque)
}

func readRequest(br *bufio.Reader) (*Request, error) {
	h := make([]byte, 24)
	if _, err := io.ReadFull(br, h); err != nil {
		return nil, err
	}
	if h[0] != 0x80 {
		return nil, io.ErrUnexpectedEOF
	}
	keylen := int(binary.BigEndian.Uint16(h[2:4]))
	extlen := int(h[4])
	total := int(binary.BigEndian.Uint32(h[8:12]))
	if total < keylen+extlen {
		return nil, io.ErrUnexpectedEOF
	}
	body := make([]byte, total)
	if _, err := io.ReadFull(br, body); err != nil {
		return nil, err
	}
	r := &Request{Op: h[1], Opaque: binary.BigEndian.Uint32(h[12:16])}
	ext := body[:extlen]
	r.Key = body[extlen : extlen+keylen]
	r.Value = body[extlen+keylen:]
	switch {
	case extlen == 8:
		r.Flags = binary.BigEndian.Uint32(ext[0:4])
		r.Exptime = binary.BigEndian.Uint32(ext[4:8])
		r.HasExt = true
	case extlen == 4:
		r.Exptime = binary.BigEndian.Uint32(ext[0:4])
		r.HasExt = true
	}
	return r, nil
}

// outQueue is an unbounded output queue in front of a connection.
type outQueue struct {
	w   io.Writer
	buf []byte
	rng uint64 // 0: write in one piece
}

func (q *outQueue) next(n int) int {
	q.rng = q.rng*6364136223846793005 + 1442695040888963407
	return int((q.rng >> 33) % uint64(n))
}

func (q *outQueue) Write(p []byte) (int, error) { q.buf = append(q.buf, p...); return len(p), nil }
func (q *outQueue) Flush() error {
	if len(q.buf) == 0 {
		return nil
	}
	b := q.buf
	q.buf = q.buf[:0]
	if q.rng != 0 && len(b) > 1 && q.next(4) != 0 {
		// cut points: inside the first header, just behind it, anywhere
		for i := 0; i < 3 && len(b) > 1; i++ {
			var cut int
			switch q.next(4) {
			case 0:
				cut = 1 + q.next(24)
			case 1:
				cut = 24 + q.next(9)
			default:
				cut = 1 + q.next(len(b)-1)
			}
			if cut >= len(b) {
				continue
			}
			if _, err := q.w.Write(b[:cut]); err != nil {
				return err
			}
			b = b[cut:]
			time.Sleep(40 * time.Microsecond)
		}
	}
	_, err := q.w.Write(b)
	return err
}

// Serve handles one backend connection until it is closed.
func (s *Store) Serve(c io.ReadWriteCloser) {
	id := int(atomic.AddInt64(&s.nextConn, 1))
	atomic.AddInt64(&s.Accepted, 1)
	s.lmu.Lock()
	s.conns[id] = c
	s.lmu.Unlock()
	defer func() {
		c.Close()
		s.lmu.Lock()
		delete(s.conns, id)
		s.lmu.Unlock()
		atomic.AddInt64(&s.Closed, 1)
	}()
	br := bufio.NewReaderSize(c, 1<<16)
	// replies to quiet requests are queued in memory without bound and written at the next flush
	// point, as memcached does: a client that pipelines many quiet gets before reading anything
	// must not be throttled by the size of a write buffer
	bw := &outQueue{w: c}
	if s.Dribble != 0 {
		bw.rng = uint64(s.Dribble)*2654435761 + uint64(id) | 1
	}
	for {
		r, err := readRequest(br)
		if err != nil {
			return
		}
		if g := s.Gate; g != nil {
			g(id, r)
		}
		s.mu.Lock()
		n := s.nreq
		s.nreq++
		var f *Fault
		for i := range s.faults {
			if s.faults[i].N == n {
				f = &s.faults[i]
			}
		}
		rec := LogRec{Conn: id, Op: r.Op, Key: string(r.Key), VLen: len(r.Value), Exptime: r.Exptime, Opaque: r.Opaque}
		var rep *reply
		cut := false
		switch {
		case f == nil:
			rep = s.apply(r)
		case f.Kind == "status":
			rep = errReply(r.Op, f.Status, r.Opaque)
			rec.Fault = "status"
		case f.Kind == "close_before":
			cut = true
			rec.Fault = f.Kind
		case f.Kind == "close_after":
			s.apply(r)
			cut = true
			rec.Fault = f.Kind
		case f.Kind == "close_mid":
			rep = s.apply(r)
			rec.Fault = f.Kind
		}
		if rep != nil {
			if rep.none {
				rec.Status = -1
			} else {
				rec.Status = int(rep.status)
			}
		}
		if cut {
			rec.Status = -2
		}
		if s.logging {
			s.seq++
			rec.Seq = s.seq
			s.log = append(s.log, rec)
		}
		s.mu.Unlock()
		if cut {
			return
		}
		b := rep.bytes()
		if f != nil && f.Kind == "close_mid" {
			if b == nil {
				// nothing to cut in the middle of: answer what a noop would
				b = (&reply{op: r.Op, opaque: r.Opaque}).bytes()
			}
			n := f.Cut
			if n >= len(b) {
				n = len(b) - 1
			}
			if n < 0 {
				n = 0
			}
			bw.Write(b[:n])
			bw.Flush()
			return
		}
		if b != nil {
			bw.Write(b)
		}
		// flush when nothing more is buffered on the input side: like memcached, which processes
		// what it has read and then writes the queued replies with one gathering write (many tiny
		// writes would exhaust a unix socket's buffer accounting and stall a pipelining client)
		if br.Buffered() == 0 {
			if err := bw.Flush(); err != nil {
				return
			}
		}
		if a := s.AfterReply; a != nil {
			a(id, r)
		}
		if r.Op == OpQuit {
			return
		}
	}
}
