// Package stack assembles a real rend server in-process, from rend's own constructors, over fake
// memcached backends: real listener and accept loop, real protocol detection, parsers and
// responders, real orchestrators (optionally under the locking wrapper), real handlers.
package stack

import (
	"fmt"
	"net"
	"os"
	"path/filepath"
	"strings"
	"sync/atomic"
	"time"

	"github.com/netflix/rend/handlers"
	"github.com/netflix/rend/handlers/inmem"
	"github.com/netflix/rend/handlers/memcached"
	"github.com/netflix/rend/handlers/memcached/batched"
	"github.com/netflix/rend/orcas"
	"github.com/netflix/rend/protocol"
	"github.com/netflix/rend/protocol/binprot"
	"github.com/netflix/rend/protocol/textprot"
	"github.com/netflix/rend/server"

	"verif/harness/fakemc"
)

type Config struct {
	Orca     string       `json:"orca"`  // l1only | l1l2
	Batch    bool         `json:"batch"` // additional batch port (l1l2 only)
	Lock     string       `json:"lock"`  // none | single | multi
	LockConc uint8        `json:"lockconc"`
	L1       string       `json:"l1"` // std | chunked | batched | inmem
	L2       string       `json:"l2"` // std | batched
	BatchOpt batched.Opts `json:"-"`
}

func (c Config) String() string {
	s := c.Orca
	if c.Batch {
		s += "+batch"
	}
	s += "/" + c.Lock + "/" + c.L1
	if c.Orca != "l1only" {
		s += "/" + c.L2
	}
	return s
}

// Ports lists the model port names this configuration serves.
func (c Config) Ports() []string {
	if c.Orca == "l1only" {
		return []string{"l1only"}
	}
	if c.Orca == "fwdget" || c.Orca == "backfill" {
		// the orchestrators of the cluster proxy (app/memcached_cluster_proxy.go): L1 = source, L2 = destination
		return []string{c.Orca}
	}
	if c.Batch {
		return []string{"main", "batch"}
	}
	return []string{"main"}
}

type Stack struct {
	Cfg      Config
	Dir      string
	Socks    map[string]string // port name -> unix socket path
	L1, L2   *fakemc.Store
	L1Sock   string
	L2Sock   string
	Clock    *fakemc.Clock
	LockSlot uint32
	HasLock  bool
}

// Wrap, when non-nil, decorates every handler the stack constructs (tier is "l1" or "l2").
type Wrap func(tier string, h handlers.Handler) handlers.Handler

var stackSeq int64

// Build starts a stack; dir must be a fresh directory for its sockets. The listeners live until
// the process exits (rend's accept loop has no shutdown).
func Build(cfg Config, dir string, wrap Wrap) (*Stack, error) {
	id := atomic.AddInt64(&stackSeq, 1)
	dir = filepath.Join(dir, fmt.Sprintf("s%d", id))
	if err := os.MkdirAll(dir, 0o755); err != nil {
		return nil, err
	}
	s := &Stack{Cfg: cfg, Dir: dir, Socks: map[string]string{}, Clock: &fakemc.Clock{}}
	s.L1 = fakemc.New("l1", s.Clock)
	s.L1Sock = filepath.Join(dir, "l1.sock")
	if cfg.L1 != "inmem" {
		if err := s.L1.ListenUnix(s.L1Sock); err != nil {
			return nil, err
		}
	}
	var h1, h2 handlers.HandlerConst
	switch cfg.L1 {
	case "std":
		h1 = memcached.Regular(s.L1Sock)
	case "chunked":
		h1 = memcached.Chunked(s.L1Sock)
	case "batched":
		h1 = memcached.Batched(s.L1Sock, cfg.BatchOpt)
	case "inmem":
		h1 = inmem.New
	default:
		return nil, fmt.Errorf("unknown L1 handler %q", cfg.L1)
	}
	var o orcas.OrcaConst
	if cfg.Orca == "l1only" {
		o = orcas.L1Only
		h2 = handlers.NilHandler
	} else {
		o = orcas.L1L2
		switch cfg.Orca {
		case "fwdget":
			o = orcas.L1OnlyForwardGet
		case "backfill":
			o = orcas.Backfill
		}
		s.L2 = fakemc.New("l2", s.Clock)
		s.L2Sock = filepath.Join(dir, "l2.sock")
		if err := s.L2.ListenUnix(s.L2Sock); err != nil {
			return nil, err
		}
		switch cfg.L2 {
		case "std", "":
			h2 = memcached.Regular(s.L2Sock)
		case "batched":
			h2 = memcached.Batched(s.L2Sock, cfg.BatchOpt)
		default:
			return nil, fmt.Errorf("unknown L2 handler %q", cfg.L2)
		}
	}
	if wrap != nil {
		w1, w2 := h1, h2
		h1 = func() (handlers.Handler, error) {
			h, err := w1()
			if err != nil || h == nil {
				return h, err
			}
			return wrap("l1", h), nil
		}
		if cfg.Orca != "l1only" {
			h2 = func() (handlers.Handler, error) {
				h, err := w2()
				if err != nil || h == nil {
					return h, err
				}
				return wrap("l2", h), nil
			}
		}
	}
	switch cfg.Lock {
	case "single":
		o, s.LockSlot = orcas.Locked(o, false, cfg.LockConc)
		s.HasLock = true
	case "multi":
		o, s.LockSlot = orcas.Locked(o, true, cfg.LockConc)
		s.HasLock = true
	case "none", "":
	default:
		return nil, fmt.Errorf("unknown lock mode %q", cfg.Lock)
	}
	protocols := []protocol.Components{binprot.Components, textprot.Components}
	first := cfg.Ports()[0]
	s.Socks[first] = filepath.Join(dir, "front.sock")
	go server.ListenAndServe(server.UnixListener(s.Socks[first]), protocols, server.Default, o, h1, h2)
	if cfg.Orca != "l1only" && cfg.Batch {
		ob := orcas.OrcaConst(orcas.L1L2Batch)
		if s.HasLock {
			ob = orcas.LockedWithExisting(ob, s.LockSlot)
		}
		s.Socks["batch"] = filepath.Join(dir, "batch.sock")
		go server.ListenAndServe(server.UnixListener(s.Socks["batch"]), protocols, server.Default, ob, h1, h2)
	}
	for _, p := range s.Socks {
		if err := waitSock(p); err != nil {
			return nil, err
		}
	}
	return s, nil
}

func waitSock(path string) error {
	deadline := time.Now().Add(5 * time.Second)
	for {
		if _, err := os.Stat(path); err == nil && listening(path) {
			return nil
		}
		if time.Now().After(deadline) {
			return fmt.Errorf("socket %s did not appear", path)
		}
		time.Sleep(2 * time.Millisecond)
	}
}

// listening reports whether the unix socket bound to path has reached listen(): between bind()
// and listen() the file exists but a connect is refused. Read from /proc/net/unix so that no
// probe connection disturbs the server (flag 0x10000 is __SO_ACCEPTCON).
func listening(path string) bool {
	b, err := os.ReadFile("/proc/net/unix")
	if err != nil {
		return true
	}
	for _, ln := range strings.Split(string(b), "\n") {
		f := strings.Fields(ln)
		if len(f) >= 8 && f[7] == path {
			return f[3] == "00010000"
		}
	}
	return false
}

// DialRaw opens a plain connection to a port.
func (s *Stack) DialRaw(port string) (net.Conn, error) { return net.Dial("unix", s.Socks[port]) }

// Quiesce waits until the backend connection counts are stable at the given numbers.
func (s *Stack) WaitOpen(l1, l2 int64, d time.Duration) bool {
	deadline := time.Now().Add(d)
	for {
		ok := s.L1.Open() == l1 && (s.L2 == nil || s.L2.Open() == l2)
		if ok {
			return true
		}
		if time.Now().After(deadline) {
			return false
		}
		time.Sleep(time.Millisecond)
	}
}
