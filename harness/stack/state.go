package stack

import (
	"fmt"

	"github.com/netflix/rend/common"
	"github.com/netflix/rend/handlers"
	"github.com/netflix/rend/handlers/inmem"
	"github.com/netflix/rend/handlers/memcached"

	"verif/harness/absx"
	"verif/harness/chunkfmt"
	"verif/harness/fakemc"
)

// MEntry is a model entry: value as block ids, flags as model value, deadline in units.
type MEntry struct {
	None bool  `json:"none,omitempty"`
	V    []int `json:"v"`
	F    int   `json:"f"`
	E    int   `json:"e"`
	// Note is set by projections that found something the model has no word for
	Note string `json:"note,omitempty"`
}

type MMap map[string]MEntry

func (m MMap) Get(k string) MEntry {
	if e, ok := m[k]; ok {
		return e
	}
	return MEntry{None: true}
}

func (e MEntry) Equal(o MEntry) bool {
	if e.None || o.None {
		return e.None == o.None
	}
	if e.F != o.F || e.E != o.E || len(e.V) != len(o.V) {
		return false
	}
	for i := range e.V {
		if e.V[i] != o.V[i] {
			return false
		}
	}
	return true
}

func (e MEntry) EqualVF(o MEntry) bool {
	a, b := e, o
	a.E, b.E = 0, 0
	return a.Equal(b)
}

func (e MEntry) String() string {
	if e.None {
		return "-"
	}
	return fmt.Sprintf("%v/f%d/e%d%s", e.V, e.F, e.E, e.Note)
}

// helper handlers used only to construct and read states through the tier's own handler kind
func (s *Stack) helperL1() (handlers.Handler, error) {
	switch s.Cfg.L1 {
	case "chunked":
		return memcached.Chunked(s.L1Sock)()
	case "inmem":
		return inmem.New()
	}
	return nil, nil
}

// Load puts the tiers into the given model state at model time now.
// std/batched tiers are loaded by writing the fake's raw table; a chunked tier is loaded through
// a chunked handler of its own (the raw layout is the handler's business); the in-memory backend
// through its handler as well. keys lists every model key in use (needed to clear inmem).
func (s *Stack) Load(w *absx.World, l1, l2 MMap, now int, keys []string) error {
	s.Clock.SetSkew(int64(now) * absx.Unit)
	raw := func(m MMap) map[string]fakemc.Entry {
		t := map[string]fakemc.Entry{}
		for k, e := range m {
			if e.None {
				continue
			}
			t[string(w.Key(k))] = fakemc.Entry{Data: w.Value(e.V), Flags: w.Flags(e.F), Exp: w.ExpFor(e.E)}
		}
		return t
	}
	if s.L2 != nil {
		s.L2.Restore(raw(l2))
	}
	switch s.Cfg.L1 {
	case "std", "batched":
		s.L1.Restore(raw(l1))
	case "chunked", "inmem":
		s.L1.Clear()
		h, err := s.helperL1()
		if err != nil {
			return err
		}
		defer h.Close()
		for _, k := range keys {
			if s.Cfg.L1 == "inmem" {
				h.Delete(common.DeleteRequest{Key: w.Key(k)})
			}
			e := l1.Get(k)
			if e.None {
				continue
			}
			exp := uint32(w.ExpFor(e.E))
			if s.Cfg.L1 == "inmem" && exp != 0 {
				// the in-memory backend only knows relative TTLs
				exp = uint32(w.ExpFor(e.E) - w.Base)
			}
			if err := h.Set(common.SetRequest{Key: append([]byte(nil), w.Key(k)...), Data: w.Value(e.V), Flags: w.Flags(e.F), Exptime: exp}); err != nil {
				return fmt.Errorf("loading %s into L1: %v", k, err)
			}
		}
	}
	return nil
}

// Project reads the live contents of both tiers back into model terms.
func (s *Stack) Project(w *absx.World, keys []string) (l1, l2 MMap) {
	proj := func(st *fakemc.Store) MMap {
		out := MMap{}
		t := st.LiveSnapshot()
		for _, k := range keys {
			e, ok := t[string(w.Key(k))]
			if !ok {
				continue
			}
			out[k] = MEntry{V: w.ProjectOrCorrupt(e.Data), F: w.FlagsBack(e.Flags), E: w.DeadlineUnits(e.Exp)}
		}
		// anything else in the table is noted under its raw name
		known := map[string]bool{}
		for _, k := range keys {
			known[string(w.Key(k))] = true
		}
		for rk := range t {
			if !known[rk] {
				out[fmt.Sprintf("?%x", rk)] = MEntry{V: []int{-2}, Note: "stray backend entry"}
			}
		}
		return out
	}
	if s.L2 != nil {
		l2 = proj(s.L2)
	}
	switch s.Cfg.L1 {
	case "std", "batched":
		l1 = proj(s.L1)
	case "chunked":
		l1 = MMap{}
		t := s.L1.LiveSnapshot()
		owned := map[string]bool{}
		for _, k := range keys {
			for _, rk := range chunkfmt.Owned(t, w.Key(k)) {
				owned[rk] = true
			}
			v := chunkfmt.Decode(t, w.Key(k))
			if !v.Present {
				continue
			}
			if !v.Complete {
				// metadata without a complete set of chunks serves nothing: a miss
				continue
			}
			e := MEntry{V: w.ProjectOrCorrupt(v.Value), F: w.FlagsBack(v.Flags)}
			e.E = w.DeadlineUnits(v.Exps[0])
			for _, x := range v.Exps {
				if w.DeadlineUnits(x) != e.E {
					e.Note = fmt.Sprintf(" serving entries expire at different times %v", v.Exps)
					e.E = -7
				}
			}
			l1[k] = e
		}
		for rk := range t {
			if !owned[rk] {
				l1[fmt.Sprintf("?%x", rk)] = MEntry{V: []int{-2}, Note: "stray backend entry"}
			}
		}
	case "inmem":
		l1 = MMap{}
		h, _ := s.helperL1()
		for _, k := range keys {
			rc, ec := h.GetE(common.GetRequest{Keys: [][]byte{w.Key(k)}, Opaques: []uint32{0}, Quiet: []bool{false}})
			for r := range rc {
				if !r.Miss {
					l1[k] = MEntry{V: w.ProjectOrCorrupt(r.Data), F: w.FlagsBack(r.Flags), E: w.DeadlineUnits(int64(r.Exptime))}
				}
			}
			for range ec {
			}
		}
	}
	return
}

// EvictL1 removes a model key from L1 whatever the handler kind (raw deletion of every backend
// entry derived from the key).
func (s *Stack) EvictL1(w *absx.World, k string) {
	key := w.Key(k)
	switch s.Cfg.L1 {
	case "chunked":
		t := s.L1.Snapshot()
		s.L1.Drop(chunkfmt.Owned(t, key)...)
	case "inmem":
		h, _ := s.helperL1()
		h.Delete(common.DeleteRequest{Key: key})
	default:
		s.L1.Drop(string(key))
	}
}
