// Package absx holds the abstraction / concretisation functions between the values of the TLA+
// specification (block ids, small flags, TTL codes, deadlines in units) and the bytes, 32-bit
// integers and unix times the real code sees.
package absx

import (
	"bytes"
	"fmt"
	"hash/fnv"
	"math/rand"
	"sort"
	"time"
)

const (
	Unit    = 1000    // seconds per model time unit
	Inf     = 1000000 // deadline of "never"
	RelMax  = 2592    // 30 days in units
	AbsBase = 10000
)

// World is one concretisation, fixed for the length of a trace.
type World struct {
	Seed   int64
	Base   int64 // unix seconds corresponding to model time 0
	rng    *rand.Rand
	blocks map[int][]byte
	first  map[byte]int
	sizes  []int
	keys   map[string][]byte
	names  map[string]string
	flags  []uint32
	Text   bool // keys must be printable and without spaces
	KeyLen int  // 0 = short random lengths
}

// Sizes profiles used by drivers.
func SizesSmall() []int { return []int{1, 2, 3, 5, 8, 13} }

// SizesChunk returns block sizes around the multiples of the chunk payload for a key length.
func SizesChunk(keylen int) []int {
	p := 1184 - 71 - keylen - 16
	return []int{1, p - 1, p, p + 1, 2*p - 1, 2 * p, 2*p + 1, 3*p + 1, 7, 300}
}

var flagCorners = []uint32{0, 1, 0x80000000, 0xFFFFFFFF, 2, 0xdeadbeef, 255, 65536}

func NewWorld(seed int64, sizes []int, text bool) *World {
	w := &World{Seed: seed, Base: time.Now().Unix(), rng: rand.New(rand.NewSource(seed)),
		blocks: map[int][]byte{}, first: map[byte]int{}, sizes: sizes, keys: map[string][]byte{},
		names: map[string]string{}, Text: text}
	// flags: model value i -> a corner value; 0 stays 0 so that "no flags" is covered
	w.flags = append([]uint32(nil), flagCorners...)
	w.rng.Shuffle(len(w.flags)-1, func(i, j int) { w.flags[i+1], w.flags[j+1] = w.flags[j+1], w.flags[i+1] })
	return w
}

// Block returns the bytes of block id (ids are >= 1). Every block starts with a byte no other
// block starts with, so a concatenation of blocks decomposes uniquely.
func (w *World) Block(id int) []byte {
	if b, ok := w.blocks[id]; ok {
		return b
	}
	n := w.sizes[(id+int(w.Seed&0xffff))%len(w.sizes)]
	if n < 1 {
		n = 1
	}
	b := make([]byte, n)
	w.rng.Read(b)
	// interesting bytes inside values: CR, LF, 0x80, 0, space
	specials := []byte{'\r', '\n', 0x80, 0, ' ', 0x81}
	for i := 1; i < n && i < 8; i++ {
		if w.rng.Intn(3) == 0 {
			b[i] = specials[w.rng.Intn(len(specials))]
		}
	}
	if len(w.first) >= 256 {
		panic("absx: more than 256 distinct blocks in one world (driver bug: wrap the block counter)")
	}
	// ... and at the very end, where a text value is followed by its CR LF terminator
	if n >= 2 && w.rng.Intn(3) == 0 {
		b[n-1] = []byte{'\n', '\r', '\n', ' '}[w.rng.Intn(4)]
	}
	for {
		f := byte(w.rng.Intn(256))
		if _, used := w.first[f]; !used {
			b[0] = f
			w.first[f] = id
			break
		}
	}
	w.blocks[id] = b
	return b
}

func (w *World) Value(ids []int) []byte {
	var out []byte
	for _, id := range ids {
		out = append(out, w.Block(id)...)
	}
	if out == nil {
		out = []byte{}
	}
	return out
}

// Project decomposes bytes into block ids; ok is false if they are not a concatenation of blocks.
func (w *World) Project(data []byte) (ids []int, ok bool) {
	ids = []int{}
	for len(data) > 0 {
		id, found := w.first[data[0]]
		if !found {
			return ids, false
		}
		b := w.blocks[id]
		if len(data) < len(b) || !bytes.Equal(data[:len(b)], b) {
			return ids, false
		}
		ids = append(ids, id)
		data = data[len(b):]
	}
	return ids, true
}

// ProjectOrCorrupt is Project with a marker block id (-1 and a length) for undecomposable data.
func (w *World) ProjectOrCorrupt(data []byte) []int {
	ids, ok := w.Project(data)
	if !ok {
		h := fnv.New32a()
		h.Write(data)
		return []int{-1, len(data), int(h.Sum32() & 0x7fffffff)}
	}
	return ids
}

const printable = "abcdefghijklmnopqrstuvwxyzABCDEFGHIJKLMNOPQRSTUVWXYZ0123456789_.:/+=@#$%&*()[]{}<>?!~^|;,'\"`\\"

// Key maps a model key name to concrete key bytes (stable within the world).
func (w *World) Key(name string) []byte {
	if k, ok := w.keys[name]; ok {
		return k
	}
	for {
		n := w.KeyLen
		if n == 0 {
			n = 1 + w.rng.Intn(12)
		}
		k := make([]byte, n)
		for i := range k {
			if w.Text {
				k[i] = printable[w.rng.Intn(len(printable))]
				if w.rng.Intn(5) == 0 {
					k[i] = byte(0x80 + w.rng.Intn(0x80)) // high bytes are ordinary key bytes in the text protocol too
				}
			} else {
				k[i] = byte(w.rng.Intn(256))
			}
		}
		if w.Text && n >= 3 && w.rng.Intn(2) == 0 {
			k[1] = '%' // a key is not a format string
		}
		if w.Text && n >= 3 && w.rng.Intn(3) == 0 {
			copy(k[n-2:], []byte{0xc2, 0xa0}) // ... and so is the UTF-8 form of a no-break space, here at the very end
		}
		// keep harness bookkeeping simple: no key is a prefix-plus-dash of another
		if _, dup := w.names[string(k)]; dup {
			continue
		}
		w.keys[name] = k
		w.names[string(k)] = name
		return k
	}
}

// SetKey pins a model key to given bytes.
func (w *World) SetKey(name string, k []byte) {
	w.keys[name] = k
	w.names[string(k)] = name
}

func (w *World) KeyName(k []byte) string {
	if n, ok := w.names[string(k)]; ok {
		return n
	}
	return fmt.Sprintf("?%x", k)
}

func (w *World) KeyNames() []string {
	out := make([]string, 0, len(w.keys))
	for n := range w.keys {
		out = append(out, n)
	}
	sort.Strings(out)
	return out
}

func (w *World) Flags(f int) uint32 { return w.flags[f%len(w.flags)] }
func (w *World) FlagsBack(v uint32) int {
	for i, x := range w.flags {
		if x == v {
			return i
		}
	}
	return -int(v&0x7fffffff) - 1
}

// TTL turns a model TTL code into the exptime sent on the wire.
func (w *World) TTL(code int) uint32 {
	switch {
	case code == 0:
		return 0
	case code <= RelMax:
		return uint32(code * Unit)
	case code == RelMax+1:
		return uint32(RelMax*Unit + 1) // 30 days + 1 s: an absolute time in the distant past
	default:
		return uint32(w.Base + int64(code-AbsBase)*Unit)
	}
}

// TTLBack maps a wire exptime issued at model time now back to a TTL code.
func (w *World) TTLBack(exp uint32) int {
	switch {
	case exp == 0:
		return 0
	case exp <= RelMax*Unit:
		return int((int64(exp) + Unit/2) / Unit)
	case int64(exp) < w.Base-100*Unit:
		return RelMax + 1
	default:
		d := int64(exp) - w.Base
		if d >= 0 {
			return AbsBase + int((d+Unit/2)/Unit)
		}
		return AbsBase - int((-d+Unit/2)/Unit)
	}
}

// DeadlineUnits converts an absolute expiry (unix seconds, 0 = never) to model units.
func (w *World) DeadlineUnits(exp int64) int {
	if exp == 0 {
		return Inf
	}
	d := exp - w.Base
	if d >= 0 {
		return int((d + Unit/2) / Unit)
	}
	return -int((-d + Unit/2) / Unit)
}

// ExpFor converts a model deadline to an absolute expiry.
func (w *World) ExpFor(e int) int64 {
	if e >= Inf {
		return 0
	}
	return w.Base + int64(e)*Unit
}
