// Package gate is a deterministic scheduler for goroutines of the system under test. Client
// goroutines park at lock acquisitions (instrumented lockers wrapping rend's own mutexes through
// the verif hook) and at handler calls (a decorator around real handlers); the scheduler lets
// exactly one of them proceed at a time, so an execution is a sequence of choices that can be
// enumerated exhaustively and replayed.
package gate

import (
	"bytes"
	"fmt"
	"runtime"
	"strconv"
	"sync"
	"time"
)

func goid() int64 {
	var buf [64]byte
	n := runtime.Stack(buf[:], false)
	// "goroutine 123 [running]:"
	f := bytes.Fields(buf[:n])
	id, _ := strconv.ParseInt(string(f[1]), 10, 64)
	return id
}

// Point describes where a client is parked.
type Point struct {
	Kind   string // start lock rlock call
	Stripe int
	Tier   string
	Method string
	Key    string
}

type msg struct {
	c       int
	kind    string // park done blocked
	p       Point
	blocked bool
}

type client struct {
	id      int
	grant   chan struct{}
	parked  bool
	blocked bool // its last lock attempt failed and nothing has changed since
	done    bool
	p       Point
}

// Sched controls one execution at a time.
type Sched struct {
	mu      sync.Mutex
	byGo    map[int64]int
	cl      map[int]*client
	in      chan msg
	Emit    func(ev map[string]interface{})
	Timeout time.Duration
}

func New(emit func(map[string]interface{})) *Sched {
	return &Sched{byGo: map[int64]int{}, cl: map[int]*client{}, in: make(chan msg, 64), Emit: emit, Timeout: 20 * time.Second}
}

// Current returns the client id of the calling goroutine (-1 if it is not a client).
func (s *Sched) Current() int {
	g := goid()
	s.mu.Lock()
	defer s.mu.Unlock()
	if c, ok := s.byGo[g]; ok {
		return c
	}
	return -1
}

// Bind ties an extra goroutine (one spawned on behalf of a client) to the client.
func (s *Sched) register(c int) {
	g := goid()
	s.mu.Lock()
	s.byGo[g] = c
	s.mu.Unlock()
}

func (s *Sched) unregister() {
	g := goid()
	s.mu.Lock()
	delete(s.byGo, g)
	s.mu.Unlock()
}

// Park blocks the calling client until the scheduler lets it go on.
func (s *Sched) Park(c int, p Point, blocked bool) {
	if c < 0 {
		return
	}
	s.mu.Lock()
	cl := s.cl[c]
	s.mu.Unlock()
	s.in <- msg{c: c, kind: "park", p: p, blocked: blocked}
	<-cl.grant
}

// Choice is one scheduling decision: the enabled clients and the one that was picked.
type Choice struct {
	Enabled []int
	Picked  int
}

// Result of one controlled execution.
type Result struct {
	Choices  []Choice
	Deadlock bool
	Hung     bool
	Stuck    []Point
}

// Run executes the client programs under the scheduler. pick chooses among the enabled clients at
// every step (given the step number); it must be deterministic for replay.
func (s *Sched) Run(progs map[int]func(), pick func(step int, enabled []int) int) Result {
	s.mu.Lock()
	s.cl = map[int]*client{}
	s.byGo = map[int64]int{}
	ids := []int{}
	for id := range progs {
		s.cl[id] = &client{id: id, grant: make(chan struct{})}
		ids = append(ids, id)
	}
	s.mu.Unlock()
	sortInts(ids)
	for _, id := range ids {
		id := id
		f := progs[id]
		go func() {
			s.register(id)
			defer s.unregister()
			s.Park(id, Point{Kind: "start"}, false)
			f()
			s.in <- msg{c: id, kind: "done"}
		}()
	}
	var res Result
	// wait until every client has parked at its start point
	waiting := len(ids)
	recv := func() bool {
		select {
		case m := <-s.in:
			c := s.cl[m.c]
			switch m.kind {
			case "park":
				c.parked, c.p, c.blocked = true, m.p, m.blocked
			case "done":
				c.done, c.parked = true, false
			}
			return true
		case <-time.After(s.Timeout):
			return false
		}
	}
	for i := 0; i < waiting; i++ {
		if !recv() {
			res.Hung = true
			return res
		}
	}
	step := 0
	for {
		var enabled []int
		alive := 0
		for _, id := range ids {
			c := s.cl[id]
			if c.done {
				continue
			}
			alive++
			if c.parked && !c.blocked {
				enabled = append(enabled, id)
			}
		}
		if alive == 0 {
			return res
		}
		if len(enabled) == 0 {
			res.Deadlock = true
			for _, id := range ids {
				if c := s.cl[id]; !c.done {
					res.Stuck = append(res.Stuck, c.p)
				}
			}
			// let the goroutines go so they do not leak: nothing sensible can follow
			return res
		}
		id := pick(step, enabled)
		res.Choices = append(res.Choices, Choice{Enabled: enabled, Picked: id})
		step++
		c := s.cl[id]
		c.parked = false
		c.grant <- struct{}{}
		if !recv() {
			res.Hung = true
			return res
		}
		// a step that was not a failed lock attempt may have released something
		if !(c.parked && c.blocked) {
			for _, o := range ids {
				if o != id {
					s.cl[o].blocked = false
				}
			}
		}
	}
}

func sortInts(a []int) {
	for i := 1; i < len(a); i++ {
		for j := i; j > 0 && a[j] < a[j-1]; j-- {
			a[j], a[j-1] = a[j-1], a[j]
		}
	}
}

// ---- instrumented lockers ----

type tryLocker interface {
	sync.Locker
	TryLock() bool
}

// Locker wraps one of rend's own lockers. Lock parks, then tries the real lock.
type Locker struct {
	S      *Sched
	Stripe int
	Mode   string // "w" or "r"
	Real   sync.Locker
	try    func() bool
}

// WrapPair instruments the write and read locker of one stripe. The real objects are a
// *sync.Mutex (both the same) or a *sync.RWMutex and its RLocker().
func WrapPair(s *Sched, stripe int, w, r sync.Locker) (sync.Locker, sync.Locker) {
	lw := &Locker{S: s, Stripe: stripe, Mode: "w", Real: w}
	lr := &Locker{S: s, Stripe: stripe, Mode: "r", Real: r}
	switch m := w.(type) {
	case *sync.Mutex:
		lw.try = m.TryLock
		lr.try = m.TryLock
		if r != w {
			if rm, ok := r.(*sync.Mutex); ok {
				lr.try = rm.TryLock
			}
		}
	case *sync.RWMutex:
		lw.try = m.TryLock
		lr.try = m.TryRLock
	default:
		panic(fmt.Sprintf("gate: unexpected locker type %T", w))
	}
	return lw, lr
}

func (l *Locker) Lock() {
	c := l.S.Current()
	if c < 0 {
		l.Real.Lock()
		return
	}
	kind := "lock"
	if l.Mode == "r" {
		kind = "rlock"
	}
	blocked := false
	for {
		l.S.Park(c, Point{Kind: kind, Stripe: l.Stripe}, blocked)
		if l.try() {
			l.S.Emit(map[string]interface{}{"ev": "lock", "c": c, "stripe": l.Stripe, "mode": l.Mode})
			return
		}
		blocked = true
	}
}

func (l *Locker) Unlock() {
	c := l.S.Current()
	l.Real.Unlock()
	if c >= 0 {
		l.S.Emit(map[string]interface{}{"ev": "unlock", "c": c, "stripe": l.Stripe, "mode": l.Mode})
	}
}
