package gate

import (
	"errors"
	"io"

	"github.com/netflix/rend/common"
	"github.com/netflix/rend/handlers"
)

// Fault makes the N-th handler call (0-based, counted per client over both tiers) of client C
// misbehave: "panic", "apperr" (an application error status that is not a normal outcome) or
// "ioerr" (connection failure).
type Fault struct {
	C    int
	N    int
	Kind string
}

// Handler decorates a real handler: every call is a scheduling point and is recorded.
type Handler struct {
	S     *Sched
	Tier  string
	H     handlers.Handler
	KeyOf func([]byte) string
	Calls *map[int]int // per client call counter shared by both tiers
	Fault *Fault
	Log   bool
}

var errInjected = errors.New("injected connection failure")

func (g Handler) pre(method string, key []byte) (c int, fault string) {
	c = g.S.Current()
	g.S.Park(c, Point{Kind: "call", Tier: g.Tier, Method: method, Key: g.KeyOf(key)}, false)
	if c >= 0 && g.Calls != nil {
		n := (*g.Calls)[c]
		(*g.Calls)[c] = n + 1
		if g.Fault != nil && g.Fault.C == c && g.Fault.N == n {
			g.S.Emit(map[string]interface{}{"ev": "fault", "c": c, "tier": g.Tier, "method": method, "n": n, "kind": g.Fault.Kind})
			return c, g.Fault.Kind
		}
	}
	return c, ""
}

func faultErr(kind string) error {
	switch kind {
	case "panic":
		panic("injected panic in handler")
	case "apperr":
		return common.ErrNoMem
	case "ioerr":
		return io.ErrUnexpectedEOF
	}
	return nil
}

func resOf(err error) string {
	switch err {
	case nil:
		return "ok"
	case common.ErrKeyNotFound:
		return "notfound"
	case common.ErrKeyExists:
		return "exists"
	case common.ErrItemNotStored:
		return "notstored"
	}
	if common.IsAppError(err) {
		return "apperr"
	}
	return "ioerr"
}

func (g Handler) post(c int, method string, key []byte, exptime uint32, res string) {
	if g.Log && c >= 0 {
		g.S.Emit(map[string]interface{}{"ev": "hcall", "c": c, "tier": g.Tier, "m": method, "k": g.KeyOf(key), "exp": exptime, "res": res})
	}
}

func (g Handler) simple(method string, key []byte, exptime uint32, f func() error) error {
	c, fk := g.pre(method, key)
	var err error
	if fk != "" {
		err = faultErr(fk)
	} else {
		err = f()
	}
	g.post(c, method, key, exptime, resOf(err))
	return err
}

func (g Handler) Set(cmd common.SetRequest) error {
	return g.simple("set", cmd.Key, cmd.Exptime, func() error { return g.H.Set(cmd) })
}
func (g Handler) Add(cmd common.SetRequest) error {
	return g.simple("add", cmd.Key, cmd.Exptime, func() error { return g.H.Add(cmd) })
}
func (g Handler) Replace(cmd common.SetRequest) error {
	return g.simple("replace", cmd.Key, cmd.Exptime, func() error { return g.H.Replace(cmd) })
}
func (g Handler) Append(cmd common.SetRequest) error {
	return g.simple("append", cmd.Key, 0, func() error { return g.H.Append(cmd) })
}
func (g Handler) Prepend(cmd common.SetRequest) error {
	return g.simple("prepend", cmd.Key, 0, func() error { return g.H.Prepend(cmd) })
}
func (g Handler) Delete(cmd common.DeleteRequest) error {
	return g.simple("delete", cmd.Key, 0, func() error { return g.H.Delete(cmd) })
}
func (g Handler) Touch(cmd common.TouchRequest) error {
	return g.simple("touch", cmd.Key, cmd.Exptime, func() error { return g.H.Touch(cmd) })
}

func (g Handler) GAT(cmd common.GATRequest) (common.GetResponse, error) {
	c, fk := g.pre("gat", cmd.Key)
	var r common.GetResponse
	var err error
	if fk != "" {
		err = faultErr(fk)
	} else {
		r, err = g.H.GAT(cmd)
	}
	res := resOf(err)
	if err == nil {
		if r.Miss {
			res = "miss"
		} else {
			res = "hit"
		}
	}
	g.post(c, "gat", cmd.Key, cmd.Exptime, res)
	return r, err
}

// Get performs the whole (possibly multi-key) lookup as one scheduled step: the inner handler's
// goroutine is drained before the caller sees the first response.
func (g Handler) Get(cmd common.GetRequest) (<-chan common.GetResponse, <-chan error) {
	var k []byte
	if len(cmd.Keys) > 0 {
		k = cmd.Keys[0]
	}
	c, fk := g.pre("get", k)
	out := make(chan common.GetResponse, len(cmd.Keys)+1)
	eout := make(chan error, 2)
	res := "miss"
	if fk != "" {
		if fk == "panic" {
			faultErr(fk)
		}
		eout <- faultErr(fk)
		res = fk
	} else {
		rc, ec := g.H.Get(cmd)
		for rc != nil || ec != nil {
			select {
			case r, ok := <-rc:
				if !ok {
					rc = nil
				} else {
					if !r.Miss {
						res = "hit"
					}
					out <- r
				}
			case e, ok := <-ec:
				if !ok {
					ec = nil
				} else {
					res = resOf(e)
					eout <- e
				}
			}
		}
	}
	close(out)
	close(eout)
	g.post(c, "get", k, 0, res)
	return out, eout
}

func (g Handler) GetE(cmd common.GetRequest) (<-chan common.GetEResponse, <-chan error) {
	var k []byte
	if len(cmd.Keys) > 0 {
		k = cmd.Keys[0]
	}
	c, fk := g.pre("gete", k)
	out := make(chan common.GetEResponse, len(cmd.Keys)+1)
	eout := make(chan error, 2)
	res := "miss"
	var exp uint32
	if fk != "" {
		if fk == "panic" {
			faultErr(fk)
		}
		eout <- faultErr(fk)
		res = fk
	} else {
		rc, ec := g.H.GetE(cmd)
		for rc != nil || ec != nil {
			select {
			case r, ok := <-rc:
				if !ok {
					rc = nil
				} else {
					if !r.Miss {
						res = "hit"
						exp = r.Exptime
					}
					out <- r
				}
			case e, ok := <-ec:
				if !ok {
					ec = nil
				} else {
					res = resOf(e)
					eout <- e
				}
			}
		}
	}
	close(out)
	close(eout)
	g.post(c, "gete", k, exp, res)
	return out, eout
}

func (g Handler) Close() error { return g.H.Close() }
