module verif/harness

go 1.21

require github.com/netflix/rend v0.0.0

replace github.com/netflix/rend => /repo
